"""C09 Column types round-trip values and apply processing exactly once (engine I).

For every type variant (Integer family, Numeric/Float with scale, String /
Text / Unicode, Boolean, Date, DateTime, Time, Interval, LargeBinary, Enum
native / non-native / values_callable, JSON, Uuid, PickleType) a *counting*
``TypeDecorator`` wraps the type; every boundary value of the type's domain is
stored and read back through every nesting context (plain column, label,
FROM-subquery, CTE, UNION, scalar subquery, function, INSERT..RETURNING single
and executemany, bound literal via type_coerce, type_coerce / cast of the
column, WHERE comparison, ORM flush + attribute load, ORM column_property) on a
real SQLite database.  INSERT..RETURNING is additionally explored as a delivery
matrix of its own: number of parameter sets (1 = plain execute, 2..3 =
insertmanyvalues) x sort_by_parameter_order x what serves as the sentinel
(autoincrement key, client-side generated key, explicit insert_sentinel column;
the latter two add a column to RETURNING that is filtered off the rows again) x
statement route (Core returning, Core return_defaults(supplemental_cols=), ORM
bulk insert returning a column, ORM bulk insert returning entities; the last
three process the fetched rows internally and serve them a second time from a
"rewound" result).  Oracle, per executed statement:

* the value that comes out equals the value that went in (Float/Numeric:
  within the type's scale);
* ``process_bind_param`` ran exactly once per value bound with the decorated
  type and ``process_result_value`` exactly once per fetched value of the
  decorated type - never zero times, never twice;
* a second, *non-idempotent* decorator (bind adds a marker, result removes it)
  gives the same answers, so a skipped or doubled processor also changes the
  value and not only the count.

Types without a SQLite implementation (ARRAY) and the other dialects' type
implementations are exercised without a server: the dialect's bind processor
composed with its result processor (fake cursor value) must call the
decorator's hooks exactly once per element.

Mutations caught: (private copy of lib/, quick tier, each gave VIOLATION lines)
  * sql/compiler.py visit_label registering NULLTYPE instead of label.type (processor dropped for labels)
    -> result processing x0 in label / scalar-subquery / coalesce / type_coerce(...);
  * sql/elements.py TypeCoerce.typed_expression not re-typing an existing bind parameter
    -> bind processing x0 in type_coerce(bindparam);
  * engine/_processors_cy.py str_to_datetime parsing ``value[:19]`` (microseconds lost) -> value changed: DateTime;
  * to_decimal_processor_factory with scale-1 -> value changed: Numeric(10,2);
  * TypeDecorator.result_processor applying process_result_value *before* the impl processor
    -> error / value changed with the marking decorators on DateTime, Boolean, Enum;
  * compiler._label_returning_column not populating the result map -> result processing x0 in insert..returning;
  * engine/cursor.py _remove_processors_and_tuple_filter keeping the processors when the metadata has a tuple filter
    (seeded C09-a: rewound RETURNING rows processed twice) -> result processing x2 / value changed in
    insert..returning [core return_defaults+supplemental_cols | orm returning column | orm returning entity,
    client-pk | sentinel-col, sorted, n=2].
"""
import datetime as dt
import decimal
import enum
import itertools
import uuid
import warnings

from sqlalchemy import BigInteger
from sqlalchemy import bindparam
from sqlalchemy import Boolean
from sqlalchemy import cast
from sqlalchemy import Column
from sqlalchemy import create_engine
from sqlalchemy import Date
from sqlalchemy import DateTime
from sqlalchemy import Enum
from sqlalchemy import exc
from sqlalchemy import Float
from sqlalchemy import func
from sqlalchemy import insert
from sqlalchemy import insert_sentinel
from sqlalchemy import Integer
from sqlalchemy import Interval
from sqlalchemy import JSON
from sqlalchemy import LargeBinary
from sqlalchemy import literal
from sqlalchemy import MetaData
from sqlalchemy import Numeric
from sqlalchemy import PickleType
from sqlalchemy import select
from sqlalchemy import SmallInteger
from sqlalchemy import String
from sqlalchemy import Table
from sqlalchemy import Text
from sqlalchemy import Time
from sqlalchemy import type_coerce
from sqlalchemy import TypeDecorator
from sqlalchemy import Unicode
from sqlalchemy import union
from sqlalchemy import union_all
from sqlalchemy import Uuid
from sqlalchemy.dialects import mssql
from sqlalchemy.dialects import mysql
from sqlalchemy.dialects import oracle
from sqlalchemy.dialects import postgresql
from sqlalchemy.orm import column_property
from sqlalchemy.orm import registry
from sqlalchemy.orm import Session
from sqlalchemy.pool import StaticPool

ID = "C09"
LEVEL = "exploration"
META = dict(
    engine="I",
    technique="exhaustive enumeration of type variant x boundary value x nesting context on a real SQLite database, "
    "with counting and non-idempotent TypeDecorators as probes",
    design_ref="DESIGN.md §5 C09",
    level_text="33 type variants (Integer family, Numeric scales 0/2/4 and asdecimal off, Float, String/Text/Unicode, Boolean "
    "with and without constraint, Date, DateTime with/without timezone flag, Time, Interval, LargeBinary, five Enum "
    "configurations, JSON x2, Uuid x3, PickleType), each wrapped in a counting TypeDecorator (and nine of them also in a "
    "non-idempotent marking one), x every boundary value of the variant's domain (ints +-2^k+-1, scale edges, calendar and "
    "microsecond edges, NUL/empty/unicode strings and bytes, nested JSON with None, all enum members, NULL) x 6 ways of "
    "writing (insert, insert.values, insert..returning, executemany..returning, update..returning, ORM flush) x the "
    "INSERT..RETURNING delivery matrix (n parameter sets x sort_by_parameter_order x sentinel kind {autoincrement key, "
    "client-side key, insert_sentinel column} x route {Core returning, Core return_defaults+supplemental_cols, ORM bulk "
    "returning column, ORM bulk returning entity}; see bounds for the part of it each value gets) x ~30 reading "
    "contexts (plain, label, subquery, subquery of label, CTE, UNION/UNION ALL, union in subquery, scalar subquery, max, "
    "coalesce, repeated column, type_coerce of column / plain column / label, bound literal 3 ways, cast, WHERE =/IN, "
    "mappings, yield_per, ORM entity load with two column_property, ORM attribute select, ORM expire+reload), executed on "
    "pysqlite and again through aiosqlite. Every statement is executed; value equality and the exact number of "
    "process_bind_param / process_result_value calls are checked on each. Complete for the listed product.",
    level_note="Only SQLite executes. Other dialects (postgresql, asyncpg, mysql, mssql, oracle): the dialect-level bind "
    "processor composed with the result processor is run on a fake cursor value and only the hook counts are judged; "
    "postgresql ARRAY is checked the same way (element visits and shape). timezone-aware datetimes are outside SQLite's "
    "domain (its storage format has no offset). Float NaN/inf excluded (SQLite turns NaN into NULL). Trusted: the ~40 "
    "line comparison/counting harness in this file.",
    rule="case = (driver, type variant, decorator kind, value, statement/context); every case executes a statement on the "
    "database; non-trivial = every one of them (a value is written or fetched through the decorated type and its hook "
    "count is checked); compose cases are non-trivial when the dialect has both processors and accepted the value",
    assumptions=[
        "values are inside the type's documented domain on SQLite (no tz-aware datetimes, no NaN, <= 15 significant digits for Numeric)",
        "int and float are one family when comparing what SQLite returns for integral REAL values",
    ],
    bounds=dict(
        quick="33 variants x boundary value sets (ints: 9 bit positions) x all writers x all contexts x 2 drivers; compose x 5 dialects; ARRAY 9 shapes. "
        "INSERT..RETURNING matrix on pysqlite: first value of every variant (count and mark decorators) x n in {1,2} x sorted/unsorted x 3 sentinel kinds x 4 routes "
        "(48 statements); every other value (incl. NULL) x the slice n=2, sorted, client-side key x the 3 rewinding routes; aiosqlite: that slice for the first value",
        thorough="as quick with ints +-2^k+-1 for every k < 64 and every 2-decimal value in [-1.20, 1.20]; plus all ordered pairs inside 4 type families in UNION/CASE/COALESCE; "
        "INSERT..RETURNING matrix complete (n in {1,2,3} x sorted/unsorted x 3 sentinel kinds x 4 routes = 72 statements) for every value on both drivers",
    ),
)

LOG = []  # [(hook, decorator tag)]


class Color(enum.Enum):
    red = "r"
    green = "g g"
    blue = "b'q"


class Num(enum.IntEnum):
    one = 1
    two = 2


def counting(impl_cls, *args, _tag="", **kw):
    """instance of a fresh TypeDecorator subclass over impl_cls(*args, **kw) that only counts its hook calls"""

    class Counting(TypeDecorator):
        impl = impl_cls
        cache_ok = True

        def process_bind_param(self, value, dialect):
            LOG.append("b" + _tag)
            return value

        def process_result_value(self, value, dialect):
            LOG.append("r" + _tag)
            return value

    Counting.__name__ = "Counting_" + impl_cls.__name__
    return Counting(*args, **kw)


def marking(impl_cls, mark, unmark, *args, **kw):
    """non-idempotent decorator: bind applies ``mark``, result applies ``unmark`` (None passes through)"""

    class Marking(TypeDecorator):
        impl = impl_cls
        cache_ok = True

        def process_bind_param(self, value, dialect):
            LOG.append("b")
            return None if value is None else mark(value)

        def process_result_value(self, value, dialect):
            LOG.append("r")
            return None if value is None else unmark(value)

    Marking.__name__ = "Marking_" + impl_cls.__name__
    return Marking(*args, **kw)


# ------------------------------------------------------------------ domains

D = decimal.Decimal


def _ints(bits, dense):
    vals = {0, 1, -1}
    ks = range(1, bits) if dense else (7, 8, 15, 16, 31, 32, 53, 62, bits - 1)
    for k in ks:
        if k < bits:
            for v in (2**k - 1, 2**k, -(2**k), -(2**k) + 1, 2**k + 1):
                if -(2 ** (bits - 1)) <= v <= 2 ** (bits - 1) - 1:
                    vals.add(v)
    vals |= {2 ** (bits - 1) - 1, -(2 ** (bits - 1))}
    return sorted(vals, key=lambda v: (abs(v), v))


def _decimals(scale, dense):
    q = D(1).scaleb(-scale)
    out = [D(0).quantize(q), q, -q, D(1), D("1.1").quantize(q) if scale else D(1), D(-1) - q, D("12345678.9").quantize(q) if scale else D(12345678)]
    out += [D(k) * q for k in ((range(-120, 121)) if dense else (5, -5, 10, 99, 100, 101, -99, 995, 999, 1000, 1005))]
    seen, res = set(), []
    for v in out:
        if v not in seen:
            seen.add(v)
            res.append(v)
    return res


STRINGS = ["", "a", "A", " ", " a ", "o'q", 'd"q', "%", "_", "\\", "a\nb", "\t", "\x00", "a\x00b", "é", "ß", "日本", "\U0001f600", "é", "‮", "x" * 300, "NULL", "0", "1.0", "true"]
BYTES = [b"", b"\x00", b"\x00\x00", b"a", b"\xff", b"\xff\x00abc", bytes(range(256)), b"'", b"x" * 1000]
DATES = [dt.date.min, dt.date(1, 1, 2), dt.date(999, 12, 31), dt.date(1000, 1, 1), dt.date(1900, 2, 28), dt.date(1969, 12, 31), dt.date(1970, 1, 1), dt.date(2000, 2, 29), dt.date(2023, 10, 9), dt.date(2024, 2, 29), dt.date(2038, 1, 19), dt.date(9999, 12, 31)]
MICROS = [0, 1, 10, 100, 1000, 10000, 100000, 999999, 500000, 123456]
TIMES = [dt.time.min, dt.time.max, dt.time(12, 0), dt.time(0, 0, 1), dt.time(23, 59, 59)] + [dt.time(1, 2, 3, m) for m in MICROS]
DATETIMES = (
    [dt.datetime.min, dt.datetime.max, dt.datetime(1970, 1, 1), dt.datetime(1969, 12, 31, 23, 59, 59, 999999), dt.datetime(2000, 2, 29, 23, 59, 59)]
    + [dt.datetime(2001, 2, 3, 4, 5, 6, m) for m in MICROS]
    + [dt.datetime(y, 12, 31, 23, 59, 59, 999999) for y in (1, 99, 999, 1000, 9999)]
)
INTERVALS = [dt.timedelta(0), dt.timedelta(microseconds=1), dt.timedelta(microseconds=-1), dt.timedelta(seconds=1), dt.timedelta(days=1), dt.timedelta(days=-1), dt.timedelta(days=-1, microseconds=1), dt.timedelta(days=365 * 400), dt.timedelta(days=-365 * 400), dt.timedelta(hours=25, minutes=61, seconds=61, microseconds=999999)]
FLOATS = [0.0, -0.0, 1.0, -1.0, 0.5, 0.1, 1 / 3, 1e-10, 1e10, 1.7976931348623157e308, 5e-324, 2.2250738585072014e-308, 123456789.123456789, float(2**53), float(2**53 + 2)]
JSONS = [None, True, False, 0, 1, -1, 1.5, "", "s", "é", "NULL", [], {}, [None], {"a": None}, {"a": [1, None, {"b": "é", "c": [True, 2.5]}]}, [[[]]], {"": ""}, 2**53, "\x00", "o'q"]
UUIDS = [uuid.UUID(int=0), uuid.UUID(int=2**128 - 1), uuid.UUID("12345678-1234-5678-1234-567812345678"), uuid.UUID(int=1), uuid.UUID("a0eebc99-9c0b-4ef8-bb6d-6bb9bd380a11")]
PICKLES = [{}, [], (), [1, (2, 3)], {"a": {1, 2}}, D("1.10"), dt.date(2000, 2, 29), "s", b"\x00", 0, False, frozenset([1]), {"k": [None, 1.5]}]


def variants(tier):
    """-> list of (name, make(kind)->type instance, values, flags)
    kind: 'count' | 'mark';  flags: set of {'eq' (usable in WHERE =), 'cast' (SQLite CAST preserves the value),
    'union' (UNION can dedupe/compare it), 'max' (max() keeps the value), 'approx:<n>' (compare to n decimals)}"""
    dense = tier == "thorough"
    V = []

    def add(name, cls, args, kw, values, flags, mark=None):
        def make(kind, tag=""):
            if kind == "mark":
                return marking(cls, mark[0], mark[1], *args, **kw)
            return counting(cls, *args, _tag=tag, **kw)

        V.append((name, make, list(values) + [None], set(flags), mark is not None))

    inc = (lambda v: v + 1, lambda v: v - 1)
    pre = (lambda v: "m" + v, lambda v: v[1:] if v[:1] == "m" else "UNMARKED:" + v)
    bpre = (lambda v: b"m" + v, lambda v: v[1:] if v[:1] == b"m" else b"UNMARKED:" + v)
    ALL = {"eq", "cast", "union", "max"}
    add("Integer", Integer, (), {}, [v for v in _ints(64, dense) if v < 2**63 - 1], ALL, inc)
    add("SmallInteger", SmallInteger, (), {}, _ints(16, dense), ALL)
    add("BigInteger", BigInteger, (), {}, _ints(64, dense), ALL)
    dinc = (lambda v: v + 1, lambda v: v - 1)
    day = (lambda v: v + dt.timedelta(days=1), lambda v: v - dt.timedelta(days=1))
    add("Numeric(10,2)", Numeric, (10, 2), {}, _decimals(2, dense), ALL | {"castnum"}, dinc)
    add("Numeric(12,4)", Numeric, (12, 4), {}, _decimals(4, False), ALL | {"castnum"})
    add("Numeric(8,0)", Numeric, (8, 0), {}, _decimals(0, False), ALL | {"castnum"})
    add("Numeric(asdecimal=False)", Numeric, (10, 2), dict(asdecimal=False), [float(v) for v in _decimals(2, False)], ALL)
    add("Float", Float, (), {}, FLOATS, ALL)
    add("Float(asdecimal)", Float, (), dict(asdecimal=True), [D("0"), D("1.5"), D("-1.5"), D("0.1"), D("0.0000000001"), D("12345.678901")], {"eq", "union", "max", "cast", "castnum"})
    add("String(50)", String, (50,), {}, [s for s in STRINGS if len(s) <= 50], ALL, pre)
    add("Text", Text, (), {}, STRINGS, ALL)
    add("Unicode(50)", Unicode, (50,), {}, [s for s in STRINGS if len(s) <= 50], ALL)
    add("Boolean", Boolean, (), {}, [True, False], ALL, (lambda v: not v, lambda v: not v))
    add("Boolean(constraint)", Boolean, (), dict(create_constraint=True, name="ck_bool"), [True, False], ALL)
    add("Date", Date, (), {}, DATES, {"eq", "union", "max"})
    add("DateTime", DateTime, (), {}, [v for v in DATETIMES if v.year < 9999], {"eq", "union", "max"}, day)
    add("DateTime(all)", DateTime, (), {}, DATETIMES, {"eq", "union", "max"})
    add("DateTime(timezone=True)", DateTime, (), dict(timezone=True), DATETIMES[:8], {"eq", "union", "max"})
    add("Time", Time, (), {}, TIMES, {"eq", "union", "max"})
    add("Interval", Interval, (), {}, INTERVALS, {"eq", "union", "max"})
    add("LargeBinary", LargeBinary, (), {}, BYTES, ALL, bpre)
    rot = {Color.red: Color.green, Color.green: Color.blue, Color.blue: Color.red}
    unrot = {v: k for k, v in rot.items()}
    add("Enum(pyenum)", Enum, (Color,), {}, list(Color), ALL, (rot.__getitem__, unrot.__getitem__))
    add("Enum(pyenum,non-native,constraint)", Enum, (Color,), dict(native_enum=False, create_constraint=True, name="ck_color"), list(Color), ALL)
    add("Enum(values_callable)", Enum, (Color,), dict(values_callable=lambda c: [e.value for e in c]), list(Color), ALL)
    add("Enum(strings)", Enum, ("a", "B b", "c'q", ""), dict(name="e_str"), ["a", "B b", "c'q", ""], ALL)
    add("Enum(IntEnum)", Enum, (Num,), {}, list(Num), ALL)
    add("JSON", JSON, (), {}, JSONS, set())
    add("JSON(none_as_null)", JSON, (), dict(none_as_null=True), JSONS[1:], set())
    add("Uuid", Uuid, (), {}, UUIDS, ALL)
    add("Uuid(as_uuid=False)", Uuid, (), dict(as_uuid=False), [str(u) for u in UUIDS], ALL)
    add("Uuid(native_uuid=False)", Uuid, (), dict(native_uuid=False), UUIDS, ALL)
    add("PickleType", PickleType, (), {}, PICKLES, {"cast"})
    return V


# ------------------------------------------------------------------ world


class World:
    """one table + mapped class per (type variant, decorator kind) on a private in-memory database"""

    def __init__(self, name, make, kind, conn=None):
        self.name = name
        self.engine = None
        if conn is None:
            self.engine = create_engine("sqlite://", poolclass=StaticPool)
            conn = self.engine.connect()
        self.md = MetaData()
        self.typ = make(kind)
        self.t = Table("t", self.md, Column("id", Integer, primary_key=True), Column("v", self.typ))
        self.typ2 = make(kind)
        # the same physical table described with the *undecorated* implementation type
        self.plain = Table("t", MetaData(), Column("id", Integer, primary_key=True), Column("v", self.typ.impl_instance if hasattr(self.typ, "impl_instance") else self.typ.impl))
        reg = registry()
        t = self.t
        t2 = t.alias("t2")

        class Ent:
            pass

        reg.map_imperatively(
            Ent,
            t,
            properties=dict(vprop=column_property(select(t2.c.v).where(t2.c.id == t.c.id).scalar_subquery()), vlabel=column_property(type_coerce(t.c.v, self.typ2).label("vl"))),
        )
        self.Ent = Ent
        # tables for the INSERT..RETURNING delivery matrix: what serves as the insertmanyvalues "sentinel" differs -
        # a server-side autoincrement key, a client-side generated key (python default, autoincrement=False) and an
        # explicit insert_sentinel() column (the latter two ride along in RETURNING and are filtered off the rows)
        ctr = itertools.count(1)
        self.rtables = {}
        self.rstmts = {}
        for rk, pk_kw, extra in (
            ("auto-pk", {}, ()),
            ("client-pk", dict(autoincrement=False, default=lambda: next(ctr)), ()),
            ("sentinel-col", {}, (insert_sentinel("sn"),)),
        ):
            rt = Table("r_" + rk[:4].rstrip("-"), self.md, Column("id", Integer, primary_key=True, **pk_kw), Column("v", self.typ), *extra)
            rent = type("REnt_" + rk[:4].rstrip("-"), (object,), {})
            reg.map_imperatively(rent, rt)
            self.rtables[rk] = (rt, rent)
        self.conn = conn
        self.md.create_all(self.conn)

    def close(self):
        if self.engine is not None:
            self.conn.close()
            self.engine.dispose()


def with_world(driver, name, make, kind, body):
    """run body(World) on the pysqlite driver, or on aiosqlite (the whole body inside AsyncConnection.run_sync, so the
    identical synchronous statements go through the asyncio adaptation layer and the aiosqlite cursor)"""
    if driver == "sqlite":
        w = World(name, make, kind)
        try:
            return body(w)
        finally:
            w.close()
    import asyncio

    from sqlalchemy.ext.asyncio import create_async_engine

    async def main():
        eng = create_async_engine("sqlite+aiosqlite://", poolclass=StaticPool)
        try:
            async with eng.connect() as ac:
                return await ac.run_sync(lambda sc: body(World(name, make, kind, sc)))
        finally:
            await eng.dispose()

    return asyncio.run(main())


def same(a, b):
    """compares equal, and has the same Python type - except that an integral REAL may come back from SQLite as an
    int (0.0 -> 0 through NUMERIC affinity / RETURNING; -0.0 loses its sign): int and float are one family"""
    return a == b and (type(a) is type(b) or {type(a), type(b)} <= {int, float})


def contexts(w, flags, value):
    """-> list of (context name, thunk -> (fetched values list), expected bind calls, expected result calls, expected values)"""
    t, c, typ = w.t, w.conn, w.typ
    one = [value]
    C = []

    def sel(stmt):
        return lambda: [r[0] for r in c.execute(stmt)]

    C.append(("plain", sel(select(t.c.v)), 0, 1, one))
    C.append(("label", sel(select(t.c.v.label("x"))), 0, 1, one))
    sq = select(t.c.v).subquery()
    C.append(("subquery", sel(select(sq.c.v)), 0, 1, one))
    sq2 = select(t.c.v.label("lv")).subquery("s2")
    C.append(("subquery-of-label", sel(select(select(sq2.c.lv).subquery().c.lv)), 0, 1, one))
    cte = select(t.c.v).cte("c1")
    C.append(("cte", sel(select(cte.c.v)), 0, 1, one))
    C.append(("union_all", sel(union_all(select(t.c.v), select(t.c.v))), 0, 2, [value, value]))
    if "union" in flags:
        C.append(("union", sel(union(select(t.c.v), select(t.c.v))), 0, 1, one))
    C.append(("union-subquery", sel(select(union_all(select(t.c.v), select(t.c.v).where(t.c.id < 0)).subquery().c.v)), 0, 1, one))
    C.append(("scalar-subquery", sel(select(select(t.c.v).scalar_subquery())), 0, 1, one))
    C.append(("scalar-subquery-label", sel(select(select(t.c.v).scalar_subquery().label("q"))), 0, 1, one))
    if "max" in flags:
        C.append(("func.max", sel(select(func.max(t.c.v))), 0, 1, one))
    C.append(("coalesce", sel(select(func.coalesce(t.c.v, t.c.v))), 0, 1, one))
    C.append(("two-columns", lambda: list(c.execute(select(t.c.v, t.c.id, t.c.v.label("again"))).one()[::2]), 0, 2, [value, value]))
    C.append(("type_coerce(column)", sel(select(type_coerce(t.c.v, w.typ2))), 0, 1, one))
    C.append(("type_coerce(plain column)", sel(select(type_coerce(w.plain.c.v, w.typ2))), 0, 1, one))
    C.append(("type_coerce(label)", sel(select(type_coerce(t.c.v, w.typ2).label("tc"))), 0, 1, one))
    if value is not None:  # (a None literal is rendered as NULL, there is nothing to bind)
        C.append(("type_coerce(bindparam)", sel(select(type_coerce(bindparam("p", value), typ))), 1, 1, one))
        C.append(("type_coerce(bindparam of the plain type)", sel(select(type_coerce(bindparam("p", value, type_=w.plain.c.v.type), typ))), 1, 1, one))
        C.append(("type_coerce(bindparam) in where", lambda: [r[0] for r in c.execute(select(t.c.id).where(t.c.v == type_coerce(bindparam("p", value), typ)))] if "eq" in flags else [1], 1 if "eq" in flags else 0, 0, [1]))
        C.append(("bound literal", sel(select(type_coerce(value, typ))), 1, 1, one))
        C.append(("bound literal (literal())", sel(select(literal(value, typ))), 1, 1, one))
        C.append(("bound literal in subquery", sel(select(select(literal(value, typ).label("p")).subquery().c.p)), 1, 1, one))
    if "cast" in flags and value is not None or ("cast" in flags and "castnum" not in flags):
        C.append(("cast(column)", sel(select(cast(t.c.v, w.typ2))), 0, 1, one))
    if "eq" in flags and value is not None:
        C.append(("where ==", lambda: [r[0] for r in c.execute(select(t.c.id).where(t.c.v == value))], 1, 0, [1]))
        C.append(("where in", lambda: [r[0] for r in c.execute(select(t.c.id).where(t.c.v.in_([value, value])))], 2, 0, [1]))
    C.append(("mappings", lambda: [r["v"] for r in c.execute(select(t.c.v)).mappings()], 0, 1, one))
    C.append(("scalars+yield_per", lambda: list(c.execute(select(t.c.v).execution_options(yield_per=1)).scalars()), 0, 1, one))

    def orm_load():
        with Session(c) as s:
            e = s.execute(select(w.Ent)).scalars().one()
            return [e.v, e.vprop, e.vlabel]

    C.append(("orm entity load (+2 column_property)", orm_load, 0, 3, [value, value, value]))

    def orm_attr():
        with Session(c) as s:
            return list(s.execute(select(w.Ent.v, w.Ent.vprop)).one())

    C.append(("orm attribute select", orm_attr, 0, 2, [value, value]))

    def orm_refresh():
        with Session(c) as s:
            e = s.get(w.Ent, 1)
            del LOG[:]
            s.expire(e, ["v"])
            return [e.v]

    C.append(("orm expire+reload", orm_refresh, 0, 1, one))
    return C


def writers(w, value):
    """ways of storing the value; each leaves exactly one row id=1 -> (name, thunk -> fetched values, binds, results, expected)"""
    t, c = w.t, w.conn
    W = []

    def core_insert():
        c.execute(t.delete())
        del LOG[:]
        c.execute(insert(t), dict(id=1, v=value))
        return []

    W.append(("insert", core_insert, 1, 0, []))

    def ins_values():
        c.execute(t.delete())
        del LOG[:]
        c.execute(insert(t).values(id=1, v=value))
        return []

    W.append(("insert.values()", ins_values, 1, 0, []))

    def ins_returning():
        c.execute(t.delete())
        del LOG[:]
        return [c.execute(insert(t).returning(t.c.v), dict(id=1, v=value)).scalar_one()]

    W.append(("insert..returning", ins_returning, 1, 1, [value]))

    def ins_many_returning():
        c.execute(t.delete())
        del LOG[:]
        rows = c.execute(insert(t).returning(t.c.v, sort_by_parameter_order=True), [dict(id=1, v=value), dict(id=2, v=value), dict(id=3, v=None)]).all()
        c.execute(t.delete().where(t.c.id > 1))
        return [r[0] for r in rows]

    W.append(("executemany insert..returning", ins_many_returning, 3, 3, [value, value, None]))

    def upd_returning():
        c.execute(t.delete())
        c.execute(insert(t), dict(id=1, v=None))
        del LOG[:]
        return [c.execute(t.update().values(v=value).returning(t.c.v)).scalar_one()]

    W.append(("update..returning", upd_returning, 1, 1, [value]))

    def orm_flush():
        c.execute(t.delete())
        del LOG[:]
        with Session(c) as s:
            e = w.Ent()
            e.id = 1
            e.v = value
            s.add(e)
            s.flush()
            s.commit()
        return []

    W.append(("orm flush", orm_flush, 1, 0, []))
    return W


RET_TABLES = ("auto-pk", "client-pk", "sentinel-col")
RET_ROUTES = ("core returning", "core return_defaults+supplemental_cols", "orm returning column", "orm returning entity")


def returning_matrix(w, value, mode):
    """INSERT..RETURNING as a delivery context of its own: n identical parameter sets (n=1: plain execute, n>1:
    insertmanyvalues) x sort_by_parameter_order x kind of sentinel x statement route.  The ORM routes and
    return_defaults(supplemental_cols=) fetch and process the rows internally and then serve them again ("rewound"
    result).  mode 'full2' / 'full3' = whole product with n <= 2 / 3; 'slice' = the deterministic-order executemany
    (n=2, sorted) on the client-side-key table through the three rewinding routes.  Simplest first.
    -> (name, thunk, allowed bind counts, result calls, expected values)"""
    c = w.conn
    M = []
    if mode == "slice":
        combos, tables, routes = [(2, True)], RET_TABLES[1:2], RET_ROUTES[1:]
    else:
        combos, tables, routes = [(n, srt) for n in range(1, int(mode[4:]) + 1) for srt in (False, True)], RET_TABLES, RET_ROUTES
    for n, srt in combos:
        for rk in tables:
            rt, rent = w.rtables[rk]
            for route in routes:

                sk = (rk, route, srt)
                if sk not in w.rstmts:  # built once per world (the statement does not depend on the value)
                    if route == "core returning":
                        w.rstmts[sk] = insert(rt).returning(rt.c.v, sort_by_parameter_order=srt)
                    elif route == "core return_defaults+supplemental_cols":
                        w.rstmts[sk] = insert(rt).return_defaults(supplemental_cols=[rt.c.v], sort_by_parameter_order=srt)
                    elif route == "orm returning column":
                        w.rstmts[sk] = insert(rent).returning(rent.v, sort_by_parameter_order=srt)
                    else:
                        w.rstmts[sk] = insert(rent).returning(rent, sort_by_parameter_order=srt)

                def thunk(n=n, rt=rt, route=route, stmt=w.rstmts[sk]):
                    c.execute(rt.delete())
                    del LOG[:]
                    ps = [dict(v=value) for _ in range(n)]
                    if route == "core returning":
                        return [r[0] for r in c.execute(stmt, ps)]
                    if route == "core return_defaults+supplemental_cols":
                        return [r._mapping[rt.c.v] for r in c.execute(stmt, ps)]
                    with Session(c) as s:
                        if route == "orm returning column":
                            return list(s.execute(stmt, ps).scalars())
                        return [e.v for e in s.execute(stmt, ps).scalars()]

                # the ORM bulk INSERT leaves a None-valued column out of the statement (documented: None = "omitted"),
                # unless the type evaluates None (JSON): both are accepted, there is then nothing / one value to bind
                nb = (0, n) if value is None and route.startswith("orm") else (n,)
                M.append(("insert..returning [%s, %s, %s, n=%d]" % (route, rk, "sorted" if srt else "unsorted", n), thunk, nb, n, [value] * n))
    return M


def matrix_mode(tier, route, i, nvalues):
    """which part of the INSERT..RETURNING matrix value #i gets (a pure function of the case, so replay agrees)"""
    if tier == "thorough":
        return "full3"
    if route != "sqlite":
        return "slice" if i == 0 else None
    return "full2" if i == 0 else "slice"


def run_value(w, flags, value, out, mode=None):
    """store ``value`` each way; after the last way read it back through every context"""
    stats = []

    def one(ctx, thunk, nb, nr, expect):
        del LOG[:]
        try:
            with warnings.catch_warnings():
                warnings.simplefilter("ignore")
                got = thunk()
        except Exception as e:  # the statement is well-formed and the value in the domain: any failure is the implementation's
            w.conn.rollback()
            out.append(("error in %s" % ctx, "%s: %s" % (type(e).__name__, str(e)[:200])))
            return
        b, r = sum(1 for x in LOG if x[0] == "b"), sum(1 for x in LOG if x[0] == "r")
        if b not in (nb if isinstance(nb, tuple) else (nb,)):
            out.append(("bind processing x%d in %s" % (b, ctx), "process_bind_param ran %d time(s) for %r bound value(s)" % (b, nb)))
        if r != nr:
            out.append(("result processing x%d in %s" % (min(r, 2) if nr == 1 else (0 if r == 0 else (1 if r < nr else 2)), ctx), "process_result_value ran %d time(s) for %d fetched value(s)" % (r, nr)))
        if len(got) != len(expect) or not all(same(g, x) for g, x in zip(got, expect)):
            out.append(("value changed in %s" % ctx, "stored %r, got back %r (expected %r)" % (value, got, expect)))
        stats.append((ctx, b, r))

    if mode:
        for name, thunk, nb, nr, expect in returning_matrix(w, value, mode):
            one(name, thunk, nb, nr, expect)
        for rt, _ in w.rtables.values():
            w.conn.execute(rt.delete())
        w.conn.commit()
    for name, thunk, nb, nr, expect in writers(w, value):
        one(name, thunk, nb, nr, expect)
        # whichever way it was written, the plain read must give it back
        one("plain after " + name, lambda: [r[0] for r in w.conn.execute(select(w.t.c.v))], 0, 1, [value])
    for ctx, thunk, nb, nr, expect in contexts(w, flags, value):
        one(ctx, thunk, nb, nr, expect)
    w.conn.commit()
    return stats


# ------------------------------------------------------- pairwise coercions (thorough)

FAMILIES = [
    (["Integer", "SmallInteger", "BigInteger", "Boolean"], [0, 1]),
    (["String(50)", "Text", "Unicode(50)", "Enum(strings)"], ["a", "c'q"]),
    (["Numeric(10,2)", "Numeric(12,4)", "Numeric(8,0)"], [D("1"), D("-2")]),
    (["Float", "Numeric(asdecimal=False)"], [1.5, -2.0]),
]


def pair_case(tier, na, nb, va, vb, out):
    """two decorated columns of compatible types meet in UNION / CASE / COALESCE: every fetched value is processed
    exactly once (by whichever decorator the construct's type is - never by both, never by none)"""
    from sqlalchemy import case as sa_case

    A = _variant(tier, na)[1]("count", "A")
    B = _variant(tier, nb)[1]("count", "B")
    va = bool(va) if na == "Boolean" else va
    vb = bool(vb) if nb == "Boolean" else vb
    eng = create_engine("sqlite://", poolclass=StaticPool)
    md = MetaData()
    ta = Table("ta", md, Column("id", Integer, primary_key=True), Column("v", A))
    tb = Table("tb", md, Column("id", Integer, primary_key=True), Column("v", B))
    n = 0
    try:
        with eng.connect() as c, warnings.catch_warnings():
            warnings.simplefilter("ignore")
            md.create_all(c)
            c.execute(insert(ta), dict(id=1, v=va))
            c.execute(insert(tb), dict(id=1, v=vb))
            stmts = [
                ("union_all(A,B)", union_all(select(ta.c.v), select(tb.c.v)), [va, vb]),
                ("union_all(B,A)", union_all(select(tb.c.v), select(ta.c.v)), [vb, va]),
                ("union_all subquery", select(union_all(select(ta.c.v), select(tb.c.v)).subquery().c.v), [va, vb]),
                ("case", select(sa_case((ta.c.id == 1, ta.c.v), else_=tb.c.v)).select_from(ta.join(tb, ta.c.id == tb.c.id)), [va]),
                ("case else", select(sa_case((ta.c.id == 2, ta.c.v), else_=tb.c.v)).select_from(ta.join(tb, ta.c.id == tb.c.id)), [vb]),
                ("coalesce", select(func.coalesce(ta.c.v, tb.c.v)).select_from(ta.join(tb, ta.c.id == tb.c.id)), [va]),
                ("scalar subquery of B in A", select(ta.c.v, select(tb.c.v).scalar_subquery()), None),
            ]
            for name, stmt, expect in stmts:
                del LOG[:]
                try:
                    rows = c.execute(stmt).all()
                except (exc.SQLAlchemyError, ValueError, TypeError, LookupError) as e:
                    out.append(("pair error in %s" % name, "%s: %s" % (type(e).__name__, str(e)[:200])))
                    continue
                nvals = sum(len(r) for r in rows)
                r = sum(1 for x in LOG if x[0] == "r")
                n += 1
                if r != nvals:
                    out.append(("pair result processing in %s" % name, "%d call(s) %r for %d fetched value(s)" % (r, LOG, nvals)))
                if expect is None:
                    if [x for x in LOG if x[0] == "r"] != ["rA", "rB"]:
                        out.append(("pair result processing in %s" % name, "decorators ran %r, expected A then B" % (LOG,)))
                elif na == nb or type(_variant(tier, na)[1]("count").impl) is type(_variant(tier, nb)[1]("count").impl):
                    got = sorted((x[0] for x in rows), key=repr)
                    if not (len(got) == len(expect) and all(same(g, x) for g, x in zip(got, sorted(expect, key=repr)))):
                        out.append(("pair value changed in %s" % name, "got %r expected %r" % (got, expect)))
    finally:
        eng.dispose()
    return n


# ------------------------------------------------------- other dialects (no server)

OTHER_DIALECTS = dict(
    postgresql=lambda: postgresql.dialect(),
    postgresql_asyncpg=lambda: __import__("sqlalchemy.dialects.postgresql.asyncpg", fromlist=["dialect"]).dialect(),
    mysql=lambda: mysql.dialect(),
    mssql=lambda: mssql.dialect(),
    oracle=lambda: oracle.dialect(),
)


def composition_case(dname, vname, make, value, out):
    """bind processor then result processor of the dialect's implementation of the decorated type; the decorator's
    hooks must run exactly once each.  The value fed to the result processor is what the bind processor produced - not
    necessarily what that driver would return - so an exception from the *implementation's* result processor is 'not
    applicable', while the counts are always checked"""
    d = OTHER_DIALECTS[dname]()
    typ = make("count")
    try:
        typ.dialect_impl(d)
        bp = typ._cached_bind_processor(d)
        rp = typ._cached_result_processor(d, None)
    except (exc.SQLAlchemyError, NotImplementedError, TypeError):
        return "n/a"
    del LOG[:]
    try:
        sent = bp(value) if bp else value
    except Exception as e:
        out.append(("%s bind processor error" % dname, "%s: %s(%r): %s" % (vname, type(e).__name__, value, e)))
        return "err"
    nb = sum(1 for x in LOG if x[0] == "b")
    if bp is None or nb != 1:
        out.append(("%s bind processing x%d" % (dname, nb), "%s: value %r" % (vname, value)))
    del LOG[:]
    try:
        rp(sent) if rp else sent
    except Exception:
        if LOG.count("r") > 1:
            out.append(("%s result processing x%d" % (dname, LOG.count("r")), "%s: value %r" % (vname, value)))
        return "fake-value-rejected"
    nr = LOG.count("r")
    if rp is None or nr != 1:
        out.append(("%s result processing x%d" % (dname, nr), "%s: value %r" % (vname, value)))
    return "ok"


def array_case(dims, values, out):
    """postgresql ARRAY of a counting item type: processors must visit every element exactly once and keep the shape"""
    d = postgresql.dialect()
    item = counting(Integer)
    typ = postgresql.ARRAY(item, dimensions=dims)
    bp = typ.dialect_impl(d).bind_processor(d)
    rp = typ.dialect_impl(d).result_processor(d, None)
    n = sum(1 for _ in _flat(values))
    del LOG[:]
    sent = bp(values) if bp else values
    if LOG.count("b") != n:
        out.append(("ARRAY bind processing", "dims=%r value=%r: %d calls for %d elements" % (dims, values, LOG.count("b"), n)))
    del LOG[:]
    back = rp(sent) if rp else sent
    if LOG.count("r") != n:
        out.append(("ARRAY result processing", "dims=%r value=%r: %d calls for %d elements" % (dims, values, LOG.count("r"), n)))
    if back != values:
        out.append(("ARRAY value changed", "dims=%r value=%r came back as %r" % (dims, values, back)))


def _flat(v):
    if isinstance(v, (list, tuple)):
        for x in v:
            yield from _flat(x)
    else:
        yield v


ARRAYS = [(1, []), (1, [1]), (1, [1, None, 3]), (2, [[1, 2], [3, 4]]), (2, [[], []]), (2, [[None]]), (3, [[[1], [2]], [[3], [4]]]), (None, [1, 2]), (None, [[1, 2], [3, None]])]


# ------------------------------------------------------------------ driver


def shards(tier, seed):
    out = []
    for name, make, values, flags, has_mark in variants(tier):
        out.append(("sqlite", name, "count"))
        if has_mark:
            out.append(("sqlite", name, "mark"))
        out.append(("aiosqlite", name, "count"))
    out.append(("compose", None, None))
    if tier == "thorough":
        for fi in range(len(FAMILIES)):
            out.append(("pairs", fi, None))
    return out


def _variant(tier, name):
    for v in variants(tier):
        if v[0] == name:
            return v
    raise KeyError(name)


def run_shard(shard, tier, rec):
    route, name, kind = shard
    if route == "pairs":
        names, vals = FAMILIES[name]
        for na in names:
            for nb in names:
                for va in vals:
                    for vb in vals:
                        out = []
                        n = pair_case(tier, na, nb, va, vb, out)
                        rec.case(("pair", na, nb, repr(va), repr(vb)), nontrivial=na != nb, n=n)
                        rec.outcome(("pair", na, nb, repr(va), repr(vb), n))
                        for k, d in out:
                            rec.violation("%s: %s x %s" % (k, na, nb), d, dict(route="pairs", a=na, b=nb, va=vals.index(va), vb=vals.index(vb), family=name, tier=tier), kind=k)
        return
    if route == "compose":
        for vname, make, values, flags, _ in variants(tier):
            for dname in OTHER_DIALECTS:
                for value in values[:6] + values[-1:]:
                    out = []
                    res = composition_case(dname, vname, make, value, out)
                    rec.case(("compose", dname, vname, repr(value)), nontrivial=res == "ok")
                    rec.outcome(("compose", dname, vname, res))
                    for k, d in out:
                        rec.violation("%s: %s" % (k, vname), d, dict(route="compose", dialect=dname, variant=vname, value_index=values.index(value), tier=tier), kind=k + vname)
        for dims, vals in ARRAYS:
            out = []
            array_case(dims, vals, out)
            rec.case(("array", dims, repr(vals)), nontrivial=bool(list(_flat(vals))))
            for k, d in out:
                rec.violation("%s: dims=%r" % (k, dims), d, dict(route="array", dims=dims, values=vals), kind=k)
        return
    vname, make, values, flags, _ = _variant(tier, name)

    def body(w):
        for i, value in enumerate(values):
            out = []
            stats = run_value(w, flags, value, out, matrix_mode(tier, route, i, len(values)))
            for ctx, b, r in stats:
                rec.case((route, vname, kind, i, ctx), nontrivial=True)
            rec.outcome((vname, kind, repr(value)))
            rec.count("values")
            rec.count("statements_" + route, len(stats))
            if i in (1, len(values) // 2):
                rec.sample(dict(driver=route, type=vname, decorator=kind, value=repr(value)[:60], contexts=len(stats)))
            for k, d in out:
                rec.violation(
                    "%s: %s" % (k, vname),
                    "driver %s, value #%d %r (%s decorator): %s" % (route, i, value, kind, d),
                    dict(route=route, variant=vname, kind=kind, value_index=i, tier=tier),
                    kind=k,
                )

    with_world(route, vname, make, kind, body)


def replay(case):
    out = []
    if case["route"] == "array":
        array_case(case["dims"], case["values"], out)
        return [("%s: dims=%r" % (k, case["dims"]), d) for k, d in out]
    if case["route"] == "pairs":
        vals = FAMILIES[case["family"]][1]
        pair_case(case["tier"], case["a"], case["b"], vals[case["va"]], vals[case["vb"]], out)
        return [("%s: %s x %s" % (k, case["a"], case["b"]), d) for k, d in out]
    vname, make, values, flags, _ = _variant(case["tier"], case["variant"])
    value = values[case["value_index"]]
    if case["route"] == "compose":
        composition_case(case["dialect"], vname, make, value, out)
    else:
        mode = matrix_mode(case["tier"], case["route"], case["value_index"], len(values))
        with_world(case["route"], vname, make, case["kind"], lambda w: run_value(w, flags, value, out, mode))
    return [("%s: %s" % (k, vname), d) for k, d in out]
