"""C13 column defaults / onupdate fire exactly when the value is omitted.

Engine I.  A table ``(id PK, tag, c1..c4)`` is built for every assignment of a
default kind to c1..c4 from {scalar, none, python callable, context-sensitive
callable, SQL expression, server default} within d deviations of "all scalar"
(each column gets ``default=`` *and* ``onupdate=`` of that kind), and for every
route x supplied-column subset (per row) x None placement the real INSERT /
UPDATE is executed on SQLite and the stored rows are compared with the model

    value(row, col) = supplied value if the key is supplied (even None)
                      else the column's default evaluated once for that row

Python callables count their invocations and return ``1000*j + k`` on the k-th
call; context-sensitive callables return ``5000*j + tag`` of *their* row (read
from ``context.get_current_parameters()``), so a default evaluated once per
statement, for the wrong row, or fired although a value was supplied shows up
in the stored value and in the counters.

What "supplied" means per route is taken from the documentation, not from the
code: Core executemany uses the *first* dictionary's key set for every row (a
later row lacking one of those keys is the documented "A value is required for
bind parameter" error, keys it has in addition are documented as not scanned);
ORM flush / ORM bulk INSERT scan every row and treat ``None`` as "omit the
column" (documented; ``null()`` resp. ``render_nulls=True`` force NULL).

Also checked: ``inserted_primary_key(_rows)``, ``returned_defaults(_rows)`` and
the ORM object's attributes after flush equal the stored row (PK given / SQLite
autoincrement / client-side callable PK).

Genuine defect found on the unchanged tree (kept as a violation with one stable
signature, see the report / known_findings.json):
``orm-attribute: kinds=callable,scalar,scalar,scalar pk=given route=ou_flush rows=[c2;c2]``
- orm/persistence.py ``_emit_update_statements`` (executemany branch) hands
``compiled_parameters[0]`` to ``_postfetch`` for every record, so after a flush
that batches two UPDATEs each object shows the *first* row's python-side
onupdate value instead of the one stored for its own row.

Mutations caught (each in a private copy, VF_REPO=/tmp/wt-dml):
  1. engine/default.py _process_execute_defaults: ``self.current_parameters = param``
     -> ``= self.compiled_parameters[0]`` (context-sensitive default sees the first row)
  2. sql/crud.py _get_stmt_parameter_tuples_params: ``parameters.setdefault(colkey, v)``
     only ``if v is not None`` (values(col=None) treated as omitted)
  3. orm/persistence.py _emit_insert_statements / _emit_update_statements: the
     ``set(rec[2])`` parameter-key component of the groupby key dropped (first
     row's key set used for all rows of a flush) - two separate edits
  4. engine/default.py: UPDATE prefetch uses ``c._default_description_tuple``
     instead of ``c._onupdate_description_tuple`` (swapped branch)
  5. engine/default.py: python callable default memoised per statement (evaluated
     once per statement instead of once per row)
  6. orm/persistence.py _collect_insert_commands: ``and not render_nulls`` dropped
  7. sql/crud.py _scan_cols (ordered values): ``c.key not in ordered_keys`` ->
     ``c not in ordered_keys`` - every column scanned a second time: a supplied
     column with a SQL-expression onupdate is silently overridden (stored-value),
     with a python-side onupdate a CompileError; caught only by the
     Update.ordered_values() / Query.update(preserve_parameter_order) routes
"""
from __future__ import annotations

import itertools
import warnings

import sqlalchemy as sa
from sqlalchemy import bindparam
from sqlalchemy import Column
from sqlalchemy import FetchedValue
from sqlalchemy import insert
from sqlalchemy import Integer
from sqlalchemy import literal
from sqlalchemy import MetaData
from sqlalchemy import null
from sqlalchemy import select
from sqlalchemy import Table
from sqlalchemy import text
from sqlalchemy import update
from sqlalchemy import exc as sa_exc
from sqlalchemy.orm import registry as _orm_registry
from sqlalchemy.orm import Session
from sqlalchemy.pool import StaticPool

ID = "C13"
LEVEL = "exploration"
KINDS = ("scalar", "none", "callable", "ctx", "sqlexpr", "server")
NCOL = 4
COLS = tuple("c%d" % j for j in range(1, NCOL + 1))

META = dict(
    engine="I",
    technique="small-scope enumeration (deviation-bounded default-kind assignments x supplied-subset pairs x None placement x "
    "route), value-per-row reference model, invocation counters",
    design_ref="DESIGN.md §5 C13",
    level_text="Every default-kind assignment within 2 (quick) / 4 = all 6^4 (thorough) deviations of all-scalar is combined with "
    "every supplied-column subset (all 2^4, per row; all ordered pairs for two-row executions), None in every supplied position, "
    "INSERT and UPDATE, Core single / values() / executemany / multi-values / return_defaults / Update.ordered_values() (every "
    "ordering of every supplied subset of <=3 columns) and ORM flush / bulk INSERT / bulk UPDATE / Query.update(preserve_parameter_order), "
    "three primary-key modes; stored rows, invocation counts, inserted_primary_key, returned_defaults and ORM attributes are "
    "compared with the value-per-row model. Complete for the bound.",
    level_note="Trusted: the 30-line model, SQLite storing integers faithfully. Only SQLite executes (per backend: the default "
    "machinery is dialect independent except RETURNING vs lastrowid, both reached here through return_defaults / plain).",
    rule="case = (kind assignment, pk mode, route, per-row supplied subsets, None positions); non-trivial = at least one row omits a "
    "column that has a default of any kind AND at least one row supplies a value (or None) for a column that has a default",
    assumptions=[
        "Core executemany: the first dictionary determines the columns (documented); ORM: None means omit (documented)",
        "server_onupdate=FetchedValue() has no server-side effect on SQLite: value unchanged",
    ],
    bounds=dict(
        quick="kind assignments within 2 deviations of all-scalar (171), all 16 subsets, all 256 ordered subset pairs, 2 rows",
        thorough="all 6^4=1296 kind assignments, all 16 subsets, all 256 ordered subset pairs, 2 rows",
    ),
)
SHARD_TIMEOUT = dict(quick=300, thorough=1800)

CB = "<callable>"  # placeholder in expected rows


# ------------------------------------------------------------------ world


class World:
    """tables + mapped classes + counters for one kind assignment"""

    def __init__(self, kinds):
        self.kinds = tuple(kinds)
        self.md = MetaData()
        self.reg = _orm_registry()
        self.counts = {}
        self.tables = {}
        self.classes = {}
        self.pk_count = [0]
        for pkmode in ("given", "auto", "cb"):
            name = "c13_%s" % pkmode
            if pkmode == "given":
                idcol = Column("id", Integer, primary_key=True, autoincrement=False)
            elif pkmode == "auto":
                idcol = Column("id", Integer, primary_key=True)
            else:
                idcol = Column("id", Integer, primary_key=True, autoincrement=False, default=self._pkgen)
            cols = [idcol, Column("tag", Integer)]
            for j, kind in enumerate(self.kinds, 1):
                cols.append(self._col(name, j, kind))
            t = Table(name, self.md, *cols)
            self.tables[pkmode] = t
            cls = type("E13_" + pkmode, (object,), {})
            self.reg.map_imperatively(cls, t)
            self.classes[pkmode] = cls
        self.engine = None

    def _pkgen(self):
        self.pk_count[0] += 1
        return 70 - 7 * self.pk_count[0]  # client generated, decreasing

    def reset_counts(self):
        self.counts = {}
        self.pk_count[0] = 0

    def _bump(self, key):
        self.counts[key] = self.counts.get(key, 0) + 1
        return self.counts[key]

    def _col(self, tname, j, kind):
        name = "c%d" % j
        if kind == "scalar":
            return Column(name, Integer, default=100 + j, onupdate=150 + j)
        if kind == "none":
            return Column(name, Integer)
        if kind == "callable":
            return Column(name, Integer, default=lambda: 1000 * j + self._bump(("ins", j)), onupdate=lambda: 2000 * j + self._bump(("upd", j)))
        if kind == "ctx":

            def ins(ctx):
                self._bump(("ins", j))
                return 5000 * j + ctx.get_current_parameters()["tag"]

            def upd(ctx):
                self._bump(("upd", j))
                p = ctx.get_current_parameters()
                for k in ("b_id", tname + "_id", "id"):
                    if k in p:
                        return 7000 * j + p[k]
                raise AssertionError("harness: no row key among %r" % (sorted(p),))

            return Column(name, Integer, default=ins, onupdate=upd)
        if kind == "sqlexpr":
            return Column(name, Integer, default=literal(300 + j) + 1, onupdate=sa.literal_column("id") + (400 + j))
        if kind == "server":
            return Column(name, Integer, server_default=text(str(500 + j)), server_onupdate=FetchedValue())
        raise AssertionError(kind)

    def get_engine(self):
        if self.engine is None:
            self.engine = sa.create_engine("sqlite://", poolclass=StaticPool)
            self.md.create_all(self.engine)
        return self.engine

    def dispose(self):
        if self.engine is not None:
            self.engine.dispose()
            self.engine = None


# ------------------------------------------------------------------ model


def ins_expected(kinds, tag, supplied):
    """supplied: {col: value}; -> {col: value | (CB, j)}"""
    out = {}
    for j, kind in enumerate(kinds, 1):
        c = "c%d" % j
        if c in supplied:
            out[c] = supplied[c]
        elif kind == "scalar":
            out[c] = 100 + j
        elif kind == "none":
            out[c] = None
        elif kind == "callable":
            out[c] = (CB, j)
        elif kind == "ctx":
            out[c] = 5000 * j + tag
        elif kind == "sqlexpr":
            out[c] = 301 + j
        elif kind == "server":
            out[c] = 500 + j
    return out


def upd_expected(kinds, rid, old, supplied):
    out = {}
    for j, kind in enumerate(kinds, 1):
        c = "c%d" % j
        if c in supplied:
            out[c] = supplied[c]
        elif kind == "scalar":
            out[c] = 150 + j
        elif kind in ("none", "server"):
            out[c] = old[c]
        elif kind == "callable":
            out[c] = (CB, j)
        elif kind == "ctx":
            out[c] = 7000 * j + rid
        elif kind == "sqlexpr":
            out[c] = rid + 400 + j
    return out


def compare(expected_rows, stored_by_tag, counts, which, base):
    """expected_rows: {tag: {col: v|(CB,j)}}; returns problems"""
    out = []
    if sorted(expected_rows) != sorted(stored_by_tag):
        return [("row-set", "stored tags %r, expected %r" % (sorted(stored_by_tag), sorted(expected_rows)))]
    cb_vals = {}
    for tag in sorted(expected_rows):
        exp, got = expected_rows[tag], stored_by_tag[tag]
        for c in COLS:
            e = exp[c]
            if isinstance(e, tuple):
                cb_vals.setdefault(e[1], []).append(got[c])
            elif got[c] != e:
                out.append(("stored-value", "row tag=%d column %s stored %r, model %r (row %r)" % (tag, c, got[c], e, got)))
    for j, vals in cb_vals.items():
        want = [base * j + k for k in range(1, len(vals) + 1)]
        if sorted(vals, key=lambda v: (v is None, v)) != want:
            out.append(("callable-value", "column c%d: rows omitting it stored %r, model: one fresh invocation each %r" % (j, vals, want)))
    return out


# ------------------------------------------------------------------ case execution
#
# case = dict(kinds=[..], pk=.., route=.., rows=[{"s": [cols], "none": [cols], "null": [cols]}, ...])
# values: row r (0-based) supplies col cj -> 900 + 10*r + j ; None / null() where listed.


def _supplied(r, spec):
    d = {}
    for c in spec["s"]:
        j = int(c[1:])
        if c in spec.get("none", ()):
            d[c] = None
        elif c in spec.get("null", ()):
            d[c] = None
        else:
            d[c] = 900 + 10 * r + j
    return d


def _orm_effective(spec, sup, render_nulls=False, is_update=False):
    """documented ORM meaning: None = omit on INSERT (unless render_nulls / null())"""
    if is_update or render_nulls:
        return dict(sup)
    return {c: v for c, v in sup.items() if not (v is None and c not in spec.get("null", ()))}


OLD = {1: {"c1": 11, "c2": 12, "c3": 13, "c4": 14}, 2: {"c1": 21, "c2": 22, "c3": 23, "c4": 24}, 3: {"c1": 31, "c2": 32, "c3": 33, "c4": 34}}


def execute_case(world, case):
    """returns list of (kind, detail)"""
    route = case["route"]
    pk = case.get("pk", "given")
    t = world.tables[pk]
    cls = world.classes[pk]
    rows = case["rows"]
    n = len(rows)
    sups = [_supplied(r, spec) for r, spec in enumerate(rows)]
    tags = [r + 1 for r in range(n)]
    eng = world.get_engine()
    world.reset_counts()
    problems = []
    is_update = route.startswith("u_") or route.startswith("ou_")
    with warnings.catch_warnings():
        warnings.simplefilter("ignore")
        with eng.connect() as conn:
            trans = conn.begin()  # external transaction: ORM sessions join it, nothing is ever committed
            try:
                if is_update:
                    for rid, old in OLD.items():
                        conn.exec_driver_sql("INSERT INTO %s (id, tag, c1, c2, c3, c4) VALUES (?, ?, ?, ?, ?, ?)" % t.name, (rid, rid, old["c1"], old["c2"], old["c3"], old["c4"]))
                    problems = _run_update(world, conn, t, cls, route, rows, sups)
                else:
                    problems = _run_insert(world, conn, t, cls, pk, route, rows, sups, tags)
            finally:
                trans.rollback()
    return problems


def _stored(conn, t):
    return {r.tag: dict(r._mapping) for r in conn.execute(select(t))}


def _pdict(pk, tag, sup, rid=None):
    d = {"tag": tag}
    if pk == "given":
        d["id"] = tag * 3
    d.update(sup)
    return d


def _run_insert(world, conn, t, cls, pk, route, rows, sups, tags):
    kinds = world.kinds
    n = len(rows)
    out = []
    expect_error = False
    eff = sups
    result = None
    objs = None
    try:
        if route == "i_single":
            result = conn.execute(insert(t), _pdict(pk, tags[0], sups[0]))
        elif route == "i_values":
            result = conn.execute(insert(t).values(**_pdict(pk, tags[0], sups[0])))
        elif route == "i_single_rd":
            result = conn.execute(insert(t).return_defaults(), _pdict(pk, tags[0], sups[0]))
        elif route in ("i_many", "i_many_rd"):
            first = set(sups[0])
            if any(first - set(s) for s in sups[1:]):
                expect_error = True
            eff = [{c: v for c, v in s.items() if c in first} for s in sups]
            st = insert(t)
            if route == "i_many_rd":
                st = st.return_defaults()
            result = conn.execute(st, [_pdict(pk, tag, s) for tag, s in zip(tags, sups)])
        elif route == "i_multivalues":
            result = conn.execute(insert(t).values([_pdict(pk, tag, s) for tag, s in zip(tags, sups)]))
        elif route in ("o_flush",):
            eff = [_orm_effective(spec, s) for spec, s in zip(rows, sups)]
            with Session(bind=conn) as s_:
                objs = []
                for spec, tag, sup in zip(rows, tags, sups):
                    ob = cls()
                    for k, v in _pdict(pk, tag, sup).items():
                        setattr(ob, k, null() if (k in spec.get("null", ())) else v)
                    objs.append(ob)
                s_.add_all(objs)
                s_.flush()
                stored = _stored(conn, t)
                for ob, tag in zip(objs, tags):
                    got = stored.get(tag)
                    if got is not None:
                        for c in ("id",) + COLS:
                            v = getattr(ob, c)
                            if v != got[c]:
                                out.append(("orm-attribute", "object tag=%d attribute %s is %r after flush, stored %r" % (tag, c, v, got[c])))
                                break
        elif route in ("o_bulk", "o_bulk_nulls", "o_bulk_maps"):
            rn = route == "o_bulk_nulls"
            eff = [_orm_effective(spec, s, render_nulls=rn) for spec, s in zip(rows, sups)]
            with Session(bind=conn) as s_:
                plist = [_pdict(pk, tag, s) for tag, s in zip(tags, sups)]
                if route == "o_bulk_maps":
                    s_.bulk_insert_mappings(cls, plist)
                else:
                    s_.execute(insert(cls), plist, execution_options={"render_nulls": True} if rn else {})
                s_.flush()
        else:
            raise AssertionError(route)
    except sa_exc.StatementError as e:
        if expect_error and isinstance(e.orig, sa_exc.InvalidRequestError) and "value is required for bind parameter" in str(e.orig):
            stored = _stored(conn, t)
            if stored:
                out.append(("error-but-rows-inserted", "documented missing-key error raised, but table holds %r" % (stored,)))
            return out
        out.append(("unexpected-error", "%s: %s" % (type(e).__name__, str(e)[:300])))
        return out
    except (sa_exc.SQLAlchemyError, KeyError, TypeError, AttributeError, IndexError) as e:
        out.append(("unexpected-error", "%s: %s" % (type(e).__name__, str(e)[:300])))
        return out
    if expect_error:
        out.append(("missing-key-accepted", "row lacks a key of the first parameter set yet no error; stored %r" % (_stored(conn, t),)))
        return out
    stored = _stored(conn, t)
    expected = {tag: ins_expected(kinds, tag, e) for tag, e in zip(tags, eff)}
    out += compare(expected, stored, world.counts, "ins", 1000)
    out += _check_counts(world, kinds, "ins", eff)
    # ---- primary keys / returned defaults
    if not out and result is not None:
        out += _check_result(result, route, pk, t, tags, stored, n)
    return out


def _check_counts(world, kinds, which, effs):
    """python callables (plain and context-sensitive) run once per row that omitted the column, never otherwise"""
    out = []
    for j, kind in enumerate(kinds, 1):
        if kind not in ("callable", "ctx"):
            continue
        c = "c%d" % j
        want = sum(1 for e in effs if c not in e)
        got = world.counts.get((which, j), 0)
        if got != want:
            out.append(("invocation-count", "%s default of %s invoked %d times, %d rows omitted the column" % (kind, c, got, want)))
    return out


def _check_result(result, route, pk, t, tags, stored, n):
    out = []
    if route in ("i_single", "i_values", "i_single_rd"):
        ipk = tuple(result.inserted_primary_key)
        if ipk != (stored[tags[0]]["id"],):
            out.append(("inserted-primary-key", "inserted_primary_key %r, stored id %r" % (ipk, stored[tags[0]]["id"])))
    if route == "i_single_rd":
        rd = result.returned_defaults
        if rd is not None:
            for col, v in rd._mapping.items():
                if stored[tags[0]][col] != v:
                    out.append(("returned-defaults", "returned_defaults %s=%r, stored %r" % (col, v, stored[tags[0]][col])))
    if route == "i_many_rd":
        ipks = [tuple(x) for x in result.inserted_primary_key_rows]
        want = [(stored[tag]["id"],) for tag in tags]
        if ipks != want:
            out.append(("inserted-primary-key-rows", "inserted_primary_key_rows %r, stored ids in parameter order %r" % (ipks, want)))
        rds = result.returned_defaults_rows
        if rds is not None:
            for tag, rd in zip(tags, rds):
                for col, v in (rd._mapping.items() if rd is not None else ()):
                    if stored[tag][col] != v:
                        out.append(("returned-defaults-rows", "row tag=%d returned_defaults %s=%r, stored %r" % (tag, col, v, stored[tag][col])))
                        break
    return out


def _run_update(world, conn, t, cls, route, rows, sups):
    kinds = world.kinds
    n = len(rows)
    out = []
    rids = [r + 1 for r in range(n)]
    expect_error = False
    eff = sups
    emitted = [True] * n
    result = None
    stmt = update(t).where(t.c.id == bindparam("b_id"))
    try:
        if route == "u_single":
            result = conn.execute(stmt, dict(sups[0], b_id=1))
        elif route == "u_values":
            result = conn.execute(stmt.values(**sups[0]) if sups[0] else stmt, {"b_id": 1})
        elif route == "u_single_rd":
            result = conn.execute(stmt.return_defaults(), dict(sups[0], b_id=1))
        elif route in ("u_ordered", "u_ordered_cols"):
            # Update.ordered_values(): SET clause in the given order; keys spelled as strings / as Column objects
            order = rows[0]["order"]
            pairs = [((t.c[c] if route == "u_ordered_cols" else c), sups[0][c]) for c in order]
            result = conn.execute(stmt.ordered_values(*pairs), {"b_id": 1})
        elif route == "ou_query_ordered":
            order = rows[0]["order"]
            with Session(bind=conn) as s_:
                pairs = [(getattr(cls, c), sups[0][c]) for c in order]
                s_.query(cls).filter(cls.id == bindparam("b_id")).params(b_id=1).update(
                    pairs, synchronize_session=False, update_args={"preserve_parameter_order": True})
                s_.flush()
        elif route == "u_many":
            first = set(sups[0])
            if any(first - set(s) for s in sups[1:]):
                expect_error = True
            eff = [{c: v for c, v in s.items() if c in first} for s in sups]
            result = conn.execute(stmt, [dict(s, b_id=rid) for rid, s in zip(rids, sups)])
        elif route == "ou_flush":
            emitted = [bool(s) for s in sups]
            with Session(bind=conn) as s_:
                objs = [s_.get(cls, rid) for rid in rids]
                for ob, sup in zip(objs, sups):
                    for k, v in sup.items():
                        setattr(ob, k, v)
                s_.flush()
                stored = _stored(conn, t)
                for ob, rid in zip(objs, rids):
                    for c in COLS:
                        v = getattr(ob, c)
                        if v != stored[rid][c]:
                            out.append(("orm-attribute", "object id=%d attribute %s is %r after flush, stored %r" % (rid, c, v, stored[rid][c])))
                            break
        elif route == "ou_bulk":
            emitted = [bool(s) for s in sups]
            with Session(bind=conn) as s_:
                plist = [dict(s, id=rid) for rid, s in zip(rids, sups) if s]
                if plist:
                    s_.execute(update(cls), plist)
                s_.flush()
        else:
            raise AssertionError(route)
    except sa_exc.StatementError as e:
        if expect_error and isinstance(e.orig, sa_exc.InvalidRequestError) and "value is required for bind parameter" in str(e.orig):
            stored = _stored(conn, t)
            if any(stored[rid][c] != OLD[rid][c] for rid in OLD for c in COLS):
                out.append(("error-but-rows-updated", "documented missing-key error raised, but table holds %r" % (stored,)))
            return out
        out.append(("unexpected-error", "%s: %s" % (type(e).__name__, str(e)[:300])))
        return out
    except (sa_exc.SQLAlchemyError, KeyError, TypeError, AttributeError, IndexError) as e:
        out.append(("unexpected-error", "%s: %s" % (type(e).__name__, str(e)[:300])))
        return out
    if expect_error:
        out.append(("missing-key-accepted", "row lacks a key of the first parameter set yet no error"))
        return out
    stored = _stored(conn, t)
    expected = {}
    for rid in OLD:
        if rid in rids and emitted[rids.index(rid)]:
            expected[rid] = upd_expected(kinds, rid, OLD[rid], eff[rids.index(rid)])
        else:
            expected[rid] = dict(OLD[rid])
    out += compare(expected, stored, world.counts, "upd", 2000)
    out += _check_counts(world, kinds, "upd", [e for e, em in zip(eff, emitted) if em])
    for rid in OLD:
        if stored[rid]["id"] != rid:
            out.append(("pk-changed", repr(stored[rid])))
    if not out and route == "u_single_rd" and result is not None:
        rd = result.returned_defaults
        if rd is not None:
            for col, v in rd._mapping.items():
                if stored[1][col] != v:
                    out.append(("returned-defaults", "UPDATE returned_defaults %s=%r, stored %r" % (col, v, stored[1][col])))
    return out


# ------------------------------------------------------------------ enumeration

SUBSETS = [tuple(c for i, c in enumerate(COLS) if m >> i & 1) for m in sorted(range(16), key=lambda m: (bin(m).count("1"), m))]


def kind_assignments(maxdev):
    out = []
    for d in range(maxdev + 1):
        for pos in itertools.combinations(range(NCOL), d):
            for repl in itertools.product(KINDS[1:], repeat=d):
                ks = ["scalar"] * NCOL
                for p, k in zip(pos, repl):
                    ks[p] = k
                out.append(tuple(ks))
    return out


def single_specs(orm_null=False):
    """one row: every subset, plain; then None in each supplied position; (ORM) null() in each position"""
    for s in SUBSETS:
        yield dict(s=list(s))
    for s in SUBSETS:
        for c in s:
            yield dict(s=list(s), none=[c])
    if orm_null:
        for s in SUBSETS:
            for c in s:
                yield dict(s=list(s), null=[c])


def ordered_specs():
    """one row for Update.ordered_values(): every ordering of every supplied subset of <= 3 columns, plain and with
    None in each supplied position"""
    for s in SUBSETS:
        if not 1 <= len(s) <= 3:
            continue
        for order in itertools.permutations(s):
            yield dict(s=list(s), order=list(order))
            for c in s:
                yield dict(s=list(s), none=[c], order=list(order))


def pair_specs():
    """two rows: every ordered pair of subsets; None alternately in the first supplied position of row 2 / row 1"""
    for s1 in SUBSETS:
        for s2 in SUBSETS:
            yield [dict(s=list(s1)), dict(s=list(s2), none=list(s2[:1]))]
            if s1:
                yield [dict(s=list(s1), none=list(s1[:1])), dict(s=list(s2))]


def homog_pair_specs():
    for s in SUBSETS:
        yield [dict(s=list(s)), dict(s=list(s), none=list(s[:1]))]
        if s:
            yield [dict(s=list(s), none=list(s[-1:])), dict(s=list(s))]


def cases_for(kinds):
    kinds = list(kinds)
    has_py_or_sql_onupdate = any(k in ("scalar", "callable", "ctx", "sqlexpr") for k in kinds)
    # ---- INSERT, pk given
    for route in ("i_single", "i_values", "i_single_rd"):
        for spec in single_specs():
            yield dict(kinds=kinds, pk="given", route=route, rows=[spec])
    for route in ("i_many",):
        for rows in pair_specs():
            yield dict(kinds=kinds, pk="given", route=route, rows=rows)
    for route in ("i_many_rd", "i_multivalues"):
        for rows in homog_pair_specs():
            yield dict(kinds=kinds, pk="given", route=route, rows=rows)
    # ---- other pk modes
    for pk in ("auto", "cb"):
        for route in ("i_single", "i_single_rd"):
            for s in SUBSETS:
                yield dict(kinds=kinds, pk=pk, route=route, rows=[dict(s=list(s))])
        for route in ("i_many", "i_many_rd", "o_flush"):
            for rows in homog_pair_specs():
                yield dict(kinds=kinds, pk=pk, route=route, rows=rows)
    # ---- ORM insert
    for spec in single_specs(orm_null=True):
        yield dict(kinds=kinds, pk="given", route="o_flush", rows=[spec])
    for route in ("o_flush", "o_bulk", "o_bulk_nulls", "o_bulk_maps"):
        for rows in pair_specs():
            if rows[0].get("none") and route != "o_bulk_nulls":
                continue  # ORM INSERT: None == omitted (documented), that pair is enumerated as the smaller subset
            yield dict(kinds=kinds, pk="given", route=route, rows=rows)
    # ---- UPDATE
    for route in ("u_single", "u_values", "u_single_rd"):
        for spec in single_specs():
            if not spec["s"] and not has_py_or_sql_onupdate:
                continue  # UPDATE with an empty SET clause is not a statement
            yield dict(kinds=kinds, pk="given", route=route, rows=[spec])
    for rows in pair_specs():
        if not rows[0]["s"] and not has_py_or_sql_onupdate:
            continue
        yield dict(kinds=kinds, pk="given", route="u_many", rows=rows)
    for route in ("u_ordered", "u_ordered_cols", "ou_query_ordered"):
        for spec in ordered_specs():
            if route == "u_ordered_cols" and len(spec["s"]) == 1:
                continue  # one column: the order is trivial, string keys cover it
            yield dict(kinds=kinds, pk="given", route=route, rows=[spec])
    for spec in single_specs():
        yield dict(kinds=kinds, pk="given", route="ou_flush", rows=[spec])
    for route in ("ou_flush", "ou_bulk"):
        for rows in pair_specs():
            yield dict(kinds=kinds, pk="given", route=route, rows=rows)


def nontrivial(case):
    kinds = case["kinds"]
    omit = sup = False
    for spec in case["rows"]:
        for j, k in enumerate(kinds, 1):
            c = "c%d" % j
            if k == "none":
                continue
            if c in spec["s"]:
                sup = True
            else:
                omit = True
    return omit and sup


def shards(tier, seed):
    ks = kind_assignments(2 if tier == "quick" else 4)
    return [list(k) for k in ks]


def _sig(kind, case):
    rows = ";".join("%s%s%s" % ("+".join(r["s"]) or "-", ("/None:" + "+".join(r["none"])) if r.get("none") else "", ("/null:" + "+".join(r["null"])) if r.get("null") else "") + (("/order:" + ">".join(r["order"])) if r.get("order") else "") for r in case["rows"])
    return "%s: kinds=%s pk=%s route=%s rows=[%s]" % (kind, ",".join(case["kinds"]), case.get("pk", "given"), case["route"], rows)


def _fails(case, kind):
    w = World(case["kinds"])
    try:
        probs = execute_case(w, case)
    except Exception:
        probs = []
    finally:
        w.dispose()
    for k, d in probs:
        if k == kind:
            return d
    return None


def _permute(case, perm):
    """column c(j+1) of the result is column c(perm[j]+1) of the case"""
    inv = {"c%d" % (old + 1): "c%d" % (new + 1) for new, old in enumerate(perm)}

    def mv(lst):
        return sorted(inv[c] for c in lst)

    rows = []
    for r in case["rows"]:
        rr = dict(s=mv(r["s"]))
        for k in ("none", "null"):
            if r.get(k):
                rr[k] = mv(r[k])
        if r.get("order"):
            rr["order"] = [inv[c] for c in r["order"]]
        rows.append(rr)
    return dict(case, kinds=[case["kinds"][old] for old in perm], rows=rows)


def _minimal_kinds(case, kind):
    """canonical minimal failing sub-case (one root cause -> one signature, whatever shard met it first):
    kinds towards 'none', ctx towards callable, None/null markers and supplied columns dropped, rows dropped,
    then the lexicographically least column permutation that still fails"""
    cur = {k: v for k, v in case.items()}

    def attempt(trial):
        nonlocal cur
        if _fails(trial, kind) is not None:
            cur = trial
            return True
        return False

    changed = True
    while changed:
        changed = False
        for j in range(NCOL):
            for repl in ("none", "scalar", "callable"):
                k = cur["kinds"][j]
                if k == repl or KINDS.index(repl) >= KINDS.index(k) and not (k == "ctx" and repl == "callable"):
                    continue
                if attempt(dict(cur, kinds=[(repl if i == j else kk) for i, kk in enumerate(cur["kinds"])])):
                    changed = True
                    break
        for ri in range(len(cur["rows"])):
            r = cur["rows"][ri]
            for key in ("none", "null"):
                if r.get(key):
                    rr = {k: v for k, v in r.items() if k != key}
                    if attempt(dict(cur, rows=cur["rows"][:ri] + [rr] + cur["rows"][ri + 1:])):
                        changed = True
            r = cur["rows"][ri]
            for c in list(r["s"]):
                rr = dict(s=[x for x in r["s"] if x != c])
                for key in ("none", "null"):
                    if r.get(key) and [x for x in r[key] if x != c]:
                        rr[key] = [x for x in r[key] if x != c]
                if r.get("order"):
                    rr["order"] = [x for x in r["order"] if x != c]
                    if not rr["order"]:
                        continue
                if attempt(dict(cur, rows=cur["rows"][:ri] + [rr] + cur["rows"][ri + 1:])):
                    changed = True
                    r = cur["rows"][ri]
        if len(cur["rows"]) > 1:
            for ri in range(len(cur["rows"])):
                if attempt(dict(cur, rows=cur["rows"][:ri] + cur["rows"][ri + 1:])):
                    changed = True
                    break
    cands = []
    for perm in itertools.permutations(range(NCOL)):
        c = _permute(cur, perm)
        cands.append((_sig(kind, c), perm))
    cands.sort()
    for sig, perm in cands:
        c = _permute(cur, perm)
        if _fails(c, kind) is not None:
            return c
    return cur


def run_shard(shard, tier, rec):
    world = World(shard)
    prev = None
    try:
        for case in cases_for(shard):
            probs = execute_case(world, case)
            nt = nontrivial(case)
            rec.case((tuple(case["kinds"]), case["pk"], case["route"], repr(case["rows"])), nontrivial=nt)
            rec.count("route_" + case["route"])
            if probs:
                # believe it only if a fresh engine (what replay does) shows it too; otherwise keep the warm-up case
                w2 = World(case["kinds"])
                try:
                    fresh = execute_case(w2, case)
                finally:
                    w2.dispose()
                rcase = dict(case)
                if not fresh and prev is not None:
                    rcase["pre"] = [prev]
                for kind, detail in probs[:1]:
                    if ("kind", (kind, case["route"], case["pk"])) in rec._vsigs:
                        rec.count("violating_cases")
                        continue
                    small = _minimal_kinds(rcase, kind) if fresh else rcase
                    rec.violation(_sig(kind, small), _fails(small, kind) or detail, small, kind=(kind, case["route"], case["pk"]))
            else:
                rec.outcome((case["route"], case["pk"], tuple(len(r["s"]) for r in case["rows"])))
                if nt and len(case["rows"]) == 2 and case["rows"][0]["s"] != case["rows"][1]["s"] and case["route"] in ("o_flush", "i_many", "ou_bulk") and len(case["rows"][0]["s"]) == 2:
                    rec.sample(dict(kinds=case["kinds"], route=case["route"], rows=case["rows"]), limit=1)
            prev = case
    finally:
        world.dispose()


def replay(case):
    w = World(case["kinds"])
    try:
        for pre in case.get("pre", ()):
            execute_case(w, pre)
        probs = execute_case(w, {k: v for k, v in case.items() if k != "pre"})
    finally:
        w.dispose()
    return [(_sig(kind, case), detail) for kind, detail in probs]
