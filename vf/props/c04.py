"""C04 bound parameters are delivered to the right placeholders in every paramstyle.

Engine I over vf.worlds.stmtfam.BIND_SHAPES (32 statement shapes with 2..7
named binds in SELECT list, WHERE, HAVING, ORDER BY, LIMIT/OFFSET, CTEs
(plain, chained, nesting, recursive, referenced from a subquery), scalar /
EXISTS / FROM subqueries, JOIN ON, expanding IN (0..3 elements, NOT IN inside
a CTE, tuple IN), repeated binds, UNION, ``%`` operators and literals,
text(), CASE/BETWEEN/functions, VALUES, INSERT values / from SELECT / from
CTE / ON CONFLICT DO UPDATE, UPDATE (SET vs WHERE order, correlated, FROM),
DELETE, RETURNING with binds, executemany insert / update / delete and
insertmanyvalues) x configurations (bind naming scheme incl. names that
need escaping, which bind is literal_execute, IN length, values embedded in
the binds vs passed at execution; thorough: two sentinel value vectors), plus the
*name-pair* family (every ordered pair of 13 bind names in one statement).

Every case runs on nine engines: the proxy driver (vf.engines.paramproxy)
in each of the six paramstyles, the stock sqlite3 qmark driver, and the
in-repo pysqlite_numeric / pysqlite_dollar dialects.

Oracles
  T-ref   what SQLAlchemy handed to cursor.execute/executemany is decoded by
          the rules of that paramstyle into (skeleton, value per placeholder
          occurrence); substituting each value as a literal must reproduce the
          text of the same statement compiled with literal_binds (values
          rendered in place from the expression tree: no positional logic
          involved).  This is the statement of the property, per placeholder.
  T-diff  (skeleton, values) is identical under all six paramstyles.
  X       rows (and, for DML, the table contents afterwards) equal those of
          the literal SQL executed directly on sqlite3; for executemany the
          literal statements of the individual parameter sets in order.
  Any exception (incl. the proxy refusing a malformed statement/parameter
  combination, e.g. a stray % or a missing numbered parameter) is a violation.

Genuine defects found on the unchanged tree (kept, stable signatures):
  * two different bind names that become equal after bind-name escaping
    (``a.b`` / ``a b``, ``a.b`` / ``a_b`` ...) are rendered as one placeholder:
    one of the two values is delivered to both places (named / pyformat) or
    an AssertionError is raised (positional styles).  A CompileError for such
    a pair would be accepted (explicit refusal).
  * a ``literal_execute=True`` bind whose name needs escaping raises KeyError
    in _process_parameters_for_postcompile (pops the escaped name from a
    dictionary keyed by un-escaped names).

Mutations caught (each seeded alone in a scratch copy, VIOLATION obtained):
  M2 sql/compiler.py _process_parameters_for_postcompile: numeric renumbering of expanded binds starts one too high
  M3 sql/compiler.py _process_positional: reverse lookup of escaped bind names dropped from positiontup
  Ma sql/compiler.py _process_positional: post-compile binds no longer recorded in positiontup
  Mb sql/compiler.py _process_numeric: ``if bind_name in param_pos: continue`` dropped (insertmanyvalues numbering)
  Mf sql/compiler.py IdentifierPreparer: %% doubling only for 'format', not 'pyformat'
  Mg engine/default.py _init_compiled: positional assembly uses the pre-expansion positiontup
  Mh engine/default.py _init_compiled: dict parameters no longer keyed by the escaped names
  Mj sql/compiler.py _deliver_insertmanyvalues_batches: extra_params_left / right swapped
  Mk sql/compiler.py _deliver_insertmanyvalues_batches: numeric start position off by one
"""
from __future__ import annotations

import sqlite3

from sqlalchemy import bindparam
from sqlalchemy import create_engine
from sqlalchemy import Integer
from sqlalchemy import select
from sqlalchemy.dialects import sqlite as sqlite_dialect_mod
from sqlalchemy.pool import StaticPool
from sqlalchemy.sql import visitors

from ..engines import paramproxy as PP
from ..worlds import stmtfam as F

# the in-repo numeric test dialects are registered by the test plugin only
from sqlalchemy.dialects import registry as _registry  # noqa: E402

_registry.register("sqlite.pysqlite_numeric", "sqlalchemy.dialects.sqlite.pysqlite", "_SQLiteDialect_pysqlite_numeric")
_registry.register("sqlite.pysqlite_dollar", "sqlalchemy.dialects.sqlite.pysqlite", "_SQLiteDialect_pysqlite_dollar")

ID = "C04"
LEVEL = "exploration"
META = dict(
    engine="I",
    technique="exhaustive small-scope enumeration of statement shapes x bind configurations x 6 paramstyles (+3 real drivers); "
    "driver-level trace decoded per paramstyle and compared with the literal_binds rendering; differential execution",
    design_ref="DESIGN.md §5 C04",
    level_text="32 statement shapes x the full product of configurations (bind naming scheme with "
    "names needing escaping, literal_execute position, expanding IN length 0..3, embedded vs execution-time values, "
    "single vs executemany) are executed through a recording proxy DBAPI in each of the six paramstyles and through "
    "three real drivers. For every placeholder occurrence the value received by the driver must be the value of the "
    "bind that the literal_binds rendering of the same statement shows at that place; skeleton and value sequence must "
    "agree between all paramstyles; rows / table contents must equal those of the literal SQL. Complete for the stated family.",
    level_note="Trusted: paramproxy.decode (the driver-side reading of each paramstyle), the literal rendering of int/str/None "
    "sentinels, SQLAlchemy's literal_binds compilation as the per-placeholder reference (it involves no positional "
    "bookkeeping). psycopg2 / asyncpg / pymysql etc. are represented by their paramstyle on the proxy over sqlite3, not by "
    "the real drivers (no servers offline).",
    rule="case = (shape, configuration); evaluated on 9 engines; non-trivial = at least 3 placeholder occurrences reach the driver "
    "(or a name pair whose escaped names coincide); outcomes = distinct (shape, rows) results",
    assumptions=["sentinel values are ints / short strings / NULL (no type-specific bind processors)", "SQLite 3.40 executes all styles via the proxy"],
    bounds=dict(
        quick="32 shapes, full configuration product (naming scheme x literal_execute position x IN length x value mode); all 156 ordered name pairs x 2 modes; 9 engines each",
        thorough="the same with two sentinel value vectors (second: shifted ints, strings containing a quote and %) and reversed executemany sets; name pairs x literal_execute position x modes; 9 engines each",
    ),
)

ROUTES = [("proxy", s) for s in PP.STYLES] + [("real", "qmark"), ("real", "numeric"), ("real", "numeric_dollar")]


def lit(v):
    if v is None:
        return "NULL"
    if isinstance(v, bool):
        return "1" if v else "0"
    if isinstance(v, int):
        return str(v)
    if isinstance(v, str):
        return "'" + v.replace("'", "''") + "'"
    return repr(v)


def norm(s):
    return " ".join(s.split())


def inline(skel, vals):
    parts = skel.split(PP.PH)
    out = [parts[0]]
    for v, p in zip(vals, parts[1:]):
        out.append(lit(v))
        out.append(p)
    return "".join(out)


def where_raised(e):
    """'<ExcType> at <file>:<function>' of the innermost SQLAlchemy frame of the root cause"""
    root = e
    while getattr(root, "__cause__", None) is not None or getattr(root, "orig", None) is not None:
        nxt = root.__cause__ if root.__cause__ is not None else root.orig
        if nxt is None or nxt is root:
            break
        root = nxt
    tb = root.__traceback__
    loc = "?"
    while tb is not None:
        fn = tb.tb_frame.f_code.co_filename
        if "/sqlalchemy/" in fn:
            loc = "%s:%s" % (fn.split("/sqlalchemy/", 1)[1], tb.tb_frame.f_code.co_name)
        tb = tb.tb_next
    return "%s at %s" % (type(root).__name__, loc)


class Engines:
    def __init__(self):
        self.items = []
        for kind, style in ROUTES:
            if kind == "proxy":
                px = PP.ParamProxy(style)
                eng = create_engine("sqlite://", module=px, paramstyle=style, poolclass=StaticPool)
            else:
                px = None
                url = {"qmark": "sqlite://", "numeric": "sqlite+pysqlite_numeric://", "numeric_dollar": "sqlite+pysqlite_dollar://"}[style]
                eng = create_engine(url, poolclass=StaticPool)
            with eng.connect() as c:
                self._raw(c).executescript(F.BIND_RESET)
            self.items.append((kind, style, px, eng))
        self.ref = sqlite3.connect(":memory:")
        self.ref.executescript(F.BIND_RESET)
        # named (non-positional) dialect for the reference rendering: no positiontup machinery involved
        self.refdialect = sqlite_dialect_mod.dialect(paramstyle="named")
        self.md, self.t, self.u = F.bind_meta()

    @staticmethod
    def _raw(conn):
        d = conn.connection.dbapi_connection
        return getattr(d, "_real", d)

    def close(self):
        for _, _, _, e in self.items:
            e.dispose()
        self.ref.close()


def contents(raw):
    return (raw.execute("SELECT id, a, b, s FROM t ORDER BY id").fetchall(), raw.execute("SELECT id, tid, w FROM u ORDER BY id").fetchall())


def reference(E, texts, is_dml):
    """execute the literal statements directly on sqlite3"""
    if is_dml:
        E.ref.executescript(F.BIND_RESET)
    rows = []
    for tx in texts:
        cur = E.ref.execute(tx)
        if cur.description is not None:
            rows.extend(tuple(r) for r in cur.fetchall())
    cont = contents(E.ref) if is_dml else None
    E.ref.rollback()
    return rows, cont


def run_case(E, stmt_builder, ref_texts, is_dml, ordered_rows, label):
    """stmt_builder() -> (stmt, params or list of params).  Returns
    (problems [(kind, detail)], info dict)"""
    probs = []
    try:
        ref_rows, ref_cont = reference(E, ref_texts, is_dml)
    except sqlite3.Error as e:
        return [("reference-sql-failed", "literal_binds SQL rejected by sqlite3: %s: %s" % (e, ref_texts))], dict(nph=0, rows=None)
    traces = {}
    nph = 0
    for kind, style, px, eng in E.items:
        tag = "%s:%s" % (kind, style)
        stmt, params = stmt_builder()
        with eng.connect() as conn:
            raw = E._raw(conn)
            if is_dml:
                raw.executescript(F.BIND_RESET)
            if px is not None:
                del px.log[:]
            try:
                res = conn.execute(stmt, params) if params else conn.execute(stmt)
                rows = [tuple(r) for r in res.all()] if res.returns_rows else []
            except Exception as e:  # noqa: BLE001 - every failure of the implementation is a finding here
                probs.append(("error " + where_raised(e), "%s: %s: %s" % (tag, type(e).__name__, str(e).splitlines()[0][:300] if str(e) else "")))
                conn.rollback()
                continue
            cont = contents(raw) if is_dml else None
            conn.rollback()
        a, b = (rows, ref_rows) if ordered_rows else (sorted(rows, key=repr), sorted(ref_rows, key=repr))
        if a != b:
            probs.append(("rows", "%s: rows %r, literal SQL gives %r" % (tag, rows, ref_rows)))
        if is_dml and cont != ref_cont:
            probs.append(("table-contents", "%s: tables afterwards %r, literal SQL gives %r" % (tag, cont, ref_cont)))
        if px is not None:
            flat = []
            try:
                for call, sql, p in px.log:
                    if call == "execute":
                        flat.append(PP.decode(style, sql, p))
                    else:
                        flat.extend(PP.decode(style, sql, one) for one in p)
            except PP.ProxyProtocolError as e:
                probs.append(("driver-protocol", "%s: %s; handed to the driver: %r" % (tag, e, px.log)))
                continue
            traces[style] = (flat, list(px.log))
            nph = max(nph, sum(len(v) for _, v in flat))
            if len(flat) == len(ref_texts):
                for (skel, vals), rt in zip(flat, ref_texts):
                    got = norm(inline(skel, vals))
                    if got != norm(rt):
                        probs.append(("placeholder-value", "%s: driver received %r; with the received values in place: %s ; literal_binds rendering: %s" % (tag, px.log, got, norm(rt))))
                        break
    if traces:
        base_style = "qmark" if "qmark" in traces else sorted(traces)[0]
        base = [(norm(s), v) for s, v in traces[base_style][0]]
        for style in PP.STYLES:
            if style in traces and style != base_style:
                other = [(norm(s), v) for s, v in traces[style][0]]
                if other != base:
                    probs.append(("style-diff", "%s and %s drivers receive different placeholder values: %r vs %r" % (base_style, style, traces[base_style][1], traces[style][1])))
    return probs, dict(nph=nph, rows=ref_rows)


# ------------------------------------------------------------------ cases


def literal_text(E, stmt):
    """the statement with every value rendered in place.  A clone of the statement gets literal_execute=True on
    every bind (named, anonymous, expanding) and is rendered with render_postcompile: each value is substituted
    by *name* at the spot where the tree has the bind -- no positional bookkeeping takes part.  (literal_binds
    cannot be used: it is not honoured inside RETURNING.)"""

    def visit(bp):
        bp.literal_execute = True

    clone = visitors.cloned_traverse(stmt, {}, {"bindparam": visit})
    text = str(clone.compile(dialect=E.refdialect, compile_kwargs={"render_postcompile": True}))
    if "?" in text or "POSTCOMPILE" in text:
        raise AssertionError("reference rendering left placeholders: %s" % text)
    return text


def shape_case(E, shape, cfg):
    spec = F.BIND_SHAPES[shape]
    emb = dict(cfg, mode="embedded", le=None, ns=0)
    alt = cfg.get("alt")
    if spec["kind"] == "many":
        sets = spec["sets"][::-1] if alt else spec["sets"]
        ref_texts = [literal_text(E, F.build_bind(shape, emb, V=vs)["stmt"]) for vs in sets]

        def builder():
            plist = []
            stmt = None
            for vs in sets:
                b = F.build_bind(shape, cfg, V=vs)
                plist.append(b["params"])
                stmt = b["stmt"]
            return stmt, plist

        ordered = shape == "many_ins_returning_extra"
        return builder, ref_texts, True, ordered
    V = alt_values(spec["V"]) if alt else None
    ref_texts = [literal_text(E, F.build_bind(shape, emb, V=V)["stmt"])]

    def builder():
        b = F.build_bind(shape, cfg, V=V)
        return b["stmt"], b["params"]

    return builder, ref_texts, spec["kind"] == "dml", spec["kind"] == "select"


def alt_values(V):
    """second sentinel vector (thorough tier): every int + 1, every string with a quote and a percent sign appended"""
    out = []
    for v in V:
        if isinstance(v, bool) or v is None or isinstance(v, list):
            out.append(v)
        elif isinstance(v, int):
            out.append(v + 1)
        elif isinstance(v, str):
            out.append(v + "'%")
        else:
            out.append(v)
    return out


def pair_case(E, n1, n2, mode, le):
    def mk(m):
        kw1 = dict(type_=Integer, literal_execute=(le == 0))
        kw2 = dict(type_=Integer, literal_execute=(le == 1))
        if m == "embedded":
            return select(bindparam(n1, 101, **kw1).label("c1"), bindparam(n2, 202, **kw2).label("c2")), {}
        return select(bindparam(n1, **kw1).label("c1"), bindparam(n2, **kw2).label("c2")), {n1: 101, n2: 202}

    # the reference uses plain names: names do not appear in the literal text
    ref_texts = [literal_text(E, select(bindparam("r1", 101, type_=Integer).label("c1"), bindparam("r2", 202, type_=Integer).label("c2")))]
    return (lambda: mk(mode)), ref_texts, False, True


def escaped(name):
    m = {"%": "P", "(": "A", ")": "Z", ":": "C", ".": "_", "[": "_", "]": "_", " ": "_"}
    return "".join(m.get(ch, ch) for ch in name)


def cfg_key(cfg):
    return "ns=%s le=%s inlen=%s mode=%s%s" % (cfg.get("ns"), cfg.get("le"), cfg.get("inlen"), cfg.get("mode"), " values=alt" if cfg.get("alt") else "")


def pair_sig(cls, n1, n2):
    return "C04 %s: bind names %r and %r used in one statement do not both receive their own value" % (cls, n1, n2)


def pair_violation_sig(cls, n1, n2, mode, le, probs):
    """a non-colliding pair that fails only by one and the same exception is the root cause of that exception
    (same signature as in the shape family), not a property of the pair"""
    kinds = {k for k, _ in probs}
    if cls == "name-pair" and len(kinds) == 1 and next(iter(kinds)).startswith("error "):
        need = escaped(n1) != n1 or escaped(n2) != n2
        return shape_sig(next(iter(kinds)), "pair", dict(ns=1 if need else 0, le=le, mode=mode))
    return pair_sig(cls, n1, n2)


def shape_sig(kind, shape, cfg):
    """errors are keyed by where they are raised and by the configuration features that matter (not by shape);
    wrong values by shape + configuration of the first (= simplest) failing case"""
    if kind.startswith("error "):
        return "C04 %s [names_need_escaping=%s literal_execute=%s mode=%s]" % (kind, cfg.get("ns", 0) != 0, cfg.get("le") is not None, cfg.get("mode"))
    return "C04 %s shape=%s %s" % (kind, shape, cfg_key(cfg))


def shards(tier, seed):
    out = [["shape", s] for s in F.BIND_SHAPES]
    out.append(["pairs"])
    return out


def run_shard(shard, tier, rec):
    E = Engines()
    try:
        if shard[0] == "shape":
            shape = shard[1]
            cases = [(cfg, 0) for cfg in F.bind_cfgs(shape, 9)]
            if tier != "quick":
                cases += [(cfg, 1) for cfg in F.bind_cfgs(shape, 9)]
            for cfg, alt in cases:
                cfg = dict(cfg, alt=alt) if alt else cfg
                builder, ref_texts, is_dml, ordered = shape_case(E, shape, cfg)
                probs, info = run_case(E, builder, ref_texts, is_dml, ordered, shape)
                rec.case((shape, cfg_key(cfg)), nontrivial=info["nph"] >= 3)
                rec.outcome((shape, repr(info["rows"])))
                rec.count("driver_calls_checked", len(ROUTES))
                if info["nph"] >= 3 and cfg.get("ns") == 1 and cfg.get("mode") == "params" and cfg.get("le") is None:
                    rec.sample(dict(shape=shape, cfg=cfg_key(cfg), placeholders=info["nph"], literal_sql=norm(ref_texts[0])[:300]))
                for kind, detail in probs:
                    rec.violation(shape_sig(kind, shape, cfg), detail, dict(kind="shape", shape=shape, cfg=cfg), kind=(shape, kind))
        else:
            names = F.NAME_PAIR_ALPHABET
            variants = [("embedded", None), ("params", None)]
            if tier != "quick":
                variants += [("embedded", 0), ("embedded", 1), ("params", 0), ("params", 1)]
            for mode, le in variants:
                for n1 in names:
                    for n2 in names:
                        if n1 == n2:
                            continue
                        builder, ref_texts, is_dml, ordered = pair_case(E, n1, n2, mode, le)
                        probs, info = run_case(E, builder, ref_texts, is_dml, ordered, "pair")
                        collide = escaped(n1) == escaped(n2)
                        rec.case(("pair", n1, n2, mode, le), nontrivial=collide)
                        rec.outcome(("pair", collide, bool(probs)))
                        cls = "escaped-name-collision" if collide else "name-pair"
                        if collide and probs and all(k.startswith("error CompileError") for k, _ in probs):
                            rec.count("colliding_pair_refused_by_CompileError")
                            probs = []
                        if probs:
                            rec.violation(pair_violation_sig(cls, n1, n2, mode, le, probs), "; ".join("%s: %s" % p for p in probs), dict(kind="pair", n1=n1, n2=n2, mode=mode, le=le), kind=(cls, le is not None))
    finally:
        E.close()


def replay(case):
    E = Engines()
    out = []
    try:
        if case["kind"] == "shape":
            shape, cfg = case["shape"], case["cfg"]
            builder, ref_texts, is_dml, ordered = shape_case(E, shape, cfg)
            probs, _ = run_case(E, builder, ref_texts, is_dml, ordered, shape)
            for kind, detail in probs:
                out.append((shape_sig(kind, shape, cfg), detail))
        else:
            n1, n2, mode, le = case["n1"], case["n2"], case["mode"], case["le"]
            builder, ref_texts, is_dml, ordered = pair_case(E, n1, n2, mode, le)
            probs, _ = run_case(E, builder, ref_texts, is_dml, ordered, "pair")
            cls = "escaped-name-collision" if escaped(n1) == escaped(n2) else "name-pair"
            if probs:
                out.append((pair_violation_sig(cls, n1, n2, mode, le, probs), "; ".join("%s: %s" % p for p in probs)))
    finally:
        E.close()
    return out
