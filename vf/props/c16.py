"""C16 schema_translate_map renders the mapped schemas regardless of cache state.

Engine H.  World: one SQLite connection with the databases main / s1 / s2
(attached in-memory databases), each holding tables a, b, d with rows that
identify the database.  Statements (vf.worlds.stmtfam.SCHEMA_SHAPES: select,
join, EXISTS + CTE + IN-subquery, alias + FROM-subquery, INSERT .. RETURNING,
insertmanyvalues, INSERT from SELECT, UPDATE with correlated EXISTS, DELETE ..
RETURNING, CREATE TABLE (with an indexed column), CREATE INDEX, DROP TABLE,
MetaData.create_all(checkfirst)) are built over tables a@sx, b@sy for every
(sx, sy) in {None, s1, s2}^2.

History = sequence of executions of one statement (rebuilt freshly each time)
under a sequence of maps, on one engine whose compiled cache is cleared at the
start of the history: all map sequences of length <= 2 over the 16 "quick"
maps (quick) / all 64 functions {None,s1,s2} -> {None,s1,s2,absent} singly and
paired (either order) with each of the first 7 maps with <= 1 key, all pairs of
the 16, plus length 3 over 5 maps (thorough).  A second family interleaves two
different statements sharing the same Table objects.

Where the map is supplied is a further dimension ("level" shards): engine
level (``engine.execution_options``), connection level, per-execute
(``conn.execute(stmt, execution_options=...)``), statement / DDL-element level
(``stmt.execution_options``), and two levels that disagree (per-execute over
connection / statement / engine, connection over engine - the order
engine/base.py merges them in; statement versus connection or engine is
documented nowhere, either winner is accepted), plus a mode that changes the
level at every step; Table.create / Table.drop / create_all take engine or
connection level.  Same histories, same oracle.

Oracle (the property, literally): the SQL handed to the cursor equals the SQL
of the same construct built over tables that *carry* the translated schema
names, compiled without a map on an engine without cache; rows returned and
the complete contents / catalog of main, s1, s2 afterwards are equal to
those of that reference run on a twin database.  Equivalences used: a target of
None renders as the dialect's default schema name (``main``), as
IdentifierPreparer._render_schema_translates documents.  Documented refusal
accepted: InvalidRequestError "use consistent keys" when a map's None-key
presence differs from the map the cached form was compiled with (the model
tracks exactly when that may happen); it is counted, never silently ignored,
and the database must be unchanged by it.

Mutations caught (each seeded alone in a scratch copy, VIOLATION obtained):
  M1 sql/compiler.py _with_schema_translate.symbol_getter returns the mapped name at compile time (map frozen into the cache)
  M2 sql/compiler.py _with_schema_translate: includes_none forced to False (None key)
  M3 engine/base.py _execute_ddl ignores the schema_translate_map execution option
  M6 sql/elements.py _compile_w_cache key without bool(schema_translate_map)
  M7 engine/base.py Connection.schema_for_object returns the untranslated name (create_all checkfirst looks at the wrong schema)
  M8 sql/compiler.py _render_schema_translates: "_none" entry taken from another key
  M9 engine/default.py _init_compiled renders with the map the cached form was compiled with instead of the current one
  supply level (map given per execute / on the statement / on the engine):
  V1 engine/base.py _execute_ddl merges only the connection's options (ignores DDL-element and per-execute options)
  V2 engine/base.py _execute_clauseelement reads schema_translate_map from the connection's options only
  V3 engine/base.py _execute_ddl: per-execute options merged *before* the connection's (wrong precedence)
  V4 engine/base.py _execute_clauseelement: statement-level options dropped from the merge
  V5 engine/base.py _execute_ddl reads the map from the DDL element's own options only
  V6 engine/base.py Connection.__init__ does not inherit the engine's execution options (Table.create / create_all on an option engine)
  (not caught, equivalent for tables without schema-qualified defaults: insertmanyvalues batches not re-translated)
"""
from __future__ import annotations

import itertools

from sqlalchemy import create_engine
from sqlalchemy import event
from sqlalchemy import exc as sa_exc
from sqlalchemy.pool import StaticPool

from ..worlds import stmtfam as F

ID = "C16"
LEVEL = "model_checking"
META = dict(
    engine="H",
    technique="explicit enumeration of (statement, schema placement) x all sequences of schema_translate_maps on one compiled "
    "cache; differential against the same construct over tables carrying the translated schemas, uncached (cursor SQL, rows, "
    "contents and catalog of every attached schema)",
    design_ref="DESIGN.md §5 C16",
    level_text="15 statement / DDL shapes x 9 schema placements x every sequence of <=2 maps (16 maps quick; thorough: all 64 functions "
    "singly and paired in either order with each of 7 maps with <= 1 key, all pairs of the 16, length 3 over 5 maps) share one compiled cache per history; each execution is compared with the reference "
    "construct whose tables carry the translated names, executed uncached on a twin database with three schemas. "
    "Exhaustive for the bound: a map frozen into the cache, a None-key slip or DDL ignoring the map within these shapes is found.",
    level_note="Trusted: the reference route (tables built with the translated schema, no map, no cache). Only SQLite executes; "
    "schemas are attached in-memory databases. Sequence objects are not available on SQLite. The InvalidRequestError "
    "'use consistent keys' is an accepted, documented refusal and is predicted by a two-line cache model.",
    rule="state = (shape, placement, None-key flag of the cached compilation, last map); transition = one execution under a map; "
    "every transition compared with the reference route; non-trivial = the map changes at least one schema of the statement's "
    "tables and the compiled form came from the cache (history position >= 2)",
    assumptions=["single connection", "maps are fresh dict objects per execution", "SQLite 3.40"],
    bounds=dict(
        quick="15 shapes x 9 placements x all sequences of <=2 maps out of 16 (map at connection level); 2-statement interleavings over 6 maps; "
        "supply level: 8 shapes x 3 placements x 8-9 level modes x all sequences of <=2 maps out of 12",
        thorough="13 shapes x 9 placements x each of the 64 maps singly and paired (either order) with each of 7 maps with <=1 key; all pairs of the 16; all sequences of 3 maps out of 5; interleavings over 8 maps; "
        "supply level: all 15 shapes x 9 placements x all level modes x all sequences of <=2 maps out of 12",
    ),
)

DEFAULT = "main"


def ref_schema(orig, m):
    """schema the table has to *carry* to mean what the map says"""
    if m and orig in m:
        return m[orig] if m[orig] is not None else DEFAULT
    return orig


_TABS = {}


def _tables(sa, sb):
    """Table objects are pure structure: built once per schema pair (statements over them are built fresh every time)"""
    k = (sa, sb)
    if k not in _TABS:
        _TABS[k] = F.schema_tables(sa, sb)
    return _TABS[k]


class Db:
    def __init__(self, cached):
        kw = {} if cached else dict(query_cache_size=0)
        self.engine = create_engine("sqlite://", poolclass=StaticPool, **kw)

        @event.listens_for(self.engine, "connect")
        def _attach(dbapi_conn, rec):
            dbapi_conn.execute("ATTACH DATABASE ':memory:' AS s1")
            dbapi_conn.execute("ATTACH DATABASE ':memory:' AS s2")

        self.log = []
        event.listen(self.engine, "before_cursor_execute", self._on)
        self.script = F.schema_reset_script()
        self._clean = None
        self.reset()

    def _on(self, conn, cursor, statement, parameters, context, executemany):
        s = " ".join(statement.split())
        if not s.startswith("PRAGMA"):
            self.log.append((s, repr(parameters)))

    def raw(self, conn):
        return conn.connection.dbapi_connection

    def reset(self):
        with self.engine.connect() as c:
            self.raw(c).executescript(self.script)
        self.engine.clear_compiled_cache()

    def clean_snapshot(self):
        """snapshot right after reset() (computed once: the reset script is deterministic)"""
        if self._clean is None:
            self._clean = self.snapshot()
        return self._clean

    def snapshot(self):
        out = []
        with self.engine.connect() as c:
            raw = self.raw(c)
            for db in F.DB_NAMES:
                cat = raw.execute("SELECT type, name, tbl_name, sql FROM %s.sqlite_master ORDER BY name" % db).fetchall()
                out.append((db, "catalog", [tuple(" ".join(str(x).split()) for x in r) for r in cat]))
                for tname in ("a", "b", "c", "d", "e"):
                    if any(r[1] == tname and r[0] == "table" for r in cat):
                        out.append((db, tname, raw.execute("SELECT * FROM %s.%s ORDER BY 1" % (db, tname)).fetchall()))
        return out

    def run(self, shape, tabs, m, mode="conn", decoy=None):
        """execute one statement with the map supplied at the level(s) ``mode`` names; -> (outcome, log)"""
        md, a, b, c, d = tabs
        del self.log[:]
        M = None if m is None else dict(schema_translate_map=dict(m))
        D = None if decoy is None else dict(schema_translate_map=dict(decoy))
        eng_opts = conn_opts = stmt_opts = exec_opts = None
        if mode == "conn":
            conn_opts = M
        elif mode == "engine":
            eng_opts = M
        elif mode == "execute":
            exec_opts = M
        elif mode == "stmt":
            stmt_opts = M
        elif mode == "execute_over_conn":
            conn_opts, exec_opts = D, M
        elif mode == "execute_over_stmt":
            stmt_opts, exec_opts = D, M
        elif mode == "execute_over_engine":
            eng_opts, exec_opts = D, M
        elif mode == "conn_over_engine":
            eng_opts, conn_opts = D, M
        elif mode == "stmt_vs_conn":
            stmt_opts, conn_opts = M, D
        else:
            raise AssertionError(mode)
        try:
            eng = self.engine.execution_options(**eng_opts) if eng_opts else self.engine
            with eng.connect() as conn:
                if conn_opts:
                    conn = conn.execution_options(**conn_opts)
                if F.SCHEMA_SHAPES[shape]["kind"] == "meta":
                    assert stmt_opts is None and exec_opts is None
                    if shape == "create_all":
                        md.create_all(conn, tables=[c, md.tables[(c.schema + ".e") if c.schema else "e"]], checkfirst=True)
                    elif shape == "table_create":
                        md.tables[(c.schema + ".e") if c.schema else "e"].create(conn, checkfirst=True)
                        c.create(conn, checkfirst=False)
                    else:
                        d.drop(conn, checkfirst=True)
                    rows = None
                else:
                    stmt, params = F.SCHEMA_SHAPES[shape]["fn"](a, b, c, d)
                    if stmt_opts:
                        stmt = stmt.execution_options(**stmt_opts)
                    kw = dict(execution_options=exec_opts) if exec_opts else {}
                    res = conn.execute(stmt, params, **kw) if params else conn.execute(stmt, **kw)
                    rows = sorted(tuple(r) for r in res) if res.returns_rows else None
                conn.commit()
            return ("ok", rows), list(self.log)
        except sa_exc.InvalidRequestError as e:
            return ("InvalidRequestError", str(e).splitlines()[0][:300]), list(self.log)
        except sa_exc.DBAPIError as e:
            return ("dbapi-error", type(e.orig).__name__, str(e.orig)), list(self.log)
        except sa_exc.StatementError as e:
            if isinstance(e.orig, sa_exc.InvalidRequestError):
                return ("InvalidRequestError", str(e.orig).splitlines()[0][:300]), list(self.log)
            raise


# where the map is supplied.  Precedence encoded (engine/base.py: statement options .merge_with(connection options,
# per-execute options); Engine.execution_options -> Connection inherits, Connection.execution_options updates):
# per-execute wins over everything, connection over engine.  Statement versus connection (an engine-level map is
# inherited by the connection, so this includes statement versus engine) is not documented anywhere: either winner is
# accepted there (mode stmt_vs_conn, SELECT only).
MODES_STMT = ("engine", "execute", "stmt", "execute_over_conn", "execute_over_stmt", "execute_over_engine", "conn_over_engine")
MODES_META = ("engine", "conn_over_engine")
DECOYS = ({None: "s2", "s1": "s2", "s2": "s1"}, {None: "s1", "s1": None, "s2": None})


def decoy_for(m, schemas):
    """a map for the losing level that would send at least one of the statement's schemas elsewhere"""
    for d in DECOYS:
        if any(ref_schema(s, d) != ref_schema(s, m) for s in schemas):
            return d
    return None


def modes_for(shape):
    kind = F.SCHEMA_SHAPES[shape]["kind"]
    if kind == "meta":
        return MODES_META
    return MODES_STMT + (("stmt_vs_conn",) if kind == "select" else ())


def touched(shape, sx, sy):
    """schemas of the tables the shape mentions"""
    if shape in ("select", "insert", "insert_many", "create_table", "create_index", "create_all", "table_create"):
        return (sx,)
    if shape in ("drop_table", "table_drop"):
        return (sy,)
    return (sx, sy)


def run_history(shape, sx, sy, maps, dbs, rec=None, second=None, mode="conn"):
    """maps: sequence of dicts.  second: optional (shape2) executed alternately
    (odd positions) to interleave two statements over the same tables.
    mode: where the map is supplied (see MODES_*); "rotate" uses a different level at every step.
    -> list of (kind, detail, step)"""
    impl, ref = dbs
    impl.reset()
    ref.reset()
    cur = impl.clean_snapshot()  # contents of the implementation's databases after the last completed step
    probs = []
    flag = {}  # shape -> None-key flag of the cached compilation made with a truthy map
    itabs = _tables(sx, sy)  # the application's tables are built once and reused
    for i, m in enumerate(maps):
        sh = shape if (second is None or i % 2 == 0) else second
        kind = F.SCHEMA_SHAPES[sh]["kind"]
        rtabs = _tables(ref_schema(sx, m), ref_schema(sy, m))
        md_ = mode
        if mode == "rotate":
            ms = ("conn",) + modes_for(sh)[:3] if kind != "meta" else ("conn", "engine")
            md_ = ms[i % len(ms)]
        decoy = None
        if "_over_" in md_ or "_vs_" in md_:
            decoy = decoy_for(m, touched(sh, sx, sy))
            if decoy is None:
                md_ = md_.split("_")[0]  # no map can disagree here: supply at the winning level only
        iout, ilog = impl.run(sh, itabs, m, md_, decoy)
        may_refuse = False
        if m and kind in ("select", "dml"):
            if sh in flag:
                may_refuse = flag[sh] != (None in m)
            else:
                flag[sh] = None in m
        if iout[0] == "InvalidRequestError":
            if may_refuse and "consistent keys" in iout[1]:
                if kind != "select" and impl.snapshot() != cur:
                    probs.append(("refusal-changed-database", "step %d map %s: InvalidRequestError but the database changed" % (i, F.map_key(m)), i))
                    break
                if rec is not None:
                    rec.count("documented_refusal_inconsistent_None_key")
                    rec.transition()
                    rec.trace()
                    rec.outcome((sh, "refused"))
                # the twin database does not run this step either
                continue
            probs.append(("unexpected-refusal", "step %d map %s: %s" % (i, F.map_key(m), iout[1]), i))
            break
        rout, rlog = ref.run(sh, rtabs, None)
        if rec is not None:
            rec.transition()
            rec.trace()
            rec.state((sh, sx, sy, flag.get(sh), md_, F.map_key(m) if m is not None else "nomap"))
            rec.outcome((sh, repr(rout)[:200]))
        if md_ == "stmt_vs_conn" and (ilog != rlog or iout != rout):
            # undocumented precedence: the connection's map may win instead
            r2out, r2log = ref.run(sh, _tables(ref_schema(sx, decoy), ref_schema(sy, decoy)), None)
            if rec is not None:
                rec.count("statement_vs_connection_level_undocumented")
            if (ilog, iout) == (r2log, r2out):
                continue
        if ilog != rlog:
            probs.append(("sql", "step %d map %s supplied at %s%s: cursor received %r; the construct over tables carrying the translated schemas sends %r" % (
                i, F.map_key(m), md_, (" (other level: %s)" % F.map_key(decoy)) if decoy else "", ilog, rlog), i))
            break
        if iout != rout:
            probs.append(("rows", "step %d map %s: %r vs reference %r" % (i, F.map_key(m), iout, rout), i))
            break
        if kind != "select":
            si, sr = impl.snapshot(), ref.snapshot()
            if si != sr:
                probs.append(("schemas-affected", "step %d map %s: databases afterwards %r vs reference %r" % (i, F.map_key(m), si, sr), i))
                break
            cur = si
    return probs


def placements(tier):
    return [(sx, sy) for sx in F.SCHEMAS for sy in F.SCHEMAS]


def histories(tier):
    q = F.quick_maps()
    if tier == "quick":
        for n in (1, 2):
            yield from itertools.product(q, repeat=n)
    else:
        allm = F.all_maps()
        for m in allm:
            yield (m,)
        seen = set()
        q10 = q[:7]  # {} and the six one-key maps onto a different schema / None
        for a, b in itertools.chain(itertools.product(q, q), itertools.product(allm, q10), itertools.product(q10, allm)):
            k = (F.map_key(a), F.map_key(b))
            if k not in seen:
                seen.add(k)
                yield (a, b)
        yield from itertools.product(q[:5], repeat=3)


def changes(m, schemas):
    return any(ref_schema(s, m) != s for s in schemas)


def signature(kind, shape, sx, sy, maps, step, mode="conn"):
    prev = "first execution" if step == 0 else "after %s" % ", ".join(F.map_key(m) for m in maps[:step])
    lvl = "" if mode == "conn" else " [map supplied at: %s]" % mode
    return "C16 %s shape=%s a@%s b@%s map=%s %s%s" % (kind, shape, sx, sy, F.map_key(maps[step]), prev, lvl)


def shards(tier, seed):
    out = []
    for shape in F.SCHEMA_SHAPES:
        for sx, sy in placements(tier):
            out.append(["single", shape, sx, sy])
    for sx, sy in ((None, "s1"), ("s1", "s2"), ("s2", None)):
        out.append(["inter", sx, sy])
    # where the map is supplied (engine / per-execute / statement level and disagreeing levels)
    lv_shapes = LEVEL_QUICK_SHAPES if tier == "quick" else tuple(F.SCHEMA_SHAPES)
    lv_places = ((None, "s1"), ("s1", "s2"), ("s2", None)) if tier == "quick" else placements(tier)
    for shape in lv_shapes:
        for sx, sy in lv_places:
            out.append(["level", shape, sx, sy])
    return out


LEVEL_QUICK_SHAPES = ("select", "update", "insert_many", "create_table", "create_index", "drop_table", "create_all", "table_create")


def level_histories(tier):
    q = F.quick_maps()
    ms = q[:12]  # the 10 maps with <= 1 key, the swap and {None: s1, s1: None}
    for n in (1, 2):
        yield from itertools.product(ms, repeat=n)


INTER_SHAPES = ("select", "join", "exists_cte", "insert", "update", "delete", "create_index")


def run_shard(shard, tier, rec):
    dbs = (Db(True), Db(False))
    try:
        if shard[0] == "single":
            _, shape, sx, sy = shard
            tsch = touched(shape, sx, sy)
            for maps in histories(tier):
                probs = run_history(shape, sx, sy, maps, dbs, rec)
                nt = len(maps) >= 2 and changes(maps[-1], tsch) and maps[-1] != maps[-2]
                rec.case((shape, sx, sy, tuple(F.map_key(m) for m in maps)), nontrivial=nt)
                if nt and len(maps) == 2 and len(maps[1]) == 2 and len(maps[0]) == 1 and not probs:
                    rec.sample(dict(shape=shape, a_schema=sx, b_schema=sy, maps=[F.map_key(m) for m in maps]))
                for kind, detail, step in probs:
                    rec.violation(signature(kind, shape, sx, sy, maps, step), detail, dict(kind="single", shape=shape, sx=sx, sy=sy, maps=[list(map(list, m.items())) for m in maps[: step + 1]]), kind=(kind, shape))
        elif shard[0] == "level":
            _, shape, sx, sy = shard
            tsch = touched(shape, sx, sy)
            for mode in modes_for(shape) + ("rotate",):
                for maps in level_histories(tier):
                    probs = run_history(shape, sx, sy, maps, dbs, rec, mode=mode)
                    nt = changes(maps[-1], tsch) and (len(maps) == 1 or maps[-1] != maps[-2])
                    rec.case(("level", mode, shape, sx, sy, tuple(F.map_key(m) for m in maps)), nontrivial=nt)
                    if nt and len(maps) == 2 and mode in ("execute_over_conn", "stmt") and len(maps[1]) == 2 and not probs:
                        rec.sample(dict(shape=shape, a_schema=sx, b_schema=sy, map_supplied_at=mode, maps=[F.map_key(m) for m in maps]))
                    for kind, detail, step in probs:
                        rec.violation(
                            signature(kind, shape, sx, sy, maps, step, mode), detail,
                            dict(kind="single", shape=shape, sx=sx, sy=sy, mode=mode, maps=[list(map(list, m.items())) for m in maps[: step + 1]]),
                            kind=(kind, shape, mode),
                        )
        else:
            _, sx, sy = shard
            ms = F.quick_maps()[:6] if tier == "quick" else F.quick_maps()[:8]
            for s1, s2 in itertools.permutations(INTER_SHAPES, 2):
                for m1, m2 in itertools.product(ms, repeat=2):
                    maps = (m1, m2, m2, m1)
                    probs = run_history(s1, sx, sy, maps, dbs, rec, second=s2)
                    rec.case(("inter", s1, s2, sx, sy, F.map_key(m1), F.map_key(m2)), nontrivial=m1 != m2)
                    for kind, detail, step in probs:
                        rec.violation(
                            "C16 %s interleaved %s/%s a@%s b@%s maps=%s step %d" % (kind, s1, s2, sx, sy, [F.map_key(m) for m in maps[: step + 1]], step),
                            detail,
                            dict(kind="inter", s1=s1, s2=s2, sx=sx, sy=sy, maps=[list(map(list, m.items())) for m in maps[: step + 1]]),
                            kind=(kind, s1, s2),
                        )
    finally:
        for d in dbs:
            d.engine.dispose()


def replay(case):
    dbs = (Db(True), Db(False))
    maps = tuple({(k if k is not None else None): v for k, v in m} for m in case["maps"])
    out = []
    try:
        if case["kind"] == "single":
            mode = case.get("mode", "conn")
            for kind, detail, step in run_history(case["shape"], case["sx"], case["sy"], maps, dbs, mode=mode):
                out.append((signature(kind, case["shape"], case["sx"], case["sy"], maps, step, mode), detail))
        else:
            for kind, detail, step in run_history(case["s1"], case["sx"], case["sy"], maps, dbs, second=case["s2"]):
                out.append(("C16 %s interleaved %s/%s a@%s b@%s maps=%s step %d" % (kind, case["s1"], case["s2"], case["sx"], case["sy"], [F.map_key(m) for m in maps[: step + 1]], step), detail))
    finally:
        for d in dbs:
            d.engine.dispose()
    return out
