"""C44 version counters prevent lost updates: all interleavings of 2-3 sessions'
programs on one WAL-mode SQLite file database, serial-history oracle.

Engine H (multi-actor): a *state* is a schedule prefix; every maximal
interleaving of the sessions' database-touching steps is executed once on real
Sessions (stateless DFS over the scheduler's choices, replay from a freshly
reset database), and after every step the committed rows (read by an
independent observer connection) and the stepping session's in-memory version
are checked against a serial model:

  * a flush (UPDATE or DELETE) may succeed only if the version the session
    holds in memory is the row's current committed version at that moment;
    otherwise it must raise StaleDataError -- or SQLite's own "database is
    locked"/busy-snapshot OperationalError, an environment answer -- and change
    nothing;
  * StaleDataError is never raised when the held version *is* current;
  * a successful UPDATE gives the object a version that differs from the held
    one and from every version the row ever had (counter: strictly larger);
  * the committed row changes only at the commit of a session with a successful
    pending write and then equals exactly that write; number of committed
    version changes == number of successfully committed updates;
  * at the end the row equals the write of the last successful committer.

Partial-order reduction (exact): purely in-memory steps (attribute set,
session.delete() marking) are glued to the following database step of the same
session; they are invisible to every other session.

Mutations caught (private copy, `VF_REPO=/tmp/wt-bulk/c44 ./check C44`), all in orm/persistence.py:
  v1 _emit_update_statements.update_stmt: version criterion dropped from the UPDATE WHERE clause
     -> lost-update / version-not-new / version-change-count (P1+P1: s1.L s0.L s0.W s0.C s1.W s1.C)
  v2 _emit_update_statements: `rows != len(records)` weakened to `rows > len(records)`
     -> lost-update, commit-result, version-change-count
  v3 _collect_update_commands: `val = mapper.version_id_generator(update_version_id)` -> `val = update_version_id`
     -> version-not-new, version-change-count
  v4 _emit_delete_statements.delete_stmt: version criterion dropped from the DELETE
     -> lost-update (P1+P2: s1.L s0.L s0.W s0.C s1.D s1.C)
  v5 _emit_delete_statements: rowcount mismatch only warns even with versioning (`only_warn = True`)
     -> lost-update, commit-result, final-row
  Joined-table inheritance worlds (version counter on the base table), _collect_update_commands' scan for
  "history only in another table":
  i1 scan narrowed from all mapped columns to the columns of mapper.local_table
     -> version-not-new / lost-update / commit-result, gen=inh3 programs=P1:b+P1:i (change only in the intermediate table)
  i2 scan restricted to the columns of the table that carries the version column
     -> same failures already for gen=inh2 programs=P1:b+P1:l
  i3 `if history.added or history.deleted` -> `if history.added` (del obj.attr no longer counts)
     -> version-not-new / lost-update, programs=P1:b+P1:d
"""
from __future__ import annotations

import itertools
import os
import shutil
import sqlite3
import warnings

from sqlalchemy import FetchedValue
from sqlalchemy import ForeignKey
from sqlalchemy import Integer
from sqlalchemy import String
from sqlalchemy import create_engine
from sqlalchemy import exc as sa_exc
from sqlalchemy.orm import DeclarativeBase
from sqlalchemy.orm import Session
from sqlalchemy.orm import attributes
from sqlalchemy.orm import exc as orm_exc
from sqlalchemy.orm import mapped_column
from sqlalchemy.orm import relationship
from sqlalchemy.pool import NullPool

ID = "C44"
LEVEL = "model_checking"
META = dict(
    engine="H",
    technique="stateless model checking of session interleavings (all schedules of the sessions' database steps, exact "
    "partial-order reduction of in-memory steps), serial-history reference model checked after every step",
    design_ref="DESIGN.md §5 C44",
    level_text="[Inheritance worlds: two- and three-level joined-table inheritance (person -> employee -> manager) with the "
    "version counter on the base table; the four basic programs with a write that touches only the base table / only the "
    "intermediate table / only the leaf table / `del obj.attr` on a sub-table attribute / only a relationship (child row "
    "added, versioned row not written: version may stay, nothing may be overwritten), each against four opponent programs "
    "(quick) or all pairs and triples (thorough).] Two (quick) / three (thorough) real Sessions with separate connections to one WAL-mode SQLite file database "
    "(timeout 0) run programs from a 9-program family (load/set/flush/commit, delete, commit-then-modify with and without "
    "expire_on_commit, rollback, two rounds, two rows in one flush, disjoint row); every interleaving of their database "
    "steps is executed, for client integer counters, a custom version_id_generator (UUID-like tokens) and server-side "
    "(trigger) generation, under both pysqlite transaction modes (legacy: SELECT outside a transaction, so the version "
    "check is what stops lost updates; autocommit=False: snapshot transactions, SQLite's own busy errors interleave with "
    "it). After every step an observer connection's view of the committed rows and the session's in-memory version are "
    "checked against the serial model.",
    level_note="Trusted: the serial model in this file, SQLite's WAL isolation as the ground truth for 'committed'. "
    "Server-side generation is emulated with an AFTER UPDATE trigger (table implicit_returning=False so the ORM re-selects "
    "the version). Statement-level interleaving only: a flush is atomic w.r.t. the scheduler (it is a single SQLite write "
    "transaction step anyway). PostgreSQL/MySQL isolation levels are out of reach.",
    rule="state = (committed rows, per session: program counter, status, held version); transition = one database step of "
    "one session; trace = one maximal interleaving executed on real sessions; non-trivial case = an interleaving in which at "
    "least one flush met a version that was no longer current (StaleDataError path exercised) or two sessions both committed "
    "writes to the same row",
    assumptions=["one process, sessions driven step by step by the harness (no OS threads)", "SQLite 3.40 WAL, busy timeout 0"],
    bounds=dict(
        quick="all unordered pairs of 9 programs x all interleavings x 3 version generators x 2 transaction modes; inheritance "
        "(2 and 3 levels): {P1,P4,P5} x 4-5 write kinds + P2, each against 4 opponent programs, 2 transaction modes",
        thorough="quick + three sessions: all unordered triples of programs {P1,P2,P4,P5} (counter generator) / {P1,P2,P5} (uuid, "
        "server) x all interleavings (up to 34650 per triple) x 2 transaction modes; inheritance: all pairs of the 13/16 programs + triples of 4",
    ),
)

SHARD_TIMEOUT = dict(quick=300, thorough=1700)


class Base(DeclarativeBase):
    pass


_TOK = [0]


def _next_token(version):
    _TOK[0] += 1
    return "u%03d" % _TOK[0]


class VC(Base):  # client-side integer counter
    __tablename__ = "vc"
    id = mapped_column(Integer, primary_key=True, autoincrement=False)
    version_id = mapped_column(Integer, nullable=False)
    data = mapped_column(String)
    __mapper_args__ = {"version_id_col": version_id}


class VU(Base):  # custom generator (UUID-like)
    __tablename__ = "vu"
    id = mapped_column(Integer, primary_key=True, autoincrement=False)
    version_id = mapped_column(String, nullable=False)
    data = mapped_column(String)
    __mapper_args__ = {"version_id_col": version_id, "version_id_generator": _next_token}


class VS(Base):  # server-side (trigger) generation
    __tablename__ = "vs"
    __table_args__ = {"implicit_returning": False}
    id = mapped_column(Integer, primary_key=True, autoincrement=False)
    version_id = mapped_column(Integer, nullable=False, server_default=FetchedValue(), server_onupdate=FetchedValue())
    data = mapped_column(String)
    __mapper_args__ = {"version_id_col": version_id, "version_id_generator": False, "eager_defaults": False}


# joined-table inheritance, version counter on the base table: two and three levels
class Person2(Base):
    __tablename__ = "person2"
    id = mapped_column(Integer, primary_key=True, autoincrement=False)
    version_id = mapped_column(Integer, nullable=False)
    name = mapped_column(String)
    type = mapped_column(String)
    notes = relationship("Note2")
    __mapper_args__ = {"version_id_col": version_id, "polymorphic_on": type, "polymorphic_identity": "person"}


class Employee2(Person2):
    __tablename__ = "employee2"
    id = mapped_column(ForeignKey("person2.id"), primary_key=True)
    salary = mapped_column(Integer)
    __mapper_args__ = {"polymorphic_identity": "employee"}


class Note2(Base):
    __tablename__ = "note2"
    id = mapped_column(Integer, primary_key=True, autoincrement=False)
    person_id = mapped_column(ForeignKey("person2.id"))
    text = mapped_column(String)


class Person3(Base):
    __tablename__ = "person3"
    id = mapped_column(Integer, primary_key=True, autoincrement=False)
    version_id = mapped_column(Integer, nullable=False)
    name = mapped_column(String)
    type = mapped_column(String)
    notes = relationship("Note3")
    __mapper_args__ = {"version_id_col": version_id, "polymorphic_on": type, "polymorphic_identity": "person"}


class Employee3(Person3):
    __tablename__ = "employee3"
    id = mapped_column(ForeignKey("person3.id"), primary_key=True)
    salary = mapped_column(Integer)
    __mapper_args__ = {"polymorphic_identity": "employee"}


class Manager3(Employee3):
    __tablename__ = "manager3"
    id = mapped_column(ForeignKey("employee3.id"), primary_key=True)
    dept = mapped_column(String)
    __mapper_args__ = {"polymorphic_identity": "manager"}


class Note3(Base):
    __tablename__ = "note3"
    id = mapped_column(Integer, primary_key=True, autoincrement=False)
    person_id = mapped_column(ForeignKey("person3.id"))
    text = mapped_column(String)


GEN = {"counter": (VC, 1), "uuid": (VU, "u000"), "server": (VS, 1), "inh2": (Employee2, 1), "inh3": (Manager3, 1)}

# inheritance worlds: data columns of the joined row, the attribute each write kind touches
# (b base table, i intermediate table, l leaf table, d `del obj.attr` on a sub-table attribute,
# r relationship-only change: a child row is added, the versioned row itself is not written)
INH = {
    "inh2": dict(
        cols=("name", "salary"), tables=("note2", "employee2", "person2"), note=Note2,
        kinds={"b": "name", "l": "salary", "d": "salary", "r": None},
        select="SELECT p.id, p.version_id, p.name, e.salary FROM person2 p JOIN employee2 e ON e.id = p.id",
        inserts=("INSERT INTO person2 (id, version_id, name, type) VALUES (?, 1, ?, 'employee')", "INSERT INTO employee2 (id, salary) VALUES (?, ?)"),
    ),
    "inh3": dict(
        cols=("name", "salary", "dept"), tables=("note3", "manager3", "employee3", "person3"), note=Note3,
        kinds={"b": "name", "i": "salary", "l": "dept", "d": "salary", "r": None},
        select="SELECT p.id, p.version_id, p.name, e.salary, m.dept FROM person3 p JOIN employee3 e ON e.id = p.id JOIN manager3 m ON m.id = p.id",
        inserts=("INSERT INTO person3 (id, version_id, name, type) VALUES (?, 1, ?, 'manager')", "INSERT INTO employee3 (id, salary) VALUES (?, ?)",
                 "INSERT INTO manager3 (id, dept) VALUES (?, ?)"),
    ),
}
INH_INIT = {1: ("n1", 10, "d1"), 2: ("n2", 20, "d2")}

# programs: (expire_on_commit, rows, steps).  steps are *database* steps; in-memory work is glued in:
#   L load the rows; W set data + flush; C commit; R rollback; D mark deleted + flush
PROGRAMS = {
    "P1": (True, (1,), "LWC"),
    "P2": (True, (1,), "LDC"),
    "P3": (True, (1,), "LCWC"),
    "P4": (False, (1,), "LCWC"),  # keeps the loaded version across the transaction end
    "P5": (True, (1,), "LWR"),
    "P6": (False, (1,), "LWCWC"),  # two rounds on the version it wrote itself
    "P7": (True, (1, 2), "LWC"),  # two rows in one flush
    "P8": (False, (1,), "LCDC"),  # delete on a version kept across the transaction end
    "P9": (True, (2,), "LWC"),  # disjoint row: must never conflict on versions
}
TRIPLE_PROGS = ("P1", "P2", "P4", "P5")  # counter generator, both transaction modes
TRIPLE_PROGS_SMALL = ("P1", "P2", "P5")  # the other generators


def shards(tier, seed):
    out = []
    names = sorted(PROGRAMS)
    for gen in ("counter", "uuid", "server"):
        for mode in ("legacy", "strict"):
            for combo in itertools.combinations_with_replacement(names, 2):
                out.append((gen, mode, list(combo)))
    for gen in ("inh2", "inh3"):
        kinds = sorted(INH[gen]["kinds"])
        mid = "i" if gen == "inh3" else "l"
        allp = ["%s:%s" % (p_, k) for p_ in ("P1", "P4", "P5") for k in kinds] + ["P2"]
        opponents = ["P1:b", "P1:" + mid, "P2", "P4:b"]
        for mode in ("legacy", "strict"):
            seen_pairs = set()
            for x in allp:
                for y in (opponents if tier == "quick" else allp):
                    pair = tuple(sorted((x, y)))
                    if pair not in seen_pairs:
                        seen_pairs.add(pair)
                        out.append((gen, mode, list(pair)))
            if tier == "thorough":
                for combo in itertools.combinations_with_replacement(["P1:b", "P1:" + mid, "P2", "P4:" + mid], 3):
                    out.append((gen, mode, list(combo)))
    if tier == "thorough":
        for gen in ("counter", "uuid", "server"):
            for mode in ("legacy", "strict"):
                progs = TRIPLE_PROGS if gen == "counter" else TRIPLE_PROGS_SMALL
                for combo in itertools.combinations_with_replacement(progs, 3):
                    out.append((gen, mode, list(combo)))
    return out


# ------------------------------------------------------------------ world


class World:
    def __init__(self, gen, mode):
        self.gen, self.mode = gen, mode
        self.cls, self.v0 = GEN[gen]
        self.dir = "/dev/shm/vf-%d-c44" % os.getpid()
        os.makedirs(self.dir, exist_ok=True)
        self.path = os.path.join(self.dir, "%s-%s.db" % (gen, mode))
        for suffix in ("", "-wal", "-shm"):
            if os.path.exists(self.path + suffix):
                os.remove(self.path + suffix)
        self.admin = sqlite3.connect(self.path, isolation_level=None, timeout=0)
        self.admin.execute("PRAGMA journal_mode=WAL")
        ca = {"timeout": 0}
        if mode == "strict":
            ca["autocommit"] = False
        self.engine = create_engine("sqlite:///" + self.path, connect_args=ca, poolclass=NullPool)
        self.inh = INH.get(gen)
        if self.inh:
            Base.metadata.create_all(self.engine, tables=[Base.metadata.tables[t] for t in self.inh["tables"]])
        else:
            self.table = self.cls.__table__
            self.table.create(self.engine)
        if gen == "server":
            self.admin.execute(
                "CREATE TRIGGER vs_upd AFTER UPDATE OF data ON vs FOR EACH ROW BEGIN "
                "UPDATE vs SET version_id = OLD.version_id + 1 WHERE id = NEW.id; END"
            )
        self.observer = sqlite3.connect(self.path, isolation_level=None, timeout=0)

    def reset(self):
        _TOK[0] = 0
        if self.inh:
            for t in self.inh["tables"]:
                self.admin.execute("DELETE FROM %s" % t)
            n = len(self.inh["cols"])
            for r, data in INH_INIT.items():
                for stmt, val in zip(self.inh["inserts"], data[:n]):
                    self.admin.execute(stmt, (r, val))
            return
        t = self.table.name
        self.admin.execute("DELETE FROM %s" % t)
        self.admin.execute("INSERT INTO %s (id, version_id, data) VALUES (1, ?, 'init1'), (2, ?, 'init2')" % t, (self.v0, self.v0))

    def init_data(self, r):
        return INH_INIT[r][: len(self.inh["cols"])] if self.inh else "init%d" % r

    def committed(self):
        if self.inh:
            return {r[0]: (r[1], tuple(r[2:])) for r in self.observer.execute(self.inh["select"])}
        return {r[0]: (r[1], r[2]) for r in self.observer.execute("SELECT id, version_id, data FROM %s" % self.table.name)}

    def close(self):
        self.observer.close()
        self.admin.close()
        self.engine.dispose()
        shutil.rmtree(self.dir, ignore_errors=True)


MISSING = "<unloaded>"


class Actor:
    def __init__(self, world, idx, progname):
        base, _, wkind = progname.partition(":")
        eoc, rows, steps = PROGRAMS[base]
        steps = [c + wkind if c == "W" else c for c in steps]  # "P1:i" = P1 whose write touches the intermediate table
        self.idx, self.prog, self.rows, self.steps = idx, progname, rows, steps
        self.sess = Session(world.engine, expire_on_commit=eoc)
        self.pc = 0
        self.objs = {}
        self.status = "run"  # run | done | aborted | gone
        self.pending = None  # {row: ("upd", new_version, data) | ("del",)} flushed, not yet committed
        self.nwrites = 0

    def held(self, r):
        o = self.objs.get(r)
        if o is None:
            return MISSING
        return attributes.instance_state(o).dict.get("version_id", MISSING)


def _env_error(e):
    return isinstance(e, sa_exc.OperationalError)


def execute(world, prognames, choices, rec=None):
    # warnings are captured, not raised or printed (e.g. "DELETE ... expected to delete 1 row(s); 0 were matched"
    # on a sub-table just before the versioned base-table DELETE raises StaleDataError)
    with warnings.catch_warnings():
        warnings.simplefilter("ignore", sa_exc.SAWarning)
        return _execute(world, prognames, choices, rec)


def _execute(world, prognames, choices, rec=None):
    """run one maximal interleaving: follow `choices` (actor indexes) then always the
    lowest enabled actor.  -> (trace, branch_points, problems, stats)
    branch_points[i] = list of enabled actors at step i (for the DFS)"""
    world.reset()
    actors = [Actor(world, i, p) for i, p in enumerate(prognames)]
    seen = {r: {world.v0} for r in (1, 2)}  # every version a row ever had in committed state
    committed_updates = {1: 0, 2: 0}
    version_changes = {1: 0, 2: 0}
    last_committer = {}
    problems = []
    trace, branches = [], []
    stats = dict(stale=0, env=0, flush_ok=0, commits_with_write=0, both_committed=False)
    writers = {1: set(), 2: set()}

    def bad(kind, msg):
        problems.append((kind, "%s  [schedule %s]" % (msg, " ".join(trace))))

    try:
        step = 0
        while True:
            enabled = [a.idx for a in actors if a.status == "run"]
            if not enabled:
                break
            branches.append(enabled)
            pick = choices[step] if step < len(choices) else enabled[0]
            assert pick in enabled, (pick, enabled, choices)
            a = actors[pick]
            optok = a.steps[a.pc]
            op, wkind = optok[0], optok[1:]
            a.pc += 1
            before = world.committed()
            label = "s%d.%s" % (a.idx, optok)
            exc = None
            held = {r: a.held(r) for r in a.rows}
            try:
                if op == "L":
                    for r in a.rows:
                        a.objs[r] = a.sess.get(world.cls, r)
                    if any(o is None for o in a.objs.values()):
                        a.status = "gone"
                elif op == "W" and world.inh:
                    a.nwrites += 1
                    attr = world.inh["kinds"][wkind]
                    newdata = {}
                    for r in a.rows:
                        o = a.objs[r]
                        if wkind == "r":
                            o.notes.append(world.inh["note"](id=1000 + 100 * a.idx + 10 * a.nwrites + r, text="n"))
                            newdata[r] = None  # the versioned row itself is not written
                        elif wkind == "d":
                            was_null = attributes.instance_state(o).dict.get(attr, MISSING) is None
                            delattr(o, attr)
                            newdata[r] = None if was_null else (attr, None)  # deleting a NULL attribute is no change at all
                        else:
                            val = 1000 + 100 * a.idx + a.nwrites if attr == "salary" else "s%d-w%d-r%d" % (a.idx, a.nwrites, r)
                            setattr(o, attr, val)
                            newdata[r] = (attr, val)
                    a.sess.flush()
                elif op == "W":
                    a.nwrites += 1
                    newdata = {r: "s%d-w%d-r%d" % (a.idx, a.nwrites, r) for r in a.rows}
                    for r in a.rows:
                        a.objs[r].data = newdata[r]
                    a.sess.flush()
                elif op == "D":
                    for r in a.rows:
                        a.sess.delete(a.objs[r])
                    a.sess.flush()
                elif op == "C":
                    a.sess.commit()
                elif op == "R":
                    a.sess.rollback()
            except Exception as e:  # noqa
                exc = e
            outcome = "ok" if exc is None else type(exc).__name__
            trace.append(label + ("" if exc is None else "!" + ("stale" if isinstance(exc, orm_exc.StaleDataError) else "env" if _env_error(exc) else outcome)))
            after_op_committed = None
            if exc is not None:
                try:
                    a.sess.rollback()
                except Exception as e2:  # noqa
                    bad("rollback-failed", "%s: rollback after %r raised %r" % (label, exc, e2))
                a.status = "aborted"
                a.pending = None
            after = world.committed()
            # ---- serial model
            if op in ("W", "D"):
                current = {r: (before.get(r, (None,))[0] if r in before else None) for r in a.rows}
                is_current = all(r in before and (held[r] == MISSING or held[r] == before[r][0]) for r in a.rows)
                rel_only = op == "W" and world.inh is not None and all(newdata.get(r) is None for r in a.rows)
                if exc is None and rel_only and all(a.held(r) == held[r] for r in a.rows):
                    # relationship-only change that left the versioned row alone: nothing of it can be overwritten,
                    # the version stays; the commit must then leave the row as it is
                    stats["flush_ok"] += 1
                    a.pending = {r: ("rel",) for r in a.rows}
                elif exc is None:
                    stats["flush_ok"] += 1
                    if not is_current:
                        bad("lost-update", "%s succeeded although the session held version(s) %r while the committed version(s) were %r "
                            "(a change it did not see gets overwritten)" % (label, held, current))
                    a.pending = {}
                    for r in a.rows:
                        if op == "D":
                            a.pending[r] = ("del",)
                            continue
                        try:
                            nv = a.objs[r].version_id
                        except Exception as e:  # noqa
                            bad("version-unreadable", "%s: reading the new version raised %r" % (label, e))
                            nv = None
                        basis = held[r] if held[r] != MISSING else before.get(r, (None,))[0]
                        if nv == basis or nv in seen[r]:  # seen = versions the row had in committed state
                            bad("version-not-new", "%s: row %d version after successful UPDATE is %r; held %r, versions so far %r"
                                % (label, r, nv, basis, sorted(seen[r], key=str)))
                        elif world.gen in ("counter", "server") and not (isinstance(nv, int) and nv > basis):
                            bad("version-not-incremented", "%s: row %d version went %r -> %r" % (label, r, basis, nv))
                        a.pending[r] = ("upd", nv, newdata[r])
                elif isinstance(exc, orm_exc.StaleDataError):
                    stats["stale"] += 1
                    if is_current:
                        bad("spurious-stale", "%s raised StaleDataError although held version(s) %r are the committed current %r"
                            % (label, held, current))
                elif _env_error(exc):
                    stats["env"] += 1
                elif isinstance(exc, orm_exc.ObjectDeletedError) and any(r not in before for r in a.rows):
                    # the object was expired and its row is gone: the refresh preceding the flush says so
                    stats["stale"] += 1
                else:
                    bad("unexpected-error", "%s raised %r" % (label, exc))
                if after != before:
                    bad("flush-changed-committed-state", "%s: committed rows changed by a flush: %r -> %r" % (label, before, after))
            elif op == "C":
                if exc is None and a.pending:
                    stats["commits_with_write"] += 1
                    expect = dict(before)
                    for r, w in a.pending.items():
                        if w[0] == "rel":
                            continue
                        if w[0] == "del":
                            expect.pop(r, None)
                        else:
                            data = w[2]
                            if world.inh and r in before:
                                cur = list(before[r][1])
                                if data is not None:
                                    cur[world.inh["cols"].index(data[0])] = data[1]
                                data = tuple(cur)
                                w = ("upd", w[1], data)
                            expect[r] = (w[1], data)
                            committed_updates[r] += 1
                        last_committer[r] = (a.idx, w)
                        writers[r].add(a.idx)
                    if after != expect:
                        bad("commit-result", "%s: committed rows %r, the session's flushed writes imply %r" % (label, after, expect))
                    a.pending = None
                elif exc is None:
                    if after != before:
                        bad("empty-commit-changed-rows", "%s: %r -> %r" % (label, before, after))
                else:
                    if _env_error(exc):
                        stats["env"] += 1
                    elif isinstance(exc, orm_exc.StaleDataError):
                        # commit() flushes first when something is still pending (not in these programs)
                        bad("stale-at-commit", "%s raised %r with nothing to flush" % (label, exc))
                    else:
                        bad("unexpected-error", "%s raised %r" % (label, exc))
                    if after != before:
                        bad("failed-commit-changed-rows", "%s: %r -> %r" % (label, before, after))
            elif op in ("R", "L"):
                if op == "R":
                    a.pending = None
                if exc is not None and not _env_error(exc):
                    bad("unexpected-error", "%s raised %r" % (label, exc))
                if after != before:
                    bad("read-or-rollback-changed-rows", "%s: %r -> %r" % (label, before, after))
            for r in (1, 2):
                if r in before and r in after and before[r][0] != after[r][0]:
                    version_changes[r] += 1
                    seen[r].add(after[r][0])
            if a.status == "run" and a.pc >= len(a.steps):
                a.status = "done"
            if rec is not None:
                rec.transition()
                rec.state((world.gen, world.mode, tuple(sorted(after.items())), tuple((x.prog, x.pc, x.status, tuple(str(x.held(r)) for r in x.rows)) for x in actors)))
            step += 1
        final = world.committed()
        for r in (1, 2):
            if version_changes[r] != committed_updates[r]:
                bad("version-change-count", "row %d: %d committed version changes, %d successfully committed updates" % (r, version_changes[r], committed_updates[r]))
            if r in last_committer:
                _, w = last_committer[r]
                if w[0] == "del":
                    if r in final:
                        bad("final-row", "row %d: last committer deleted it, final %r" % (r, final[r]))
                elif final.get(r) != (w[1], w[2]):
                    bad("final-row", "row %d: final %r, last successful committer wrote %r" % (r, final.get(r), (w[1], w[2])))
            elif final.get(r) != (world.v0, world.init_data(r)):
                bad("final-row", "row %d changed to %r though no session committed a write" % (r, final.get(r)))
            if len(writers[r]) > 1:
                stats["both_committed"] = True
    finally:
        for a in actors:
            try:
                a.sess.close()
            except Exception:  # noqa
                pass
    return trace, branches, problems, stats


def explore(world, prognames, rec):
    """stateless DFS over scheduler choices: every maximal interleaving exactly once"""
    stack = [[]]
    n = 0
    while stack:
        choices = stack.pop()
        trace, branches, problems, stats = execute(world, prognames, choices, rec)
        n += 1
        rec.trace()
        nontriv = stats["stale"] > 0 or stats["both_committed"]
        rec.case((world.gen, world.mode, tuple(prognames), tuple(trace)), nontrivial=nontriv)
        rec.outcome((world.gen, world.mode, tuple(t.split(".")[1] for t in trace if "!" in t), stats["commits_with_write"]))
        rec.count("stale_data_errors", stats["stale"])
        rec.count("environment_errors", stats["env"])
        rec.count("successful_flushes", stats["flush_ok"])
        if stats["stale"] > 0 and stats["commits_with_write"] > 0:
            rec.sample(dict(generator=world.gen, txn_mode=world.mode, programs=list(prognames), schedule=" ".join(trace)), limit=2)
        for kind, msg in problems:
            sched = _sched_of(trace)
            rec.violation(
                "%s gen=%s mode=%s programs=%s schedule=%s" % (kind, world.gen, world.mode, "+".join(prognames), " ".join(trace)),
                msg, dict(gen=world.gen, mode=world.mode, programs=list(prognames), choices=sched), kind=(kind, world.gen),
            )
        # push alternatives: for each step at or beyond the forced prefix, every other enabled actor
        taken = _sched_of(trace)
        for i in range(len(branches) - 1, len(choices) - 1, -1):
            for alt in branches[i]:
                if alt > taken[i]:
                    stack.append(taken[:i] + [alt])
    return n


def _sched_of(trace):
    return [int(t[1 : t.index(".")]) for t in trace]


def run_shard(shard, tier, rec):
    gen, mode, prognames = shard
    world = World(gen, mode)
    try:
        n = explore(world, prognames, rec)
        rec.count("interleavings", n)
    finally:
        world.close()


def replay(case):
    world = World(case["gen"], case["mode"])
    try:
        trace, _, problems, _ = execute(world, case["programs"], list(case["choices"]))
        return [("%s gen=%s mode=%s programs=%s schedule=%s" % (k, case["gen"], case["mode"], "+".join(case["programs"]), " ".join(trace)), m) for k, m in problems]
    finally:
        world.close()
