"""C23 lambda statements never reuse stale closure values.

Engine H: for each of 23 lambda statement shapes (lambda_stmt, ``+=`` chains,
conditional chains (divergence at link 1 of 2, 1 of 3, 1 of 4, 2 of 4, at the base, three-way; the chains
share two or more identical trailing links), nested ``where(lambda: ...)``, with_loader_criteria(lambda)
through a Session, closure scalars / two scalars / strings / lists for IN /
columns / tables / None / limit values / module globals / object attributes /
function results / DML) every sequence of invocations of length <= 3 (quick)
/ <= 4 (thorough) over the shape's closure-value alphabet is executed on
*fresh* lambda code (the source of the shape is compiled at a new line offset
for every history, because the lambda system keys its analysis by code
object and code objects compare by value, file name excluded) against one engine whose compiled
cache is cleared at the start of a history.

Oracle (differential, quoted from the property): each invocation's
fresh ``compile()`` output (SQL + parameters in placeholder order), the
``(SQL text, parameters)`` handed to the cursor and the rows returned equal
those of the equivalent statement built directly from the current closure
values and executed with the compiled cache disabled.  For DML the table
contents of the two databases are compared as well.  For the two shapes the
documentation says are refused (function call result, plain object attribute)
an InvalidRequestError / ArgumentError is an accepted outcome; silently
different SQL or rows never is.

State (for the evidence counters) = (shape, first value, set of values seen):
the lambda analysis is made from the first invocation, caches are keyed maps
filled at first use.  No dedupe is used to prune: all sequences are run.

Genuine defects found on the unchanged tree (kept, stable signatures):
  * a closure value of None compared with ``==`` / ``!=`` is sent as a bound
    NULL (``a = ?``) instead of ``a IS NULL``: rows differ from the direct
    statement, on the first invocation already.
  * a closure variable whose *kind* changes between invocations (scalar ->
    column or column -> scalar) is not keyed as a structure change: the
    column object is handed to the driver as a parameter value (DBAPI error)
    or AttributeError escapes from the cache key getter.

Mutations caught (each seeded alone in a scratch copy, VIOLATION obtained):
  M2 sql/lambdas.py _bound_parameter_getter_func_closure reads the value of the first (instrumented) invocation's cell
  M3 sql/lambdas.py _cache_key_getter_closure_variable: HasCacheKey closure values no longer contribute to the key
  M4 sql/lambdas.py LambdaElement._gen_cache_key drops closure_cache_key (column closure of a single lambda)
  M5 sql/lambdas.py _setup_binds_for_tracked_expr: expanding flag not copied to the fresh bind (IN lists)
  M6 sql/lambdas.py _bound_parameter_getter_func_globals reads the first invocation's global value
  M7 sql/lambdas.py _gen_cache_key no longer hands the resolved bindparams to the statement cache key (stale values)
  M9 orm/util.py LoaderCriteriaOption._traverse_internals loses "where_criteria" (lambda criteria not in the cache key)
  linked-lambda keying (chains diverging early and sharing >= 2 trailing links):
  L1 sql/lambdas.py LinkedLambdaElement.tracker_key = (parent code, own code) instead of the whole chain
  L2 sql/lambdas.py LambdaElement._gen_cache_key walks only the immediate parent
  L3 sql/lambdas.py LinkedLambdaElement.tracker_key = (own code,) only
  L4 sql/lambdas.py _gen_cache_key walks exactly two parents
  L5 sql/lambdas.py tracker_key keeps only the last two parent codes
  L6 sql/lambdas.py _retrieve_tracker_rec: closure_cache_key no longer includes the parent's closure key
  (not caught, judged equivalent for executed values: replacing new_bind.value by orig_bind.value in
  _retrieve_tracker_rec - the bindparam trackers overwrite the values afterwards; skipping
  _setup_binds_for_tracked_expr in DeferredLambdaElement._resolve_with_args - the statement cache key's extracted
  parameters replace the compile-time values at every execution)
"""
from __future__ import annotations

import itertools

from sqlalchemy import create_engine
from sqlalchemy import event
from sqlalchemy import exc as sa_exc
from sqlalchemy import Column
from sqlalchemy import Integer
from sqlalchemy import MetaData
from sqlalchemy import String
from sqlalchemy import Table
from sqlalchemy.orm import registry
from sqlalchemy.orm import Session
from sqlalchemy.pool import StaticPool

ID = "C17"
LEVEL = "model_checking"
META = dict(
    engine="H",
    technique="explicit enumeration of all invocation histories of lambda statements on fresh code objects; differential "
    "against the directly built statement executed uncached (cursor-level SQL, parameters, rows)",
    design_ref="DESIGN.md §5 C17",
    level_text="All invocation sequences of length <=3 (quick) / <=4 (thorough) over each shape's closure-value alphabet "
    "(ints, strings, None, lists of length 0..2, two columns, two tables, limit values, globals) for 23 lambda statement "
    "shapes are run on the real lambda machinery with a shared compiled cache; every invocation is compared with the "
    "non-lambda statement built from the current values and executed uncached. Exhaustive for the bound: any stale "
    "closure value, stale structure or wrong bound-parameter extraction reachable within 4 invocations of these shapes is found.",
    level_note="Trusted: the directly built statement on an uncached connection is the reference. Lambda analysis is keyed by "
    "code object (compared by value), so every history compiles the shape source at a unique line offset to start "
    "from a fresh lambda state; the process-wide lambda LRU is otherwise left alone.",
    rule="state = (shape, first closure value, set of values seen so far); transition = one invocation (build lambda statement, "
    "execute, compare with direct statement); every transition is validated against the direct route; non-trivial = the "
    "invocation re-used an analysed lambda (history position >= 2) with a value different from the first",
    assumptions=["single thread", "closure values are the ones listed per shape", "SQLite executes both routes"],
    bounds=dict(
        quick="23 shapes, all value sequences of length <= 3, each with a shared compiled cache and with the compiled cache cleared before every invocation",
        thorough="23 shapes, all value sequences of length <= 4, both compiled-cache modes",
    ),
)

# ------------------------------------------------------------------ world

md = MetaData()
t = Table("t", md, Column("id", Integer, primary_key=True), Column("a", Integer), Column("b", Integer), Column("s", String))
t2 = Table("t2", md, Column("id", Integer, primary_key=True), Column("a", Integer), Column("b", Integer), Column("s", String))
ROWS_T = [
    dict(id=1, a=1, b=2, s="ab"),
    dict(id=2, a=2, b=1, s="b"),
    dict(id=3, a=None, b=None, s=None),
    dict(id=4, a=2, b=2, s="a%"),
    dict(id=5, a=1, b=1, s="ba"),
]
ROWS_T2 = [dict(id=11, a=1, b=1, s="x"), dict(id=12, a=2, b=None, s="y"), dict(id=13, a=2, b=2, s=None)]

_reg = registry()


class TT:
    pass


_reg.map_imperatively(TT, t)


class Foo:
    def __init__(self, x):
        self.x = x

    def __repr__(self):
        return "Foo(%r)" % (self.x,)


PRELUDE = "from sqlalchemy import select, lambda_stmt, func, update, and_\nfrom sqlalchemy.orm import with_loader_criteria\n"

# every shape: source defining make(v) (lambda route) and direct(v); alphabet of value tokens
SHAPES = {
    "scalar_where": dict(
        src="""
def make(x):
    s = lambda_stmt(lambda: select(t.c.id))
    s += lambda q: q.where(t.c.a == x)
    s += lambda q: q.order_by(t.c.id)
    return s
def direct(x):
    return select(t.c.id).where(t.c.a == x).order_by(t.c.id)
""",
        alphabet=[("i", 1), ("i", 2), ("none",), ("col", "b"), ("i", 7)],
    ),
    "scalar_ne": dict(
        src="""
def make(x):
    return lambda_stmt(lambda: select(t.c.id, t.c.b).where(t.c.b != x).order_by(t.c.id))
def direct(x):
    return select(t.c.id, t.c.b).where(t.c.b != x).order_by(t.c.id)
""",
        alphabet=[("i", 1), ("i", 2), ("none",)],
    ),
    "two_scalars": dict(
        src="""
def make(v):
    x, y = v
    return lambda_stmt(lambda: select(t.c.id, func.coalesce(t.c.a, y)).where(t.c.a >= x, t.c.b <= y).order_by(t.c.id))
def direct(v):
    x, y = v
    return select(t.c.id, func.coalesce(t.c.a, y)).where(t.c.a >= x, t.c.b <= y).order_by(t.c.id)
""",
        alphabet=[("pair", 1, 2), ("pair", 2, 1), ("pair", 1, 1), ("pair", 2, 2)],
    ),
    "string_like": dict(
        src="""
def make(x):
    s = lambda_stmt(lambda: select(t.c.id))
    s += lambda q: q.where(t.c.s.like(x)).order_by(t.c.id)
    return s
def direct(x):
    return select(t.c.id).where(t.c.s.like(x)).order_by(t.c.id)
""",
        alphabet=[("s", "a%"), ("s", "%b"), ("s", "b"), ("s", "")],
    ),
    "in_list": dict(
        src="""
def make(xs):
    return lambda_stmt(lambda: select(t.c.id).where(t.c.a.in_(xs)).order_by(t.c.id))
def direct(xs):
    return select(t.c.id).where(t.c.a.in_(xs)).order_by(t.c.id)
""",
        alphabet=[("l", (1,)), ("l", (1, 2)), ("l", ()), ("l", (2,)), ("l", (7, 1))],
    ),
    "notin_list_chain": dict(
        src="""
def make(v):
    xs, y = v
    s = lambda_stmt(lambda: select(t.c.id))
    s += lambda q: q.where(t.c.b.not_in(xs))
    s += lambda q: q.where(t.c.id > y).order_by(t.c.id)
    return s
def direct(v):
    xs, y = v
    return select(t.c.id).where(t.c.b.not_in(xs)).where(t.c.id > y).order_by(t.c.id)
""",
        alphabet=[("lp", (1,), 0), ("lp", (1, 2), 0), ("lp", (), 1), ("lp", (2,), 3)],
    ),
    "col_closure": dict(
        src="""
def make(v):
    col, x = v
    return lambda_stmt(lambda: select(t.c.id, col).where(col == x).order_by(t.c.id))
def direct(v):
    col, x = v
    return select(t.c.id, col).where(col == x).order_by(t.c.id)
""",
        alphabet=[("cp", "a", 1), ("cp", "b", 1), ("cp", "a", 2), ("cp", "b", 2)],
    ),
    "table_closure": dict(
        src="""
def make(v):
    tab, x = v
    s = lambda_stmt(lambda: select(tab.c.id))
    s += lambda q: q.where(tab.c.a == x).order_by(tab.c.id)
    return s
def direct(v):
    tab, x = v
    return select(tab.c.id).where(tab.c.a == x).order_by(tab.c.id)
""",
        alphabet=[("tp", "t", 1), ("tp", "t2", 1), ("tp", "t", 2), ("tp", "t2", 2)],
    ),
    "nested_lambda": dict(
        src="""
def make(x):
    return select(t.c.id).where(lambda: t.c.a >= x).where(lambda: t.c.b <= x).order_by(t.c.id)
def direct(x):
    return select(t.c.id).where(t.c.a >= x).where(t.c.b <= x).order_by(t.c.id)
""",
        alphabet=[("i", 1), ("i", 2), ("i", 0)],
    ),
    "cond_chain": dict(
        src="""
def make(v):
    x, flag = v
    s = lambda_stmt(lambda: select(t.c.id))
    if flag:
        s += lambda q: q.where(t.c.a > x)
    else:
        s += lambda q: q.where(t.c.b == x)
    s += lambda q: q.order_by(t.c.id)
    return s
def direct(v):
    x, flag = v
    s = select(t.c.id)
    s = s.where(t.c.a > x) if flag else s.where(t.c.b == x)
    return s.order_by(t.c.id)
""",
        alphabet=[("pair", 1, True), ("pair", 1, False), ("pair", 2, False), ("pair", 0, True)],
    ),
    "chain3_div1": dict(
        src="""
def make(v):
    flag, x, y = v
    s = lambda_stmt(lambda: select(t.c.id, t.c.a, t.c.b))
    if flag:
        s += lambda q: q.where(t.c.a >= x)
    else:
        s += lambda q: q.where(t.c.b >= x)
    s += lambda q: q.where(t.c.id != y)
    s += lambda q: q.order_by(t.c.id)
    return s
def direct(v):
    flag, x, y = v
    s = select(t.c.id, t.c.a, t.c.b)
    s = s.where(t.c.a >= x) if flag else s.where(t.c.b >= x)
    return s.where(t.c.id != y).order_by(t.c.id)
""",
        alphabet=[("br", True, 2, 0), ("br", False, 2, 0), ("br", True, 1, 4), ("br", False, 1, 4)],
    ),
    "chain4_div1": dict(
        src="""
def make(v):
    flag, x, y = v
    s = lambda_stmt(lambda: select(t.c.id, t.c.s))
    if flag:
        s += lambda q: q.where(t.c.a == x)
    else:
        s += lambda q: q.where(t.c.b == x)
    s += lambda q: q.where(t.c.id > y)
    s += lambda q: q.where(t.c.id < 5)
    s += lambda q: q.order_by(t.c.id.desc())
    return s
def direct(v):
    flag, x, y = v
    s = select(t.c.id, t.c.s)
    s = s.where(t.c.a == x) if flag else s.where(t.c.b == x)
    return s.where(t.c.id > y).where(t.c.id < 5).order_by(t.c.id.desc())
""",
        alphabet=[("br", True, 1, 0), ("br", False, 1, 0), ("br", True, 2, 1), ("br", False, 2, 1)],
    ),
    "chain4_div2_literal_tail": dict(
        src="""
def make(v):
    flag, x, y = v
    s = lambda_stmt(lambda: select(t.c.id))
    s += lambda q: q.where(t.c.id >= y)
    if flag:
        s += lambda q: q.add_columns(t.c.a).where(t.c.a <= x)
    else:
        s += lambda q: q.add_columns(t.c.b).where(t.c.b <= x)
    s += lambda q: q.where(t.c.id != 4)
    s += lambda q: q.order_by(t.c.id).limit(3)
    return s
def direct(v):
    flag, x, y = v
    s = select(t.c.id).where(t.c.id >= y)
    s = s.add_columns(t.c.a).where(t.c.a <= x) if flag else s.add_columns(t.c.b).where(t.c.b <= x)
    return s.where(t.c.id != 4).order_by(t.c.id).limit(3)
""",
        alphabet=[("br", True, 2, 0), ("br", False, 2, 0), ("br", True, 1, 2), ("br", False, 1, 2)],
    ),
    "base_div_shared_tail": dict(
        src="""
def make(v):
    flag, x, y = v
    if flag:
        s = lambda_stmt(lambda: select(t.c.id, t.c.a))
    else:
        s = lambda_stmt(lambda: select(t.c.id, t.c.b, t.c.s))
    s += lambda q: q.where(t.c.id >= x)
    s += lambda q: q.where(t.c.id <= y)
    s += lambda q: q.order_by(t.c.id)
    return s
def direct(v):
    flag, x, y = v
    s = select(t.c.id, t.c.a) if flag else select(t.c.id, t.c.b, t.c.s)
    return s.where(t.c.id >= x).where(t.c.id <= y).order_by(t.c.id)
""",
        alphabet=[("br", True, 1, 4), ("br", False, 1, 4), ("br", True, 2, 5), ("br", False, 2, 5)],
    ),
    "chain3_three_way": dict(
        src="""
def make(v):
    which, x, y = v
    s = lambda_stmt(lambda: select(t.c.id))
    if which == 0:
        s += lambda q: q.where(t.c.a == x)
    elif which == 1:
        s += lambda q: q.where(t.c.b == x)
    else:
        s += lambda q: q.where(t.c.s.like("%b%"))
    s += lambda q: q.where(t.c.id != y)
    s += lambda q: q.order_by(t.c.id)
    return s
def direct(v):
    which, x, y = v
    s = select(t.c.id)
    s = s.where(t.c.a == x) if which == 0 else (s.where(t.c.b == x) if which == 1 else s.where(t.c.s.like("%b%")))
    return s.where(t.c.id != y).order_by(t.c.id)
""",
        alphabet=[("br", 0, 1, 0), ("br", 1, 1, 0), ("br", 2, 1, 0), ("br", 1, 2, 5)],
    ),
    "col_link_then_tail": dict(
        src="""
def make(v):
    col, x = v
    s = lambda_stmt(lambda: select(t.c.id))
    s += lambda q: q.add_columns(col).where(col >= x)
    s += lambda q: q.where(t.c.id != 4)
    s += lambda q: q.order_by(t.c.id)
    return s
def direct(v):
    col, x = v
    return select(t.c.id).add_columns(col).where(col >= x).where(t.c.id != 4).order_by(t.c.id)
""",
        alphabet=[("cp", "a", 1), ("cp", "b", 1), ("cp", "a", 2), ("cp", "b", 2)],
    ),
    "limit_closure": dict(
        src="""
def make(v):
    n, o = v
    s = lambda_stmt(lambda: select(t.c.id).order_by(t.c.id))
    s += lambda q: q.limit(n).offset(o)
    return s
def direct(v):
    n, o = v
    return select(t.c.id).order_by(t.c.id).limit(n).offset(o)
""",
        alphabet=[("pair", 1, 0), ("pair", 2, 1), ("pair", 0, 0), ("pair", 3, 2)],
    ),
    "global_literal": dict(
        src="""
def make(v):
    global G
    G = v
    return lambda_stmt(lambda: select(t.c.id).where(t.c.a == G).order_by(t.c.id))
def direct(v):
    return select(t.c.id).where(t.c.a == v).order_by(t.c.id)
""",
        alphabet=[("i", 1), ("i", 2), ("i", 7)],
        prime_global=True,
    ),
    "shared_var": dict(
        src="""
def make(x):
    s = lambda_stmt(lambda: select(t.c.id, t.c.a + x))
    s += lambda q: q.where(t.c.a >= x)
    s += lambda q: q.where(t.c.b <= x).order_by(t.c.id)
    return s
def direct(x):
    return select(t.c.id, t.c.a + x).where(t.c.a >= x).where(t.c.b <= x).order_by(t.c.id)
""",
        alphabet=[("i", 1), ("i", 2), ("i", 0)],
    ),
    "loader_criteria": dict(
        src="""
def make(x):
    return select(TT).options(with_loader_criteria(TT, lambda cls: cls.a == x)).order_by(TT.id)
def direct(x):
    return select(TT).options(with_loader_criteria(TT, TT.a == x)).order_by(TT.id)
""",
        alphabet=[("i", 1), ("i", 2), ("none",)],
        orm=True,
    ),
    "update_dml": dict(
        src="""
def make(v):
    id_, newval = v
    s = lambda_stmt(lambda: update(t))
    s += lambda u: u.values(b=newval)
    s += lambda u: u.where(t.c.id == id_)
    return s
def direct(v):
    id_, newval = v
    return update(t).values(b=newval).where(t.c.id == id_)
""",
        alphabet=[("pair", 1, 10), ("pair", 2, 20), ("pair", 1, 30), ("pair", 9, 40)],
        dml=True,
    ),
    "obj_attr": dict(
        src="""
def make(foo):
    return lambda_stmt(lambda: select(t.c.id).where(t.c.a == foo.x).order_by(t.c.id))
def direct(foo):
    return select(t.c.id).where(t.c.a == foo.x).order_by(t.c.id)
""",
        alphabet=[("foo", 1), ("foo", 2)],
        may_refuse=True,
    ),
    "func_call": dict(
        src="""
def make(x):
    def get_x():
        return x
    return lambda_stmt(lambda: select(t.c.id).where(t.c.a == get_x()).order_by(t.c.id))
def direct(x):
    return select(t.c.id).where(t.c.a == x).order_by(t.c.id)
""",
        alphabet=[("i", 1), ("i", 2)],
        may_refuse=True,
    ),
}


def decode(tok):
    k = tok[0]
    if k in ("i", "s"):
        return tok[1]
    if k == "none":
        return None
    if k == "col":
        return t.c[tok[1]]
    if k == "l":
        return list(tok[1])
    if k == "lp":
        return (list(tok[1]), tok[2])
    if k == "pair":
        return (tok[1], tok[2])
    if k == "br":
        return (tok[1], tok[2], tok[3])
    if k == "cp":
        return (t.c[tok[1]], tok[2])
    if k == "tp":
        return ({"t": t, "t2": t2}[tok[1]], tok[2])
    if k == "foo":
        return Foo(tok[1])
    raise AssertionError(tok)


_uniq = itertools.count()


def fresh_functions(shape):
    """compile the shape's source at a line offset never used before: code
    objects compare by value (name, first line number, bytecode, constants --
    *not* the file name), and the lambda system keys its analysis and caches by
    code object, so only a new line number gives new, unequal code objects and
    thereby a lambda state not shared with earlier histories"""
    ns = dict(t=t, t2=t2, TT=TT)
    k = next(_uniq)
    fname = "<c17-%s-%d>" % (shape, k)
    exec(compile(PRELUDE + "\n" * k + SHAPES[shape]["src"], fname, "exec"), ns)
    return ns["make"], ns["direct"]


class Db:
    def __init__(self, cached):
        kw = {} if cached else dict(query_cache_size=0)
        self.engine = create_engine("sqlite://", poolclass=StaticPool, **kw)
        md.create_all(self.engine)
        self.log = []
        event.listen(self.engine, "before_cursor_execute", self._on)
        self.reset()

    def _on(self, conn, cursor, statement, parameters, context, executemany):
        self.log.append((" ".join(statement.split()), repr(parameters)))

    def reset(self):
        with self.engine.begin() as c:
            c.execute(t.delete())
            c.execute(t2.delete())
            c.execute(t.insert(), ROWS_T)
            c.execute(t2.insert(), ROWS_T2)
        self.engine.clear_compiled_cache()

    def run(self, stmt, orm):
        del self.log[:]
        if orm:
            with Session(self.engine) as s:
                rows = [(o.id, o.a, o.b) for o in s.execute(stmt).scalars()]
        else:
            with self.engine.begin() as c:
                res = c.execute(stmt)
                rows = [tuple(r) for r in res] if res.returns_rows else [("rowcount", res.rowcount)]
        return list(self.log), rows

    def compiled(self, stmt):
        """fresh compile() (no compiled cache involved): SQL text + parameters in placeholder order"""
        comp = stmt.compile(dialect=self.engine.dialect, compile_kwargs={"render_postcompile": True})
        params = comp.params
        return " ".join(str(comp).split()), repr([params[k] for k in (comp.positiontup or [])])

    def contents(self):
        with self.engine.connect() as c:
            return [tuple(r) for r in c.execute(t.select().order_by(t.c.id))]


REFUSALS = (sa_exc.InvalidRequestError, sa_exc.ArgumentError)


def run_history(shape, hist, dbs, rec=None, evict=False):
    """-> list of (kind, detail, step index); also feeds the recorder.
    evict=True: the engine's compiled cache is cleared before every invocation
    (the lambda-level analysis and closure caches survive), so every invocation
    re-compiles from the lambda system's *cached* expression objects"""
    spec = SHAPES[shape]
    lam_db, dir_db = dbs
    make, direct = fresh_functions(shape)
    lam_db.engine.clear_compiled_cache()
    if spec.get("dml"):
        lam_db.reset()
        dir_db.reset()
    probs = []
    seen = set()
    for i, tok in enumerate(hist):
        if evict:
            lam_db.engine.clear_compiled_cache()
        val_l, val_d = decode(tok), decode(tok)
        dstmt = direct(val_d)
        dlog, drows = dir_db.run(dstmt, spec.get("orm"))
        outcome = None
        try:
            lstmt = make(val_l)
            lc, dc = lam_db.compiled(lstmt), dir_db.compiled(direct(decode(tok)))
            llog, lrows = lam_db.run(lstmt, spec.get("orm"))
        except REFUSALS as e:
            if spec.get("may_refuse"):
                outcome = "refused"
            else:
                probs.append(("raises-%s" % type(e).__name__, "step %d value %r: %s: %s" % (i, tok, type(e).__name__, str(e).splitlines()[0][:200]), i))
                outcome = "error"
        except Exception as e:  # noqa: BLE001
            probs.append(("raises-%s" % type(e).__name__, "step %d value %r: %s: %s" % (i, tok, type(e).__name__, (str(e).splitlines() or [""])[0][:200]), i))
            outcome = "error"
        else:
            if llog != dlog:
                probs.append(("sql", "step %d value %r: lambda statement sent %r, direct statement sends %r" % (i, tok, llog, dlog), i))
            elif lrows != drows:
                probs.append(("rows", "step %d value %r: lambda rows %r, direct rows %r" % (i, tok, lrows, drows), i))
            elif spec.get("dml") and lam_db.contents() != dir_db.contents():
                probs.append(("table-contents", "step %d value %r: %r vs %r" % (i, tok, lam_db.contents(), dir_db.contents()), i))
            elif lc != dc:
                # (reported only when the executed route agrees: otherwise it is the same failure seen twice)
                probs.append(("compile", "step %d value %r: compile() of the lambda statement gives %r, of the direct statement %r" % (i, tok, lc, dc), i))
            outcome = repr(drows)
        if rec is not None:
            seen.add(tok)
            rec.transition()
            rec.trace()
            rec.state((shape, evict, hist[0], tuple(sorted(seen, key=repr))))
            rec.outcome((shape, outcome))
    # (the history is run to its end even after a failure: later invocations are still compared)
    return probs


def kind_of(tok):
    return {"i": "scalar", "s": "scalar", "none": "None", "col": "column", "l": "list", "lp": "list", "pair": "scalars", "br": "scalars", "cp": "column", "tp": "table", "foo": "object"}[tok[0]]


def analysis_kind(tok):
    """how the lambda analysis classifies the value: None and scalars are both 'literal' (bound value)"""
    k = kind_of(tok)
    return "literal" if k in ("scalar", "None", "scalars") else k


def signature(shape, hist, kind, step, evict=False):
    """root-cause signature of a *minimised* history (see minimise): failure
    class, kind of the failing value, kind of the value the analysis was made
    from.  The shape is left out on purpose: one root cause, one signature."""
    first, cur = hist[0], hist[step]
    if step == 0:
        return "C17 %s: first invocation with a %s closure value" % (kind, kind_of(cur))
    return "C17 %s: %s closure value after a first invocation with a %s value%s" % (
        kind, analysis_kind(cur), analysis_kind(first), " [compiled cache cleared between invocations]" if evict else "")


def minimise(shape, hist, kind, step, dbs, evict=False):
    """shortest failing sub-history with the same failure class, shared compiled cache first:
    [failing value] alone, then [first, failing], then the same with cache clearing"""
    cands = [((hist[step],), False), ((hist[0], hist[step]), False)]
    if evict:
        cands.append(((hist[0], hist[step]), True))
    for cand, ev in cands:
        if len(cand) > step + 1 or (len(cand) == step + 1 and ev == evict):
            continue
        for k2, d2, s2 in run_history(shape, cand, dbs, evict=ev):
            if k2 == kind and s2 == len(cand) - 1:
                return cand, d2, s2, ev
    return hist[: step + 1], None, step, evict


def shards(tier, seed):
    return [[s] for s in SHAPES]


def run_shard(shard, tier, rec):
    shape = shard[0]
    spec = SHAPES[shape]
    depth = 3 if tier == "quick" else 4
    dbs = (Db(True), Db(False))
    alpha = spec["alphabet"]
    for n in range(1, depth + 1):
        for hist in itertools.product(alpha, repeat=n):
            for evict in (False, True):
                if evict and n == 1:
                    continue  # identical to the cached run
                probs = run_history(shape, hist, dbs, rec, evict=evict)
                rec.case((shape, hist, evict), nontrivial=n >= 2 and len(set(hist)) > 1)
                if n == 3 and len(set(hist)) == 3 and not probs:
                    rec.sample(dict(shape=shape, history=[list(h) for h in hist], compiled_cache="cleared before each step" if evict else "shared"))
                for kind, detail, step in probs:
                    sub, d2, st2, ev = minimise(shape, hist, kind, step, dbs, evict)
                    rec.violation(
                        signature(shape, sub, kind, st2, ev),
                        d2 or detail,
                        dict(shape=shape, history=[list(h) for h in sub], evict=ev),
                        kind=(kind, analysis_kind(sub[0]), kind_of(sub[st2]) if st2 == 0 else analysis_kind(sub[st2]), st2 == 0, ev),
                    )
    for d in dbs:
        d.engine.dispose()


def _tup(x):
    return tuple(_tup(i) for i in x) if isinstance(x, list) else x


def replay(case):
    shape = case["shape"]
    hist = tuple(_tup(h) for h in case["history"])
    dbs = (Db(True), Db(False))
    out = []
    ev = bool(case.get("evict"))
    for kind, detail, step in run_history(shape, hist, dbs, evict=ev):
        out.append((signature(shape, hist[: step + 1], kind, step, ev), detail))
    return out
