"""C56 upsert statements insert or update exactly as their conflict clause says.

Engine I.  Table ``t(id PK, k UNIQUE, v [key 'vk'], w)`` (and a variant whose
uniqueness on k is a *partial* unique index ``WHERE w = 0``).  Enumerated:
every set of <= 2 existing rows over the 3x3 (id, k) domain x every list of
<= 2 (quick) / <= 3 (thorough) parameter rows over the same domain (conflicts
on id, on k, on both - with the same or with two different rows -, on neither,
and *within the list*) x every conflict clause of the family below x execution
mode (row by row / executemany / executemany+RETURNING (insertmanyvalues
batches) / executemany+RETURNING sort_by_parameter_order).

Column-type alphabet: ``v`` is a plain Integer, or (table variant ``bx``, 5 clauses ``...@bx`` on the sqlite and pg
routes) a TypeDecorator with a SQL-level ``bind_expression()`` (stored value = bound value + 3; no
column_expression, so the table, ``excluded.v`` and RETURNING show the stored value).  The model applies the same
offset wherever a Python value is bound against the column (inserted values, a literal or a per-row ``bindparam()``
in DO UPDATE SET) and nowhere else.

Cache-order sub-space (route ``sqlite-cache``, history of statements on ONE compiled cache): for 5 clause shapes whose
SET dictionary holds a plain Python value (``{v: x}``, ``{w: excluded.w + 1, v: x}``, with / without WHERE, one
SQLite two-clause chain), x, y in {None, 7, 999}: a statement with value x in {None, 7} is compiled first on a private
compiled cache (for every parameter shape the mode uses); then separately built, same-shaped statements with value y
(all 3) are executed on that cache for every existing-row set (<= 1 row quick / <= 2 rows thorough) x parameter list
(<= 2 rows) x 5 modes.  Each execution is judged by the model AND must equal the same statement on a fresh cache (error
or not, final table, RETURNING rows).  That the statements really share a cache entry is measured (counter
``cache_entries_added_after_warmup`` must be 0).

Oracle: an insert-or-update reference model (a dict of rows, constraints id and
k, clauses tried against the violated constraints; DO UPDATE evaluates its SET
expressions and WHERE on the old row and ``excluded``; three-valued logic for
NULL).  Where SQLite / PostgreSQL leave the outcome to the order of constraint
checks (two *different* violated constraints both covered by clauses) the model
carries the set of allowed worlds.  Checked: final table == a model world,
RETURNING rows == the affected rows of that world (in parameter order when
sort_by_parameter_order / row-by-row, as a multiset otherwise), rows skipped by
DO NOTHING / a false WHERE absent; an error exactly when the model says the
violated constraint is not covered.

Routes: (1) ``sqlalchemy.dialects.sqlite.insert`` executed through the SQLite
dialect; (2) ``sqlalchemy.dialects.postgresql.insert`` compiled by the
postgresql dialect (named paramstyle) and executed as text on SQLite, whose
ON CONFLICT grammar coincides - row by row and through the real
insertmanyvalues batcher (``ON CONSTRAINT name`` is translated to the
constraint's column list by the harness; statements SQLite rejects are counted
"not executed"); (3) ``sqlalchemy.dialects.mysql.insert(...)
.on_duplicate_key_update`` compiled by the mysql dialect (both ``VALUES(col)``
and the 8.0.20+ ``AS new`` form), *parsed* by a small reader (column list,
placeholders, assignment list, ``VALUES(c)`` / ``new.c`` / column references,
literals, ``+``) and interpreted with MySQL's left-to-right assignment
semantics on the same model, compared with the direct interpretation of what
the construct says (dict: table column order; list of tuples: given order).

Genuine defect found on the unchanged tree (one stable signature,
``index_where-refused-by-executemany: route=sqlite ...``): the SQLite dialect
renders the bound values of ``index_where`` as ``literal_execute`` parameters
(SQLite cannot match a partial index through a bound parameter), and
``DefaultExecutionContext._init_compiled`` refuses every literal_execute
parameter under executemany - so an ON CONFLICT clause that targets a partial
unique index cannot be executed with more than one parameter set at all
(InvalidRequestError) although the literal is the same for every row.  See
/verif/proposed_fixes/executemany_allow_constant_literal_execute.diff.

Mutations caught (each in a private copy, VF_REPO=/tmp/wt-dml):
  1. dialects/sqlite/base.py visit_on_conflict_do_update: DO UPDATE .. WHERE
     rendered with include_table=False (``excluded.v > v`` loses its meaning)
  2. same edit in dialects/postgresql/base.py (caught by the PG-text-on-SQLite route)
  3. sql/compiler.py _deliver_insertmanyvalues_batches: the
     ``has_upsert_bound_parameters`` row-at-a-time downgrade removed (one SET
     parameter for a whole batch) - caught on the sqlite and pg routes
  4. sql/compiler.py: ``includes_upsert_behaviors`` downgrade removed for
     sort_by_parameter_order (skipped rows break the sentinel match)
  5. dialects/mysql/base.py: ``VALUES(<referenced column>)`` -> ``VALUES(<assigned column>)``
  6. dialects/mysql/base.py: ``_parameter_ordering`` ignored (ordered list
     rendered in table order)
  7. dialects/sqlite/base.py: SET target rendered from ``c.key`` instead of ``c.name``
  8. (seeded C56-a) sql/compiler.py visit_bindparam: the ``has_upsert_bound_parameters`` detection moved below the
     bind_expression branch - a per-row SET parameter on a column whose type has bind_expression() is batched
     (``table-state: ... clause=DU(k,param,none)@bx mode=many_ret``, sqlite and pg routes)
  9. (seeded C56-b) dialects/sqlite/base.py visit_on_conflict_do_update: a plain None in set_ rendered as inline NULL
     - the compiled form is reused for same-shaped statements with a value (``cache-order-dependence: route=sqlite
     first-on-cache=set_ v=None clause=DU(k,lit=7,gt) ...``)
"""
from __future__ import annotations

import itertools
import re
import warnings

import sqlalchemy as sa
from sqlalchemy import bindparam
from sqlalchemy import Column
from sqlalchemy import Index
from sqlalchemy import Integer
from sqlalchemy import MetaData
from sqlalchemy import Table
from sqlalchemy import UniqueConstraint
from sqlalchemy import exc as sa_exc
from sqlalchemy.dialects import mysql as mysql_d
from sqlalchemy.dialects import postgresql as pg_d
from sqlalchemy.dialects import sqlite as sqlite_d
from sqlalchemy.pool import StaticPool

ID = "C56"
LEVEL = "exploration"
META = dict(
    engine="I",
    technique="small-scope enumeration of (existing rows, parameter lists, conflict clauses, execution modes); insert-or-update "
    "reference model with sets of allowed worlds; foreign-dialect SQL executed on SQLite (PostgreSQL) or parsed and interpreted (MySQL)",
    design_ref="DESIGN.md §5 C56",
    level_text="Every existing-row set (<=2 rows) x parameter list (<=2 quick / <=3 thorough rows) over a 3x3 key domain x every "
    "clause of the family (DO NOTHING: no target / id / k / partial-index target; DO UPDATE: target id|k x 8 set_ shapes x 3 WHERE "
    "shapes, constraint names, SQLite multi-clause chains; 5 clauses on a column whose type has a bind_expression()) x 5 execution "
    "modes is executed and compared with the model. Cache-order sub-space: 5 literal-in-SET clause shapes x first-compiled value "
    "{None, 7} x executed value {None, 7, 999} on one compiled cache x existing (<=1 quick / <=2 thorough rows) x parameter list "
    "(<=2 rows) x 5 modes, each judged by the model and compared with the run on a fresh cache. Complete for the bound.",
    level_note="Trusted: the model (60 lines), the MySQL clause reader, SQLite as executor of the shared ON CONFLICT grammar. No "
    "PostgreSQL/MySQL server: PostgreSQL text runs on SQLite (PostgreSQL's 'cannot affect row a second time' restriction for a "
    "row hit twice by one multi-VALUES statement is therefore not modelled); MySQL is model-interpreted only.",
    rule="case = (table variant, existing rows, parameter list, clause chain, route, mode[, value compiled first on the cache]); non-trivial = at least one parameter row "
    "conflicts with an existing row or with an earlier row of the list",
    assumptions=[
        "SQL semantics of ON CONFLICT: the clause whose target constraint is violated decides; an uncovered violated constraint raises",
        "when two different violated constraints are each covered by a clause the engine may pick either (set of allowed worlds)",
        "the outcome of an upsert statement does not depend on which same-shaped statement was compiled first on the engine's cache",
        "MySQL ON DUPLICATE KEY UPDATE assigns left to right, later assignments see earlier ones; with two conflicting rows either may be updated",
    ],
    bounds=dict(
        quick="existing sets <=2 rows (28), parameter lists <=2 rows (90; MySQL route <=3 rows, 819), full clause family (64 chains incl. 5 on a bind_expression() column + 10 MySQL forms), 5 modes, 3 routes; "
        "cache-order: 5 shapes x 2 first-compiled x 3 executed values x existing <=1 row (10) x parameter lists <=2 rows (90) x 5 modes, each also on a fresh cache",
        thorough="existing sets <=2 rows (28), parameter lists <=3 rows (819), full clause family, 5 modes, 3 routes; "
        "cache-order: as quick with existing sets <=2 rows (28)",
    ),
)
SHARD_TIMEOUT = dict(quick=300, thorough=1800)

IDS = (1, 2, 3)
KS = (10, 20, 30)
COLS = ("id", "k", "v", "w")
EXIST_VW = ((60, 0), (None, 1))  # (v, w) of the first / second existing row
NEW_V = (50, 70, 65)
NEW_W = (0, 1, 0)

# ------------------------------------------------------------------ tables

MD = MetaData()
T_PLAIN = Table(
    "c56t", MD,
    Column("id", Integer, primary_key=True, autoincrement=False),
    Column("k", Integer),
    Column("v", Integer, key="vk"),
    Column("w", Integer),
    UniqueConstraint("k", name="uq_c56t_k"),
)
T_PART = Table(
    "c56p", MD,
    Column("id", Integer, primary_key=True, autoincrement=False),
    Column("k", Integer),
    Column("v", Integer, key="vk"),
    Column("w", Integer),
)
Index("ix_c56p_k", T_PART.c.k, unique=True, sqlite_where=T_PART.c.w == 0, postgresql_where=T_PART.c.w == 0)

BX_OFF = 3


class PlusInt(sa.TypeDecorator):
    """column type of the alphabet with a SQL-level bind_expression(): every value bound against the column is stored + BX_OFF
    (no column_expression: reads, ``excluded.v`` and RETURNING see the stored value)"""

    impl = Integer
    cache_ok = True

    def bind_expression(self, bindvalue):
        return bindvalue + sa.literal_column(str(BX_OFF))


T_BX = Table(
    "c56b", MD,
    Column("id", Integer, primary_key=True, autoincrement=False),
    Column("k", Integer),
    Column("v", PlusInt, key="vk"),
    Column("w", Integer),
    UniqueConstraint("k", name="uq_c56b_k"),
)
TABLES = {"plain": T_PLAIN, "partial": T_PART, "bx": T_BX}
CONSTRAINT_COLS = {"uq_c56t_k": "k", "c56t_pkey": "id"}

# ------------------------------------------------------------------ expression AST (shared by model and builders)
# ("lit", n) ("exc", col) ("col", col) ("param", name) ("add", a, b) ("gt", a, b) ("eq", a, b)


def ev(ast, old, new, params):
    op = ast[0]
    if op == "lit":
        return ast[1]
    if op == "exc":
        return new[ast[1]]
    if op == "col":
        return old[ast[1]]
    if op == "param":
        return params[ast[1]]
    a, b = ev(ast[1], old, new, params), ev(ast[2], old, new, params)
    if a is None or b is None:
        return None
    if op == "add":
        return a + b
    if op == "gt":
        return a > b
    if op == "eq":
        return a == b
    raise AssertionError(op)


def build_expr(ast, table, excluded):
    op = ast[0]
    ck = lambda c: "vk" if c == "v" else c  # noqa: E731
    if op == "lit":
        return sa.literal(ast[1])
    if op == "exc":
        return excluded[ck(ast[1])]
    if op == "col":
        return table.c[ck(ast[1])]
    if op == "param":
        return bindparam(ast[1])
    a, b = build_expr(ast[1], table, excluded), build_expr(ast[2], table, excluded)
    if op == "add":
        return a + b
    if op == "gt":
        return a > b
    if op == "eq":
        return a == b
    raise AssertionError(op)


SETS = {
    # name -> list of (column, keystyle, ast);  keystyle: how the key is spelled in set_
    "lit": [("v", "key", ("lit", 999))],
    "exc": [("v", "key", ("exc", "v"))],
    "sum": [("v", "key", ("add", ("col", "v"), ("exc", "v")))],
    "byname": [("v", "name", ("exc", "v"))],
    "bycol": [("v", "col", ("exc", "v"))],
    "two": [("v", "key", ("exc", "v")), ("w", "key", ("add", ("exc", "w"), ("lit", 1)))],
    "param": [("v", "key", ("param", "nv"))],
    "cross": [("v", "key", ("col", "w")), ("w", "key", ("exc", "v"))],
}
# same-shaped statements: the SET dictionary differs only in the plain Python value (equal statement cache keys)
LITV = (None, 7, 999)
PAIR_SETS = {}
for _val in LITV:
    PAIR_SETS["lit=%r" % (_val,)] = [("v", "key", ("lit", _val))]
    PAIR_SETS["lit2=%r" % (_val,)] = [("w", "key", ("add", ("exc", "w"), ("lit", 1))), ("v", "key", ("lit", _val))]
SETS_ALL = dict(SETS)
SETS_ALL.update(PAIR_SETS)
WHERES = {"none": None, "gt": ("gt", ("exc", "v"), ("col", "v")), "w0": ("eq", ("col", "w"), ("lit", 0))}


def clause_family():
    """list of (name, variant, chain, dialects); chain = list of clause dicts"""
    fam = []

    def cl(action, target=None, set_=None, where=None, index_where=False, constraint=None, tstyle="col"):
        return dict(action=action, target=target, set=set_, where=where, index_where=index_where, constraint=constraint, tstyle=tstyle)

    both = ("sqlite", "pg")
    fam.append(("DN", "plain", [cl("nothing")], both))
    fam.append(("DN(id)", "plain", [cl("nothing", "id")], both))
    fam.append(("DN('k')", "plain", [cl("nothing", "k", tstyle="str")], both))
    for tgt in ("k", "id"):
        for sname in SETS:
            for wname in WHERES:
                fam.append(("DU(%s,%s,%s)" % (tgt, sname, wname), "plain", [cl("update", tgt, sname, wname, tstyle="str" if sname == "lit" else "col")], both))
    fam.append(("DN(k|w=0)", "partial", [cl("nothing", "k", index_where=True)], both))
    for sname, wname in (("exc", "none"), ("sum", "gt"), ("two", "w0")):
        fam.append(("DU(k|w=0,%s,%s)" % (sname, wname), "partial", [cl("update", "k", sname, wname, index_where=True)], both))
    fam.append(("DU(id,exc,none)@partial", "partial", [cl("update", "id", "exc", "none")], both))
    # column v typed with a bind_expression(): Python values in SET (literal / per-row parameter) and excluded references
    for tgt, sname, wname in (("k", "lit", "none"), ("k", "param", "none"), ("id", "param", "gt"), ("id", "lit", "w0"), ("k", "exc", "gt")):
        fam.append(("DU(%s,%s,%s)@bx" % (tgt, sname, wname), "bx", [cl("update", tgt, sname, wname)], both))
    # PostgreSQL constraint names
    fam.append(("DN(constraint uq)", "plain", [cl("nothing", "k", constraint="uq_c56t_k")], ("pg",)))
    fam.append(("DU(constraint uq,exc,gt)", "plain", [cl("update", "k", "exc", "gt", constraint="uq_c56t_k")], ("pg",)))
    fam.append(("DU(constraint pk,sum,none)", "plain", [cl("update", "id", "sum", "none", constraint="c56t_pkey")], ("pg",)))
    # SQLite chains of ON CONFLICT clauses
    fam.append(("DU(k,exc,none)+DN", "plain", [cl("update", "k", "exc", "none"), cl("nothing")], ("sqlite",)))
    fam.append(("DN(id)+DU(k,sum,none)", "plain", [cl("nothing", "id"), cl("update", "k", "sum", "none")], ("sqlite",)))
    fam.append(("DU(id,exc,gt)+DU(k,two,none)", "plain", [cl("update", "id", "exc", "gt"), cl("update", "k", "two", "none")], ("sqlite",)))
    fam.append(("DU(k,param,none)+DN(id)", "plain", [cl("update", "k", "param", "none"), cl("nothing", "id")], ("sqlite",)))
    return fam


FAMILY = clause_family()
FAMILY_BY_NAME = {f[0]: f for f in FAMILY}

# ------------------------------------------------------------------ reference model


def _violated(rows, new, variant):
    out = {}
    for r in rows:
        if r["id"] == new["id"]:
            out["id"] = r
    if variant != "partial" or new["w"] == 0:
        for r in rows:
            if r["k"] == new["k"] and (variant != "partial" or r["w"] == 0):
                out["k"] = r
    return out


def model_apply(world, new, params, chain, variant):
    """world = (rows tuple of dict, returned list) -> list of successor worlds or 'error'"""
    rows, ret = world
    viol = _violated(rows, new, variant)
    if not viol:
        nr = dict(new)
        return [(rows + (nr,), ret + [nr])]
    handlers = {}
    for cons in viol:
        for cl in chain:
            if cl["target"] is None or cl["target"] == cons:
                handlers[cons] = cl
                break
    if not handlers:
        return "error"
    outs = []
    for cons, cl in handlers.items():
        old = viol[cons]
        if cl["action"] == "nothing":
            nw = (rows, ret + [None])
        else:
            wh = WHERES[cl["where"]]
            if wh is not None and ev(wh, old, new, params) is not True:
                nw = (rows, ret + [None])
            else:
                upd = dict(old)
                for col, _, ast in SETS_ALL[cl["set"]]:
                    val = ev(ast, old, new, params)
                    if variant == "bx" and col == "v" and ast[0] in ("lit", "param") and val is not None:
                        val += BX_OFF  # a Python value bound against the column passes bind_expression()
                    upd[col] = val
                nrows = tuple(upd if r is old else r for r in rows)
                # the update itself must not break uniqueness (we never assign id / k; w may change under the partial index)
                if variant == "partial" and upd["w"] == 0 and any(r is not upd and r["k"] == upd["k"] and r["w"] == 0 for r in nrows):
                    return "error"
                nw = (nrows, ret + [upd])
        if not any(_canon_world(nw) == _canon_world(o) for o in outs):
            outs.append(nw)
    return outs


def _canon_rows(rows):
    return sorted((tuple(r[c] for c in COLS) for r in rows), key=repr)


def _canon_world(w):
    return (_canon_rows(w[0]), [None if r is None else tuple(r[c] for c in COLS) for r in w[1]])


def model_run(existing, plist, pparams, chain, variant):
    """-> ('ok', [worlds]) | ('error', index of failing row, worlds before)"""
    worlds = [(tuple(dict(r) for r in existing), [])]
    if variant == "bx":
        plist = [dict(p, v=p["v"] + BX_OFF) for p in plist]  # inserted values pass bind_expression()
    for i, (new, prm) in enumerate(zip(plist, pparams)):
        nxt = []
        err = 0
        for w in worlds:
            res = model_apply(w, new, prm, chain, variant)
            if res == "error":
                err += 1
                continue
            for o in res:
                if not any(_canon_world(o) == _canon_world(x) for x in nxt):
                    nxt.append(o)
        if err and not nxt:
            return ("error", i, worlds)
        if err:
            return ("either", i, worlds, nxt)  # some allowed worlds raise, some continue: not asserted
        worlds = nxt
    return ("ok", worlds)


# ------------------------------------------------------------------ data enumeration


def existing_sets():
    cells = [(i, k) for i in IDS for k in KS]
    out = [()]
    out += [(c,) for c in cells]
    out += [(a, b) for a, b in itertools.combinations(cells, 2) if a[0] != b[0] and a[1] != b[1]]
    res = []
    for s in out:
        res.append(tuple(dict(id=i, k=k, v=EXIST_VW[n][0], w=EXIST_VW[n][1]) for n, (i, k) in enumerate(s)))
    return res


def param_lists(maxlen):
    cells = [(i, k) for i in IDS for k in KS]
    for n in range(1, maxlen + 1):
        for combo in itertools.product(cells, repeat=n):
            yield tuple(dict(id=i, k=k, v=NEW_V[p], w=NEW_W[p]) for p, (i, k) in enumerate(combo))


def _pdict(new, pos, need_nv):
    d = dict(id=new["id"], k=new["k"], vk=new["v"], w=new["w"])
    if need_nv:
        d["nv"] = 700 + pos
    return d


def _needs_nv(chain):
    return any(cl["set"] == "param" for cl in chain)


# ------------------------------------------------------------------ statement builders


def build_insert(dialect, table, chain):
    ins = {"sqlite": sqlite_d.insert, "pg": pg_d.insert}[dialect](table)
    for cl in chain:
        kw = {}
        if cl["constraint"]:
            kw["constraint"] = cl["constraint"]
        elif cl["target"] is not None:
            kw["index_elements"] = [table.c[cl["target"]]] if cl["tstyle"] == "col" else [cl["target"]]
            if cl["index_where"]:
                kw["index_where"] = table.c.w == 0
        if cl["action"] == "nothing":
            ins = ins.on_conflict_do_nothing(**kw)
        else:
            set_ = {}
            for col, kstyle, ast in SETS_ALL[cl["set"]]:
                key = {"key": "vk" if col == "v" else col, "name": col, "col": table.c["vk" if col == "v" else col]}[kstyle]
                e = build_expr(ast, table, ins.excluded)
                set_[key] = ast[1] if ast[0] == "lit" else e
            wh = WHERES[cl["where"]]
            ins = ins.on_conflict_do_update(set_=set_, where=None if wh is None else build_expr(wh, table, ins.excluded), **kw)
    return ins


RET_COLS = ("id", "k", "vk", "w")


class Route:
    """one engine / raw connection per shard, statements built once per clause chain"""

    def __init__(self):
        self.engine = sa.create_engine("sqlite://", poolclass=StaticPool)
        MD.create_all(self.engine)
        self.conn = self.engine.connect()
        self.cache = {}

    def close(self):
        self.conn.close()
        self.engine.dispose()

    def reset(self, table, existing):
        c = self.conn
        c.exec_driver_sql("DELETE FROM %s" % table.name)
        if existing:
            c.exec_driver_sql("INSERT INTO %s (id, k, v, w) VALUES (?, ?, ?, ?)" % table.name, [(r["id"], r["k"], r["v"], r["w"]) for r in existing])

    def table_rows(self, table):
        return sorted((tuple(r) for r in self.conn.exec_driver_sql("SELECT id, k, v, w FROM %s" % table.name)), key=repr)


def run_sqlite(route, fam, existing, plist, mode, exec_opts=None, tag=""):
    """-> dict(error=..., rows=[...], returned=list or None, per_row=bool)
    exec_opts: execution options of the call (the cache-order sub-space passes compiled_cache=<its own dict>);
    tag: distinguishes separately built, same-shaped statement objects"""
    name, variant, chain, _ = fam
    table = TABLES[variant]
    key = ("sqlite", name, mode, tag)
    eo = exec_opts or {}
    st = route.cache.get(key)
    if st is None:
        ins = build_insert("sqlite", table, chain)
        if mode in ("rows_ret", "many_ret"):
            ins = ins.returning(*[table.c[c] for c in RET_COLS])
        elif mode == "many_ret_sorted":
            ins = ins.returning(*[table.c[c] for c in RET_COLS], sort_by_parameter_order=True)
        st = route.cache[key] = ins
    nv = _needs_nv(chain)
    params = [_pdict(p, i, nv) for i, p in enumerate(plist)]
    conn = route.conn
    route.reset(table, existing)
    out = dict(error=None, returned=None, failed_at=None)
    try:
        with warnings.catch_warnings():
            warnings.simplefilter("ignore")
            if mode in ("rows", "rows_ret"):
                ret = []
                for i, p in enumerate(params):
                    out["failed_at"] = i
                    r = conn.execute(st, p, execution_options=eo)
                    if mode == "rows_ret":
                        got = [tuple(x) for x in r.all()]
                        if len(got) > 1:
                            out["error"] = AssertionError("single execute returned %d rows" % len(got))
                            break
                        ret.append(got[0] if got else None)
                out["failed_at"] = None
                if mode == "rows_ret":
                    out["returned"] = ret
            else:
                r = conn.execute(st.execution_options(insertmanyvalues_page_size=2), params if len(params) > 1 else params[0], execution_options=eo)
                if mode != "many":
                    out["returned"] = [tuple(x) for x in r.all()]
    except sa_exc.DBAPIError as e:
        out["error"] = e
    except (sa_exc.SQLAlchemyError, KeyError, TypeError, AttributeError, IndexError) as e:
        out["error"] = e
    out["rows"] = route.table_rows(table)
    conn.rollback()
    return out


# ---- PostgreSQL text on SQLite

from sqlalchemy.dialects.postgresql.base import PGDialect as _PGBase  # noqa: E402

_PGD = _PGBase(paramstyle="named")  # no driver: plain PostgreSQL text, :name placeholders
_ONCONS = re.compile(r"ON CONFLICT ON CONSTRAINT (\w+)")


def _pg_text(sql):
    return _ONCONS.sub(lambda m: "ON CONFLICT (%s)" % CONSTRAINT_COLS[m.group(1)], sql)


def run_pg(route, fam, existing, plist, mode):
    name, variant, chain, _ = fam
    table = TABLES[variant]
    nv = _needs_nv(chain)
    params = [_pdict(p, i, nv) for i, p in enumerate(plist)]
    key = ("pg", name, mode)
    ent = route.cache.get(key)
    if ent is None:
        ins = build_insert("pg", table, chain)
        if mode in ("rows_ret", "many_ret"):
            ins = ins.returning(*[table.c[c] for c in RET_COLS])
        elif mode == "many_ret_sorted":
            ins = ins.returning(*[table.c[c] for c in RET_COLS], sort_by_parameter_order=True)
        with warnings.catch_warnings():
            warnings.simplefilter("ignore")
            comp = ins.compile(dialect=_PGD, column_keys=list(params[0]), for_executemany=mode.startswith("many"))
        ent = route.cache[key] = comp
    comp = ent
    conn = route.conn
    route.reset(table, existing)
    out = dict(error=None, returned=None, failed_at=None, not_executed=False)
    raw = conn.connection.driver_connection
    import sqlite3

    try:
        cps = [comp.construct_params(p, escape_names=False, _group_number=g) for g, p in enumerate(params, 1)]
        sql = _pg_text(str(comp))
        _imv = comp._insertmanyvalues
        nsc = _imv.num_sentinel_columns if (_imv is not None and _imv.sentinel_columns) else 0  # CursorResult strips these

        def trim(rows_):
            return [tuple(x)[: len(x) - nsc] for x in rows_]

        if mode in ("rows", "rows_ret") or comp._insertmanyvalues is None or len(params) == 1:
            ret = []
            for i, cp in enumerate(cps):
                out["failed_at"] = i
                cur = raw.execute(sql, cp)
                got = trim(cur.fetchall()) if cur.description else []
                ret.append(got[0] if got else None)
            out["failed_at"] = None
            if mode != "rows" and mode != "many":
                out["returned"] = ret if mode in ("rows_ret", "many_ret_sorted") else [r for r in ret if r is not None]
                out["per_row"] = True
        else:
            imv = comp._insertmanyvalues
            sorted_req = imv.sort_by_parameter_order and bool(comp.effective_returning)
            ret = []
            for b in comp._deliver_insertmanyvalues_batches(str(comp), cps, cps, None, 2, sorted_req, None):
                cur = raw.execute(_pg_text(b.replaced_statement), b.replaced_parameters)
                got = trim(cur.fetchall()) if cur.description else []
                if sorted_req and len(b.batch) == 1:
                    ret.append(got[0] if got else None)
                else:
                    ret.extend(got)
                out["batched"] = out.get("batched", False) or len(b.batch) > 1
            if mode != "many":
                out["returned"] = ret
                out["per_row"] = sorted_req
    except sqlite3.IntegrityError as e:
        out["error"] = e
    except sqlite3.OperationalError as e:
        out["not_executed"] = str(e)
    except (sa_exc.SQLAlchemyError, KeyError, TypeError, AttributeError, IndexError) as e:
        out["error"] = e
    out["rows"] = route.table_rows(table)
    conn.rollback()
    return out


# ------------------------------------------------------------------ oracle


def judge(fam, existing, plist, mode, obs, route_name):
    """-> list of (kind, detail)"""
    name, variant, chain, _ = fam
    nv = _needs_nv(chain)
    pparams = [dict(nv=700 + i) if nv else {} for i in range(len(plist))]
    res = model_run(existing, plist, pparams, chain, variant)
    if obs["error"] is not None and "can't be used with executemany" in str(obs["error"]):
        # one root cause, one signature (see _sig): the SQLite dialect renders index_where binds as literal_execute
        return [("index_where-refused-by-executemany", "%s: %s" % (type(obs["error"]).__name__, str(obs["error"])[:400]))]
    if res[0] == "either":
        return []  # engine-order dependent error: not asserted
    if res[0] == "error":
        if obs["error"] is None:
            return [("missing-error", "model: parameter row %d violates a constraint no clause covers; statement succeeded, table %r" % (res[1], obs["rows"]))]
        if not _is_integrity(obs["error"]):
            return [("unexpected-error", "%s: %s" % (type(obs["error"]).__name__, str(obs["error"])[:300]))]
        if mode in ("rows", "rows_ret") and obs.get("failed_at") != res[1]:
            return [("error-at-wrong-row", "model fails at row %d, execution failed at row %r" % (res[1], obs.get("failed_at")))]
        return []
    if obs["error"] is not None:
        return [("unexpected-error", "%s: %s" % (type(obs["error"]).__name__, str(obs["error"])[:300]))]
    worlds = res[1]
    sorted_ret = mode in ("rows_ret", "many_ret_sorted") or obs.get("per_row")
    problems = []
    for w in worlds:
        rows, ret = _canon_world(w)
        if obs["rows"] != rows:
            problems.append(("table-state", "table %r, model %r" % (obs["rows"], rows)))
            continue
        if obs["returned"] is not None:
            if sorted_ret and len(obs["returned"]) == len(ret):
                if list(obs["returned"]) != ret:
                    problems.append(("returning-order", "RETURNING %r, affected rows in parameter order %r" % (obs["returned"], ret)))
                    continue
            else:
                got = [r for r in obs["returned"] if r is not None]
                want = [r for r in ret if r is not None]
                if sorted_ret and mode == "many_ret_sorted":
                    if got != want:
                        problems.append(("returning-order", "RETURNING %r, affected rows in parameter order %r" % (got, want)))
                        continue
                elif sorted(got, key=repr) != sorted(want, key=repr):
                    problems.append(("returning-rows", "RETURNING %r, affected rows %r" % (got, want)))
                    continue
        return []
    # no world matched: report the mismatch against the first world
    return problems[:1]


def _is_integrity(e):
    import sqlite3

    if isinstance(e, sqlite3.IntegrityError):
        return True
    return isinstance(e, sa_exc.IntegrityError)


# ------------------------------------------------------------------ MySQL: parse + interpret

_MYD = {}


def _mysql_dialect(alias):
    if alias not in _MYD:
        d = mysql_d.dialect()
        d._requires_alias_for_on_duplicate_key = alias
        _MYD[alias] = d
    return _MYD[alias]


MYSQL_FAMILY = [
    # name, update argument builder kind, list of (col, ast) in the documented evaluation order
    ("exc", "dict", [("v", ("exc", "v"))]),
    ("lit", "dict", [("v", ("lit", 999))]),
    ("sum", "dict", [("v", ("add", ("col", "v"), ("exc", "v")))]),
    ("two", "dict", [("v", ("exc", "v")), ("w", ("add", ("exc", "w"), ("lit", 1)))]),
    ("kwargs", "kwargs", [("v", ("exc", "v")), ("w", ("exc", "w"))]),
    ("w_from_inserted_v", "dict", [("w", ("exc", "v"))]),
    # dict: rendered in table column order (v before w) -> w sees the NEW v
    ("dict_w_from_v", "dict_rev", [("v", ("exc", "v")), ("w", ("col", "v"))]),
    # list of tuples: rendered as given (w first) -> w sees the OLD v
    ("ordered_w_from_v", "list", [("w", ("col", "v")), ("v", ("exc", "v"))]),
    ("ordered_v_then_w", "list", [("v", ("add", ("col", "v"), ("lit", 1))), ("w", ("add", ("col", "v"), ("exc", "w")))]),
    ("ccoll", "ccoll", [("id", ("exc", "id")), ("k", ("exc", "k")), ("v", ("exc", "v")), ("w", ("exc", "w"))]),
]


def build_mysql(table, fam):
    name, style, assigns = fam
    ins = mysql_d.insert(table)
    ck = lambda c: "vk" if c == "v" else c  # noqa: E731
    pairs = [(ck(c), (ast[1] if ast[0] == "lit" else build_expr(ast, table, ins.inserted))) for c, ast in assigns]
    if style == "dict":
        return ins.on_duplicate_key_update(dict(pairs))
    if style == "dict_rev":
        return ins.on_duplicate_key_update(dict(reversed(pairs)))
    if style == "kwargs":
        return ins.on_duplicate_key_update(**dict(pairs))
    if style == "list":
        return ins.on_duplicate_key_update(pairs)
    if style == "ccoll":
        return ins.on_duplicate_key_update(ins.inserted)
    raise AssertionError(style)


class MyParseError(Exception):
    pass


_TOK = re.compile(r"\s*(?:(?P<ph>%s)|(?P<values>VALUES\((?P<vcol>\w+)\))|(?P<dotted>(?P<tbl>\w+)\.(?P<dcol>\w+))|(?P<num>\d+)|(?P<name>\w+)|(?P<op>[+(),=]))")


def parse_mysql(sql):
    """INSERT INTO t (cols) VALUES (%s, ..) [AS alias] ON DUPLICATE KEY UPDATE c = expr, ...
    -> (cols, n_value_placeholders, alias, [(col, ast)]) ; placeholders are numbered in statement order"""
    m = re.match(r"^INSERT INTO (\w+) \(([^)]*)\) VALUES \(([^)]*)\)(?: AS (\w+))? ON DUPLICATE KEY UPDATE (.*)$", sql.strip(), re.S)
    if not m:
        raise MyParseError("statement shape: %r" % sql)
    tname, cols, vals, alias, rest = m.groups()
    cols = [c.strip().strip("`") for c in cols.split(",")]
    vals = [v.strip() for v in vals.split(",")]
    if any(v != "%s" for v in vals) or len(vals) != len(cols):
        raise MyParseError("VALUES list %r for columns %r" % (vals, cols))
    nph = [len(vals)]
    toks = []
    pos = 0
    while pos < len(rest):
        mm = _TOK.match(rest, pos)
        if not mm or mm.end() == pos:
            if rest[pos:].strip() == "":
                break
            raise MyParseError("cannot read %r" % rest[pos:])
        toks.append(mm)
        pos = mm.end()
    i = [0]

    def peek():
        return toks[i[0]] if i[0] < len(toks) else None

    def take():
        t = toks[i[0]]
        i[0] += 1
        return t

    def term():
        t = take()
        if t.group("ph"):
            nph[0] += 1
            return ("ph", nph[0] - 1)
        if t.group("values"):
            if alias:
                raise MyParseError("VALUES() used together with a row alias")
            return ("exc", t.group("vcol"))
        if t.group("dotted"):
            if t.group("tbl") == alias:
                return ("exc", t.group("dcol"))
            if t.group("tbl") == tname:
                return ("col", t.group("dcol"))
            raise MyParseError("unknown qualifier %r" % t.group("tbl"))
        if t.group("num"):
            return ("lit", int(t.group("num")))
        if t.group("name"):
            return ("col", t.group("name"))
        if t.group("op") == "(":
            e = expr()
            c = take()
            if c.group("op") != ")":
                raise MyParseError("expected )")
            return e
        raise MyParseError("unexpected %r" % t.group(0))

    def expr():
        e = term()
        while peek() is not None and peek().group("op") == "+":
            take()
            e = ("add", e, term())
        return e

    assigns = []
    while peek() is not None:
        t = take()
        col = t.group("name")
        if not col:
            raise MyParseError("expected column name, got %r" % t.group(0))
        eq = take()
        if eq.group("op") != "=":
            raise MyParseError("expected =")
        assigns.append((col, expr()))
        if peek() is not None:
            c = take()
            if c.group("op") != ",":
                raise MyParseError("expected , got %r" % c.group(0))
    return cols, nph[0], alias, assigns


def mysql_interpret(existing, rows_values, cols, assigns, phvals_per_row):
    """MySQL semantics on the model: returns set of canonical final tables (several if two rows conflict)"""
    worlds = [tuple(dict(r) for r in existing)]
    for vals, phv in zip(rows_values, phvals_per_row):
        new = dict(zip(cols, vals))
        nxt = []
        for rows in worlds:
            conf = []
            for r in rows:
                if r["id"] == new.get("id") or r["k"] == new.get("k"):
                    conf.append(r)
            if not conf:
                full = {c: new.get(c) for c in COLS}
                cand = [rows + (full,)]
            else:
                cand = []
                for old in conf:
                    upd = dict(old)
                    for col, ast in assigns:
                        upd[col] = _my_ev(ast, upd, new, phv)  # left to right: sees earlier assignments
                    cand.append(tuple(upd if r is old else r for r in rows))
            for c in cand:
                if not any(_canon_rows(c) == _canon_rows(x) for x in nxt):
                    nxt.append(c)
        worlds = nxt
    return sorted((_canon_rows(w) for w in worlds), key=repr)


def _my_ev(ast, cur, new, phv):
    if ast[0] == "ph":
        return phv[ast[1]]
    if ast[0] == "lit":
        return ast[1]
    if ast[0] == "exc":
        return new[ast[1]]
    if ast[0] == "col":
        return cur[ast[1]]
    a, b = _my_ev(ast[1], cur, new, phv), _my_ev(ast[2], cur, new, phv)
    return None if a is None or b is None else a + b


def mysql_case(fam, alias, existing, plist, comp_cache):
    """-> problems"""
    name, style, assigns = fam
    key = (name, alias)
    if key not in comp_cache:
        st = build_mysql(T_PLAIN, fam)
        with warnings.catch_warnings():
            warnings.simplefilter("ignore")
            comp = st.compile(dialect=_mysql_dialect(alias), column_keys=["id", "k", "vk", "w"])
        try:
            parsed = parse_mysql(str(comp))
        except MyParseError as e:
            parsed = e
        comp_cache[key] = (comp, parsed)
    comp, parsed = comp_cache[key]
    if isinstance(parsed, MyParseError):
        return [("mysql-unreadable", "%s\n%s" % (parsed, comp))]
    cols, nph, al, passigns = parsed
    if bool(al) != bool(alias):
        return [("mysql-alias-form", "dialect requires alias=%r but statement is %s" % (alias, comp))]
    phs = []
    for i, p in enumerate(plist):
        cp = comp.construct_params(_pdict(p, i, False), escape_names=False)
        seq = [cp[k] for k in comp.positiontup]
        if len(seq) != nph:
            return [("mysql-placeholder-count", "%d placeholders, %d parameters: %s" % (nph, len(seq), comp))]
        phs.append(seq)
    rows_values = [seq[: len(cols)] for seq in phs]
    # names in SQL are column *names*
    got = mysql_interpret(existing, rows_values, cols, passigns, phs)
    want = mysql_interpret(existing, [[p[c] for c in COLS] for p in plist], list(COLS), [(c, a) for c, a in assigns], [[] for _ in plist])
    if got != want:
        return [("mysql-meaning", "rendered statement means %r, construct says %r\n%s" % (got, want, comp))]
    return []


# ------------------------------------------------------------------ cache-order sub-space (sqlite route, compiled cache)
# History shape: on ONE compiled cache a statement with SET value x is compiled first (for every parameter shape the
# mode uses), then separately built same-shaped statements with SET value y are executed for every data point.  Every
# execution is judged by the model, and its observation must equal that of the same statement on a fresh cache.

PAIR_SHAPES = {
    # name -> (target, set shape, where, extra trailing clause)
    "DU(k,lit=*,none)": ("k", "lit", "none", None),
    "DU(k,lit=*,gt)": ("k", "lit", "gt", None),
    "DU(id,lit=*,w0)": ("id", "lit", "w0", None),
    "DU(id,lit2=*,none)": ("id", "lit2", "none", None),
    "DU(k,lit=*,none)+DN(id)": ("k", "lit", "none", "id"),
}


def pair_fam(shape, val):
    tgt, sshape, wname, extra = PAIR_SHAPES[shape]
    sname = "%s=%r" % (sshape, val)
    chain = [dict(action="update", target=tgt, set=sname, where=wname, index_where=False, constraint=None, tstyle="col")]
    if extra:
        chain.append(dict(action="nothing", target=extra, set=None, where=None, index_where=False, constraint=None, tstyle="col"))
    return (shape.replace("=*", "=%r" % (val,)), "plain", chain, ("sqlite",))


def _first_repr(first):
    return "fresh" if first == "fresh" else "set_ v=%r" % (first,)


def warm_cache(route, shape, first, mode):
    """-> compiled cache in which the statement with SET value `first` was compiled first for both parameter shapes of `mode`"""
    cache = {}
    if first == "fresh":
        return cache
    fam = pair_fam(shape, first)
    one = (dict(id=1, k=10, v=NEW_V[0], w=NEW_W[0]),)
    two = one + (dict(id=2, k=20, v=NEW_V[1], w=NEW_W[1]),)
    for plist in (one, two):
        if mode.startswith("many") and len(plist) == 1 and mode != "many_ret":
            continue
        obs = run_sqlite(route, fam, (), plist, mode, exec_opts={"compiled_cache": cache}, tag="warm")
        if obs["error"] is not None:
            raise AssertionError("warm-up failed: %r" % (obs["error"],))
    return cache


def _obs_key(obs, mode):
    """what the property speaks about: an error or not (the table inside the failed, not yet rolled back transaction is
    not asserted - a batched and a row-at-a-time executemany legitimately differ there), final table, RETURNING rows (a
    multiset unless parameter order was requested)"""
    if obs["error"] is not None:
        return (type(obs["error"]).__name__, None, None)
    ret = obs["returned"]
    if ret is not None and mode == "many_ret":
        ret = sorted(ret, key=repr)
    return (None, obs["rows"], ret)


def pair_case(route, shape, first, val, existing, plist, mode, cache):
    """-> (fam, obs, problems): statement with SET value `val` on `cache` (None: fresh) vs model and vs a fresh cache"""
    fam = pair_fam(shape, val)
    obs = run_sqlite(route, fam, existing, plist, mode, exec_opts={"compiled_cache": {} if cache is None else cache})
    probs = judge(fam, existing, plist, mode, obs, "sqlite")
    if cache is not None:
        ref = run_sqlite(route, fam, existing, plist, mode, exec_opts={"compiled_cache": {}})
        if _obs_key(ref, mode) != _obs_key(obs, mode):
            probs = [("cache-order-dependence", "first compiled on the cache: %s; this statement (set_ v=%r) on that cache -> error=%r table=%r returning=%r; "
                      "on a fresh cache -> error=%r table=%r returning=%r" % ((_first_repr(first), val) + _obs_key(obs, mode) + _obs_key(ref, mode)))]
    return fam, obs, probs


# ------------------------------------------------------------------ driver

MODES = ("rows", "rows_ret", "many", "many_ret", "many_ret_sorted")


def shards(tier, seed):
    out = []
    for f in FAMILY:
        for d in f[3]:
            out.append([d, f[0]])
    for f in MYSQL_FAMILY:
        out.append(["mysql", f[0]])
    for shape in PAIR_SHAPES:
        for first in FIRSTS:
            out.append(["sqlite-cache", shape, first])
    return out


FIRSTS = (None, 7)  # SET value of the statement compiled first on the shared cache (JSON-able); every case also runs on a fresh cache


def _conflicting(existing, plist):
    seen = [(r["id"], r["k"]) for r in existing]
    for p in plist:
        if any(p["id"] == i or p["k"] == k for i, k in seen):
            return True
        seen.append((p["id"], p["k"]))
    return False


def _case(route_name, fname, existing, plist, mode):
    return dict(route=route_name, clause=fname, existing=[[r["id"], r["k"]] for r in existing], params=[[p["id"], p["k"]] for p in plist], mode=mode)


def _sig(kind, c):
    if c["route"] == "sqlite-cache":
        return "%s: route=sqlite first-on-cache=%s clause=%s mode=%s existing=%s params=%s" % (kind, _first_repr(c["first"]), c["clause"], c["mode"], c["existing"], c["params"])
    if kind == "index_where-refused-by-executemany":
        return "%s: route=%s any ON CONFLICT clause with index_where=<expression with a bound value>, >=2 parameter sets" % (kind, c["route"])
    return "%s: route=%s clause=%s mode=%s existing=%s params=%s" % (kind, c["route"], c["clause"], c["mode"], c["existing"], c["params"])


def _from_case(c):
    existing = tuple(dict(id=i, k=k, v=EXIST_VW[n][0], w=EXIST_VW[n][1]) for n, (i, k) in enumerate(c["existing"]))
    plist = tuple(dict(id=i, k=k, v=NEW_V[p], w=NEW_W[p]) for p, (i, k) in enumerate(c["params"]))
    return existing, plist


def run_shard(shard, tier, rec):
    if shard[0] == "sqlite-cache":
        return run_pair_shard(shard, tier, rec)
    dname, fname = shard
    maxlen = 2 if tier == "quick" else 3
    exs = existing_sets()
    if dname == "mysql":
        fam = [f for f in MYSQL_FAMILY if f[0] == fname][0]
        cache = {}
        for alias in (False, True):
            for existing in exs:
                for plist in param_lists(3):  # model-interpreted, cheap: 3-row lists in both tiers
                    probs = mysql_case(fam, alias, existing, plist, cache)
                    rec.outcome(("mysql", fname, len(existing), tuple((p["id"], p["k"]) for p in plist[:2])))
                    c = _case("mysql-alias" if alias else "mysql-values", fname, existing, plist, "model")
                    nt = _conflicting(existing, plist)
                    rec.case((c["route"], fname, repr(c["existing"]), repr(c["params"])), nontrivial=nt)
                    for kind, detail in probs:
                        rec.violation(_sig(kind, c), detail, c, kind=(kind, c["route"]))
            comp = cache.get((fname, alias))
            if comp:
                rec.sample(dict(route="mysql (parsed + interpreted)", clause=fname, alias_form=alias, statement=str(comp[0])), limit=2)
        return
    fam = FAMILY_BY_NAME[fname]
    route = Route()
    runner = run_sqlite if dname == "sqlite" else run_pg
    try:
        for existing in exs:
            for plist in param_lists(maxlen):
                nt = _conflicting(existing, plist)
                for mode in MODES:
                    if mode.startswith("many") and len(plist) == 1 and mode != "many_ret":
                        continue
                    obs = runner(route, fam, existing, plist, mode)
                    c = _case(dname, fname, existing, plist, mode)
                    if obs.get("not_executed"):
                        rec.count("pg_not_executable_on_sqlite")
                        rec.note("PostgreSQL text rejected by SQLite for clause %s: %s" % (fname, obs["not_executed"]))
                        continue
                    probs = judge(fam, existing, plist, mode, obs, dname)
                    rec.case((dname, fname, repr(c["existing"]), repr(c["params"]), mode), nontrivial=nt)
                    rec.outcome((dname, fname, mode, "error" if obs["error"] else len([r for r in (obs["returned"] or []) if r is not None]), len(obs["rows"])))
                    if obs.get("batched"):
                        rec.count("pg_batches_executed")
                    for kind, detail in probs:
                        rec.violation(_sig(kind, c), detail, c, kind=(kind, dname) if kind.startswith("index_where") else (kind, dname, mode))
                    if nt and not probs and len(plist) == 2 and len(existing) == 2 and mode == "many_ret_sorted" and plist[0]["k"] == plist[1]["k"]:
                        rec.sample(dict(route=dname, clause=fname, existing=c["existing"], params=c["params"], mode=mode, table_after=obs["rows"], returned=obs["returned"]), limit=1)
    finally:
        route.close()


def run_pair_shard(shard, tier, rec):
    _, shape, first = shard
    exs = [e for e in existing_sets() if len(e) <= (1 if tier == "quick" else 2)]
    route = Route()
    try:
        caches = {mode: (None if first == "fresh" else warm_cache(route, shape, first, mode)) for mode in MODES}
        warm_sizes = {mode: (0 if c is None else len(c)) for mode, c in caches.items()}
        for existing in exs:
            for plist in param_lists(2):
                nt = _conflicting(existing, plist)
                for mode in MODES:
                    if mode.startswith("many") and len(plist) == 1 and mode != "many_ret":
                        continue
                    for val in LITV:
                        fam, obs, probs = pair_case(route, shape, first, val, existing, plist, mode, caches[mode])
                        c = _case("sqlite-cache", shape, existing, plist, mode)
                        c["first"] = first
                        c["value"] = val
                        c["clause"] = fam[0]
                        rec.case(("sqlite-cache", shape, repr(first), repr(val), repr(c["existing"]), repr(c["params"]), mode), nontrivial=nt)
                        rec.outcome(("sqlite-cache", shape, mode, repr(val), "error" if obs["error"] else len([r for r in (obs["returned"] or []) if r is not None]), len(obs["rows"])))
                        for kind, detail in probs:
                            rec.violation(_sig(kind, c), detail, c, kind=(kind, "sqlite-cache", mode))
        # same-shapedness is measured, not assumed: every later statement must have hit an entry compiled during warm-up
        grown = sum(len(c) - warm_sizes[m] for m, c in caches.items() if c is not None)
        if first != "fresh":
            rec.count("cache_entries_from_warmup", sum(warm_sizes.values()))
            rec.count("cache_entries_added_after_warmup", grown)
            if grown:
                rec.note("cache-order sub-space: %d statements were NOT same-shaped with the first compiled one (shape %s)" % (grown, shape))
    finally:
        route.close()


def replay_pair(case):
    existing, plist = _from_case(case)
    shape = [sh for sh in PAIR_SHAPES if pair_fam(sh, case["value"])[0] == case["clause"]][0]
    route = Route()
    try:
        cache = None if case["first"] == "fresh" else warm_cache(route, shape, case["first"], case["mode"])
        _, _, probs = pair_case(route, shape, case["first"], case["value"], existing, plist, case["mode"], cache)
    finally:
        route.close()
    return [(_sig(k, case), d) for k, d in probs]


def replay(case):
    if case["route"] == "sqlite-cache":
        return replay_pair(case)
    existing, plist = _from_case(case)
    if case["route"].startswith("mysql"):
        fam = [f for f in MYSQL_FAMILY if f[0] == case["clause"]][0]
        probs = mysql_case(fam, case["route"] == "mysql-alias", existing, plist, {})
        return [(_sig(k, case), d) for k, d in probs]
    fam = FAMILY_BY_NAME[case["clause"]]
    route = Route()
    try:
        runner = run_sqlite if case["route"] == "sqlite" else run_pg
        obs = runner(route, fam, existing, plist, case["mode"])
        if obs.get("not_executed"):
            return []
        probs = judge(fam, existing, plist, case["mode"], obs, case["route"])
    finally:
        route.close()
    return [(_sig(k, case), d) for k, d in probs]
