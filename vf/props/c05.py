"""C05 literal rendering is equivalent to binding and cannot inject SQL (engine I).

Enumerated values: every string of length <=3 (quick) / <=4 (thorough) over
``' " \\ % : ; - a space e-acute newline`` plus a few idioms; ints at 0, +-1,
+-2**31, +-(2**63-1), -2**63; floats; Decimals of scale 0..4; dates, times,
datetimes at min / max / leap day / microseconds; booleans; None of each type.
Each value is placed in every clause position (select list, WHERE comparison,
IN list, INSERT VALUES, CASE, concatenation, text() bind, LIMIT/OFFSET for
ints, DDL server default and CHECK constraint for strings).

Value kinds beyond the plain types (the literal is a string literal, the value / rendering route is not String's):
  tagobj    TypeDecorator over String whose process_bind_param() turns an application object (Tag) into text: the
            Python value handed to render_literal_value() is NOT a str.  Every Tag(s), s a string <=2 over the
            alphabet + idioms; all positions, executed (4 paramstyles) and lexed (14 dialect configurations).
  jsonpath  a JSON path given as a (key, index) tuple (JSON.JSONPathType bind and ``col[(key, index)]``), lexed on
            every dialect that renders JSON paths; the literal must decode to exactly what the type's own bind
            processor sends on the bound route.
  bindexpr  a type with bind_expression() (``lower(<value>)`` around every element).  Strings over the alphabet of
            the list / wrapper syntax itself ``' , space ( ) a`` of length <=3 (thorough <=4), in every
            position incl. IN / NOT IN lists; the alphabet strings are rows of the table so IN / NOT IN discriminate.
            Executed on SQLite (literal_binds, literal_execute, render_postcompile vs bound); lexed (literal_binds,
            <=2 + idioms such as ``'), lower('``).
A failure class that the plain str of the same text shows too is String's (already reported) defect and is not
reported again under these kinds.

Oracles (differential between the routes the property names):

X  SQLite, executed.  Four engines that differ only in DBAPI paramstyle
   (qmark, named, and `format` / `pyformat` through a thin proxy over sqlite3
   that applies Python %-formatting exactly as MySQLdb / psycopg2 do, so
   %-doubling is really exercised):
   * rows of the statement with ``literal_execute=True`` parameters
     == rows of the statement with ordinary bound parameters;
   * rows of the ``literal_binds`` string and of the ``render_postcompile``
     string, run through ``exec_driver_sql``, == rows of the bound statement's
     own SQL + processed parameters run through ``exec_driver_sql`` (captured
     with the public ``before_cursor_execute`` event);
   * a literal used as DDL server default is read back equal to the same
     value inserted through a bound parameter, and a CHECK constraint
     ``col = <literal>`` accepts exactly that bound value.
S  Every dialect variant (postgresql psycopg2 / asyncpg / pg8000 with
   standard_conforming_strings on and off, mysql mysqldb / mysqlconnector with
   and without NO_BACKSLASH_ESCAPES, mariadb, mssql pyodbc / pymssql, oracle,
   sqlite, default), compile only: the ``literal_binds`` / ``render_postcompile``
   rendering -- after the %-formatting of a format/pyformat DBAPI -- is
   tokenised by that backend's reference lexer (vf.models.sqllex_ref); the
   token *shape* must equal the shape obtained with a benign value of the same
   type, and decoding the literal token(s) must give back the value.

Failing values are reduced to the minimal failing value (characters deleted or
replaced by ``a``) of the same failure class; signatures name dialect variant,
position, mode and that minimal value.

Findings on the unchanged tree (reported; stable signatures):
  * ``text(":x")`` with a literal_binds value containing ``\\:`` -- visit_textclause
    un-escapes ``\\:`` in the *rendered* value too, so ``'\\:'`` becomes ``':'``
    (proposed_fixes/c05_text_literal_backslash_colon.diff)
  * a literal_binds value containing ``%(name)s`` is rewritten by the positional
    post-processing (``'?'`` on qmark, ``'%s'`` on format, KeyError on numeric_dollar)
  * IN list of a type with bind_expression() on the literal_execute / render_postcompile route: the wrapper is
    re-applied by ``expr.split(", ")`` on the already rendered literals (SQLCompiler._process_parameters_for_postcompile
    .process_expanding), an element containing ``, `` is cut inside its quoted literal -> rows differ from bound
    (``exec sqlite: bindexpr value ', ': literal_execute-rows-differ; render_postcompile-rows-differ``;
    proposed_fixes/c05_literal_execute_bind_expression_split.diff)

Mutations caught (each in a private copy, VF_REPO=/tmp/wt-strings/<m>):
  * String.literal_processor: ``'`` doubling dropped -> exec raises / rows differ on every value with ``'``
  * MySQL render_literal_value: backslash doubling removed -> ``lex mysql+mysqldb: string value '\\'``
  * PostgreSQL render_literal_value: backslash doubling applied unconditionally -> ``lex postgresql+psycopg2: string value '\\'``
  * String.literal_processor: ``%`` doubling for every paramstyle -> ``exec sqlite: string value '%'`` (qmark / named)
  * pymssql preparer ``_double_percents = False`` removed -> ``lex mssql+pymssql: string value '%'``
  * seeded C05-a, MySQL render_literal_value doubles backslashes only ``if isinstance(value, str)`` ->
    ``lex mysql+mysqldb: tagobj value Tag('\\')`` / ``jsonpath value ('\\', 1)`` (mysqlconnector, mariadb alike)
  * seeded C05-b, literal_binds IN list of a bind_expression() type wrapped by splitting the rendered list on ``, `` ->
    ``exec sqlite: bindexpr value ', ': literal_binds-rows-differ; ...`` and ``lex <every dialect>: bindexpr value ', '``
"""
import datetime as dt
import decimal
import itertools
import sqlite3
import types
import warnings

import sqlalchemy as sa
from sqlalchemy import event
from sqlalchemy.pool import StaticPool

from ..models import sqllex_ref as L

ID = "C05"
LEVEL = "exploration"
META = dict(
    engine="I",
    technique="exhaustive small-scope enumeration of literal values x clause positions x rendering modes; differential execution "
    "(literal vs bound) on SQLite under four paramstyles; reference string-literal lexer for the other backends",
    design_ref="DESIGN.md §5 C05",
    level_text="Every value within the bound is rendered inline by the real compiler in every clause position and the statement is "
    "executed on SQLite next to its bound-parameter twin (four DBAPI paramstyles, so quote doubling and %-doubling are both really "
    "executed); for the backends that cannot run here the rendered statement is read by a reference lexer of that backend's literal "
    "grammar and must have the same token shape as with a benign value and decode to the value. The same is done for three kinds whose literal "
    "is a string literal although the value is not a str or the rendering takes another route: a TypeDecorator turning an object into text, "
    "a JSON path tuple, and a type with bind_expression() whose IN-list elements range over the list syntax's own alphabet (quote, comma, "
    "space, parentheses). Complete for the bound.",
    level_note="Trusted: vf.models.sqllex_ref (validated against SQLite and against libmysqlclient / libpq(psycopg) / pymssql encoders "
    "at run time) and the 30-line %-formatting proxy over sqlite3. PostgreSQL / MySQL / SQL Server / Oracle are judged by grammar, not executed.",
    rule="case = (family, dialect variant or paramstyle, value); each case runs every position x mode. non-trivial = the value contains a "
    "character that is special in some literal grammar (quote, backslash, percent, colon, semicolon, dash, newline, non-ASCII) or is a "
    "boundary number / temporal value / None; for the bind_expression() kind also comma and parentheses",
    assumptions=[
        "a format / pyformat DBAPI applies Python %-formatting to the statement whenever it is executed (MySQLdb semantics); pg8000, pymssql and mysqlconnector do not (as their dialects state)",
        "backends read string literals as described in vf.models.sqllex_ref (standard_conforming_strings / NO_BACKSLASH_ESCAPES both ways)",
        "values contain no NUL; floats are finite",
    ],
    bounds=dict(
        quick="strings <=3 over 11 chars + idioms (1.5k), 45 non-string values; 9 positions x 3 literal modes x 4 paramstyles executed; 14 dialect configurations lexed; "
        "plus object-valued TypeDecorator (160 values, executed + lexed), JSON path tuples (159, lexed), bind_expression() type with strings <=3 over 6 list-syntax chars (258 executed, <=2 + idioms: 48 lexed)",
        thorough="strings <=4 over 11 chars + idioms (16k), 45 non-string values; 9 positions x 3 literal modes x 4 paramstyles executed; 14 dialect configurations lexed; "
        "plus object-valued TypeDecorator (160 values, executed + lexed), JSON path tuples (159, lexed), bind_expression() type with strings <=4 over 6 list-syntax chars (1554 executed, <=2 + idioms: 48 lexed)",
    ),
)

ALPHA = ["'", '"', "\\", "%", ":", ";", "-", "a", " ", "é", "\n"]
_ORDER = {ch: i for i, ch in enumerate(ALPHA)}
_ORDER_A = dict(_ORDER)
SPECIAL = set(ALPHA) - {"a", " "}
IDIOMS = ["'; DROP TABLE t; --", "a' OR 'a'='a", "%s", "%(x)s", "%%", ":x", "\\'", "\\\\", "''", "x'||'y", "/*", "*/", "a\\", "\\a", "$$", "E'a'", "N'a'", "\\%", "\\_", "?", "$1", "@a", "{a}", "a\tb", "\r", "\x1a", "\x08"]


def strings_upto(n):
    out = [""]
    for k in range(1, n + 1):
        out.extend("".join(t) for t in itertools.product(ALPHA, repeat=k))
    return out


def string_values(tier):
    return strings_upto(3 if tier == "quick" else 4) + IDIOMS


D = decimal.Decimal
OTHER_VALUES = [
    ("int", v)
    for v in (0, 1, -1, 2, 7, 2**31 - 1, 2**31, -(2**31), -(2**31) - 1, 2**63 - 1, -(2**63 - 1), -(2**63))
] + [("float", v) for v in (0.0, -0.5, 1.5, 1e-7, 1e22, -1e-7, 123456.789)] + [
    ("numeric", v) for v in (D("0"), D("-1"), D("1.5"), D("-0.25"), D("3.1415"), D("1.0000"), D("12345678.9012"), D("0.0001"))
] + [
    ("date", v) for v in (dt.date(1, 1, 1), dt.date(9999, 12, 31), dt.date(2024, 2, 29), dt.date(1970, 1, 1))
] + [
    ("datetime", v)
    for v in (dt.datetime(1, 1, 1, 0, 0, 0), dt.datetime(9999, 12, 31, 23, 59, 59, 999999), dt.datetime(2024, 2, 29, 12, 30, 45, 1), dt.datetime(2000, 1, 1, 0, 0, 0))
] + [
    ("time", v) for v in (dt.time(0, 0, 0), dt.time(23, 59, 59, 999999), dt.time(12, 30, 45, 1))
] + [
    ("bool", True),
    ("bool", False),
] + [
    (k, None) for k in ("string", "int", "float", "numeric", "date", "datetime", "time", "bool")
]

class Tag:
    """an application value object persisted as its text by TagType: the Python value is NOT a str although
    the rendered literal is a string literal"""

    __slots__ = ("text",)

    def __init__(self, text):
        self.text = text

    def __repr__(self):
        return "Tag(%r)" % (self.text,)

    def __eq__(self, other):
        return isinstance(other, Tag) and other.text == self.text

    def __hash__(self):
        return hash(("Tag", self.text))


class TagType(sa.types.TypeDecorator):
    """non-str Python value -> string literal (process_bind_param)"""

    impl = sa.String
    cache_ok = True

    def process_bind_param(self, value, dialect):
        return value.text if value is not None else None


class Lowered(sa.types.TypeDecorator):
    """a type with bind_expression(): every bound value / literal is wrapped in a SQL function"""

    impl = sa.String
    cache_ok = True

    def bind_expression(self, bindvalue):
        return sa.func.lower(bindvalue)


# kinds whose literal is a string literal although the value domain / rendering route is not that of String
OBJ_KINDS = ("tagobj", "bindexpr", "jsonpath")
# characters that are special to the IN-list / wrapper syntax itself (element separator, quote, parentheses)
BX_ALPHA = ["'", ",", " ", "(", ")", "a"]
BX_IDIOMS = ["x', 'y", "'), lower('", "a, b", "a,  b", ", , ", "\\, '"]
# the literal_execute / render_postcompile route of an IN list of a bind_expression() type: see finding in the docstring
BINDEXPR_LITERAL_EXECUTE = True


def bx_strings(n):
    """every string of length 1..n over BX_ALPHA: closed under the shrink steps of minimise(), so that the executed
    IN / NOT IN cases (which need the value to be a row of the table) always reduce to the minimal failing element"""
    out = []
    for k in range(1, n + 1):
        out.extend("".join(t) for t in itertools.product(BX_ALPHA, repeat=k))
    return out


def _core(kind, v):
    """the text a value of an OBJ kind / string kind is made of"""
    if kind == "tagobj":
        return v.text
    if kind == "jsonpath":
        return v[0]
    return v


def _wrap(kind, s):
    if kind == "tagobj":
        return Tag(s)
    if kind == "jsonpath":
        return (s, 1)
    return s


def obj_values(tier, family):
    """(kind, value) of the OBJ kinds.  tagobj / jsonpath: every string <=2 over ALPHA + idioms; bindexpr: every string
    <=3 (thorough <=4) over BX_ALPHA when executed, <=2 + idioms when lexed"""
    base = strings_upto(2)[1:] + IDIOMS
    out = [("tagobj", Tag(s)) for s in [""] + base]
    if family == "lex":
        out += [("jsonpath", (s, 1)) for s in base]
        out += [("bindexpr", s) for s in bx_strings(2) + BX_IDIOMS]
    else:
        out += [("bindexpr", s) for s in bx_strings(3 if tier == "quick" else 4)]
    out += [("tagobj", None), ("bindexpr", None)]
    return out


TYPES = dict(
    tagobj=lambda: TagType(),
    bindexpr=lambda: Lowered(),
    jsonpath=lambda: sa.JSON.JSONPathType(),
    string=lambda: sa.String(),
    unicode=lambda: sa.Unicode(),
    text=lambda: sa.Text(),
    unicodetext=lambda: sa.UnicodeText(),
    int=lambda: sa.BigInteger(),
    float=lambda: sa.Float(),
    numeric=lambda: sa.Numeric(16, 4),
    date=lambda: sa.Date(),
    datetime=lambda: sa.DateTime(),
    time=lambda: sa.Time(),
    bool=lambda: sa.Boolean(),
)
BENIGN = dict(
    tagobj=Tag("x"),
    bindexpr="x",
    jsonpath=("x", 1),
    string="x",
    unicode="x",
    text="x",
    unicodetext="x",
    int=5,
    float=2.25,
    numeric=D("2.5"),
    date=dt.date(2001, 2, 3),
    datetime=dt.datetime(2001, 2, 3, 4, 5, 6),
    time=dt.time(4, 5, 6),
    bool=True,
)
COLUMN = dict(tagobj="s", bindexpr="s", jsonpath="s", string="s", unicode="s", text="s", unicodetext="s", int="i", float="f", numeric="n", date="d", datetime="dtm", time="tm", bool="b")


# ------------------------------------------------------------------ %-formatting proxy DBAPI over sqlite3


def make_proxy(style):
    """a DBAPI module identical to sqlite3 except that paramstyle is `format` / `pyformat` and the
    statement is %-formatted on every execute (placeholders become ? / :name), like MySQLdb does"""
    m = types.ModuleType("vf_sqlite3_" + style)
    for k in dir(sqlite3):
        if not k.startswith("__"):
            setattr(m, k, getattr(sqlite3, k))
    m.paramstyle = style

    def conv(sql, params):
        if style == "format":
            return sql % tuple("?" for _ in params), tuple(params)
        return sql % {k: ":" + k for k in params}, dict(params)

    class Cursor(sqlite3.Cursor):
        def execute(self, sql, params=()):
            s2, p2 = conv(sql, params)
            return super().execute(s2, p2)

        def executemany(self, sql, seq):
            seq = list(seq)
            s2, _ = conv(sql, seq[0] if seq else ())
            return super().executemany(s2, seq)

    class Connection(sqlite3.Connection):
        def cursor(self, factory=None):
            return super().cursor(Cursor)

    def connect(*a, **kw):
        kw["factory"] = Connection
        return sqlite3.connect(*a, **kw)

    m.connect = connect
    m.Connection = Connection
    return m


PARAMSTYLES = ("qmark", "named", "format", "pyformat")
_WORLDS = {}


class World:
    """one in-memory SQLite engine of a given paramstyle with the value tables"""

    def __init__(self, style, tier):
        kw = dict(poolclass=StaticPool)
        if style in ("format", "pyformat"):
            kw.update(module=make_proxy(style), paramstyle=style)
        elif style == "named":
            kw.update(paramstyle="named")
        self.style = style
        self.engine = sa.create_engine("sqlite://", **kw)
        assert self.engine.dialect.paramstyle == style, self.engine.dialect.paramstyle
        self.meta = sa.MetaData()
        self.t = sa.Table(
            "t",
            self.meta,
            sa.Column("id", sa.Integer, primary_key=True),
            sa.Column("s", sa.String, index=True),
            sa.Column("i", sa.BigInteger),
            sa.Column("f", sa.Float),
            sa.Column("n", sa.Numeric(16, 4)),
            sa.Column("d", sa.Date),
            sa.Column("dtm", sa.DateTime),
            sa.Column("tm", sa.Time),
            sa.Column("b", sa.Boolean),
        )
        self.t2 = sa.Table("t2", self.meta, sa.Column("id", sa.Integer, primary_key=True), *[sa.Column(c.name, c.type) for c in self.t.c if c.name != "id"])
        self.conn = self.engine.connect()
        self.meta.create_all(self.conn)
        base = strings_upto(3 if tier == "quick" else 4)
        have = set(base)
        # the IN-list alphabet of the bind_expression() kind must be present as rows, or IN / NOT IN cannot tell values apart
        rows = [dict(s=s) for s in base + [x for x in bx_strings(3 if tier == "quick" else 4) if x not in have]]
        for kind, v in OTHER_VALUES:
            if v is not None:
                rows.append({COLUMN[kind]: v})
        rows.append({})
        self.conn.execute(self.t.insert(), [dict(dict.fromkeys(("s", "i", "f", "n", "d", "dtm", "tm", "b")), **r) for r in rows])
        self.conn.commit()
        self.captured = []
        event.listen(self.engine, "before_cursor_execute", self._capture)
        self.ddl_n = 0

    def _capture(self, conn, cursor, statement, parameters, context, executemany):
        self.captured.append((statement, parameters))


def world(style, tier):
    k = (style, tier)
    if k not in _WORLDS:
        _WORLDS[k] = World(style, tier)
    return _WORLDS[k]


# ------------------------------------------------------------------ statements per clause position


def _bp(v, typ, le, key=None):
    return sa.bindparam(key, v, type_=typ, literal_execute=le)


COMPANION = dict(
    tagobj=Tag("y"),
    bindexpr="y",
    jsonpath=("y", 1),
    string="y",
    unicode="y",
    text="y",
    unicodetext="y",
    int=6,
    float=3.5,
    numeric=D("3.5"),
    date=dt.date(2002, 3, 4),
    datetime=dt.datetime(2002, 3, 4, 5, 6, 7),
    time=dt.time(5, 6, 7),
    bool=False,
)


def positions(kind, t, t2, companion=None):
    """name -> builder(value, literal_execute flag) returning a fresh statement"""
    typ = TYPES[kind]
    comp = BENIGN[kind] if companion is None else companion
    col = t.c[COLUMN[kind]]
    pos = {}
    pos["select-list"] = lambda v, le: sa.select(_bp(v, typ(), le).label("v"))
    pos["where"] = lambda v, le: sa.select(t.c.id).where(col == _bp(v, typ(), le)).order_by(t.c.id)
    pos["in-list"] = lambda v, le: sa.select(t.c.id).where(col.in_(sa.bindparam(None, [v, comp], type_=typ(), expanding=True, literal_execute=le))).order_by(t.c.id)
    pos["not-in-list"] = lambda v, le: sa.select(sa.func.count()).select_from(t).where(col.not_in(sa.bindparam(None, [v], type_=typ(), expanding=True, literal_execute=le)))
    pos["case"] = lambda v, le: sa.select(t.c.id, sa.case((col == _bp(v, typ(), le), _bp(v, typ(), le)), else_=sa.null()).label("v")).where(col.is_not(None)).order_by(t.c.id).limit(40)
    if kind in ("string", "unicode", "text", "unicodetext"):
        pos["concat"] = lambda v, le: sa.select((sa.literal("<", typ()) + _bp(v, typ(), le) + sa.literal(">", typ())).label("v"))
        pos["like"] = lambda v, le: sa.select(sa.func.count()).select_from(t).where(col.like(_bp(v, typ(), le)))
        pos["text-bind"] = lambda v, le: sa.text("SELECT :x AS v, length(:x) AS n, :x || '|' AS w").bindparams(_bp(v, typ(), le, key="x")).columns(sa.column("v", typ()), sa.column("n", sa.Integer), sa.column("w", typ()))
    if kind == "int":
        pos["limit"] = lambda v, le: sa.select(t.c.id).order_by(t.c.id).limit(_bp(v, typ(), le)) if v is not None and 0 <= v < 2**62 else None
        pos["offset"] = lambda v, le: sa.select(t.c.id).order_by(t.c.id).limit(3).offset(_bp(v, typ(), le)) if v is not None and 0 <= v < 2**62 else None
        pos["arith"] = lambda v, le: sa.select((t.c.i + _bp(v, typ(), le)).label("v")).where(t.c.i.is_not(None)).order_by(t.c.id)
    if kind in ("float", "numeric"):
        pos["arith"] = lambda v, le: sa.select((col + _bp(v, typ(), le)).label("v")).where(col.is_not(None)).order_by(t.c.id)
    return pos


def _rows(result):
    return [tuple(r) for r in result]


def _req(a, b):
    return repr(a) == repr(b)


def _req_raw(a, b, kind):
    """raw DBAPI rows: SQLite hands back 0 for the literal 0 and 0.0 for a bound float 0.0 -- the same number"""
    if kind in ("float", "numeric"):
        return a == b
    return repr(a) == repr(b)


def exec_case(style, tier, kind, v):
    """returns list of (failure kind, detail) for one value under one paramstyle"""
    w = world(style, tier)
    conn = w.conn
    out = []
    typ = TYPES[kind]
    for pname, build in positions(kind, w.t, w.t2).items():
        stmt_b = build(v, False)
        if stmt_b is None:
            continue
        # --- bound baseline, processed and raw
        del w.captured[:]
        try:
            base = _rows(conn.execute(stmt_b))
        except Exception as e:
            out.append(("%s:bound-raises" % pname, "%s: %s" % (type(e).__name__, str(e).split("\n")[0][:100])))
            conn.rollback()
            continue
        csql, cparams = w.captured[-1]
        base_raw = _rows(conn.exec_driver_sql(csql, cparams))
        lit_exec = kind != "bindexpr" or BINDEXPR_LITERAL_EXECUTE
        # --- literal_execute, processed
        try:
            got = _rows(conn.execute(build(v, True))) if lit_exec else base
            if not _req(got, base):
                out.append(("%s:literal_execute-rows-differ" % pname, "literal %r bound %r" % (got[:3], base[:3])))
        except Exception as e:
            out.append(("%s:literal_execute-raises" % pname, "%s: %s" % (type(e).__name__, str(e).split("\n")[0][:100])))
            conn.rollback()
        # --- literal_binds / render_postcompile strings, raw
        for mode, st, ckw in (("literal_binds", stmt_b, dict(literal_binds=True)), ("render_postcompile", build(v, True), dict(render_postcompile=True))):
            if mode == "render_postcompile" and not lit_exec:
                continue
            try:
                comp = st.compile(w.engine, compile_kwargs=ckw)
                sql = str(comp)
                if mode == "render_postcompile" and comp.params:
                    continue  # something stayed bound (not a literal_execute-only statement)
                got = _rows(conn.exec_driver_sql(sql))
                if not _req_raw(got, base_raw, kind):
                    out.append(("%s:%s-rows-differ" % (pname, mode), "%r gives %r, bound gives %r" % (sql[:120], got[:3], base_raw[:3])))
            except Exception as e:
                out.append(("%s:%s-raises" % (pname, mode), "%s: %s" % (type(e).__name__, str(e).split("\n")[0][:100])))
                conn.rollback()
    # --- INSERT VALUES: literal_execute vs bound, read back
    colname = COLUMN[kind]
    lit_exec_ins = kind != "bindexpr" or BINDEXPR_LITERAL_EXECUTE
    try:
        conn.execute(w.t2.delete())
        conn.execute(w.t2.insert().values({"id": 1, colname: _bp(v, typ(), False)}))
        conn.execute(w.t2.insert().values({"id": 2, colname: _bp(v, typ(), lit_exec_ins)}))
        sql = str(w.t2.insert().values({"id": 3, colname: _bp(v, typ(), False)}).compile(w.engine, compile_kwargs=dict(literal_binds=True)))
        conn.exec_driver_sql(sql)
        back = _rows(conn.execute(sa.select(w.t2.c.id, w.t2.c[colname], sa.func.typeof(w.t2.c[colname])).order_by(w.t2.c.id)))
        vals = [r[1:] for r in back]
        if len(back) != 3 or not (_req(vals[0], vals[1]) and _req(vals[0], vals[2])):
            out.append(("insert-values:stored-values-differ", "bound/literal_execute/literal_binds stored %r" % (back,)))
        conn.rollback()
    except Exception as e:
        out.append(("insert-values:raises", "%s: %s" % (type(e).__name__, str(e).split("\n")[0][:100])))
        conn.rollback()
    # --- DDL: server default and CHECK constraint literal (strings and numbers)
    if v is not None and kind in ("string", "int", "float", "numeric", "bool"):
        w.ddl_n += 1
        m = sa.MetaData()
        dname = "ddl_t"
        td = sa.Table(
            dname,
            m,
            sa.Column("id", sa.Integer, primary_key=True),
            sa.Column("c", typ(), server_default=sa.literal(v, typ())),
            sa.Column("k", typ()),
            sa.CheckConstraint(sa.column("k", typ()) == sa.literal(v, typ()), name="ck"),
        )
        try:
            m.create_all(conn)
            conn.execute(td.insert().values(id=1, k=_bp(v, typ(), False)))
            conn.execute(td.insert().values(id=2, c=_bp(v, typ(), False), k=_bp(v, typ(), False)))
            back = _rows(conn.execute(sa.select(td.c.c).order_by(td.c.id)))
            if len(back) != 2 or not _req(back[0], back[1]):
                out.append(("ddl-server-default:value-differs", "default gives %r, bound insert gives %r" % (back[0], back[1:])))
            other = BENIGN[kind] if v != BENIGN[kind] else (not v if kind == "bool" else ("y" if kind == "string" else 6))
            try:
                with conn.begin_nested():
                    conn.execute(td.insert().values(id=3, k=_bp(other, typ(), False)))
                out.append(("ddl-check:accepts-other-value", "CHECK k = %r accepted %r" % (v, other)))
            except sa.exc.IntegrityError:
                pass
        except Exception as e:
            out.append(("ddl:raises", "%s: %s" % (type(e).__name__, str(e).split("\n")[0][:100])))
        finally:
            conn.rollback()
            try:
                m.drop_all(conn)
                conn.commit()
            except Exception:
                conn.rollback()
    return out


# ------------------------------------------------------------------ oracle S: shape / decode under each dialect grammar


def _dialect_configs():
    from sqlalchemy.dialects.mssql import pymssql
    from sqlalchemy.dialects.mssql import pyodbc
    from sqlalchemy.dialects.mysql import mariadb
    from sqlalchemy.dialects.mysql import mysqlconnector
    from sqlalchemy.dialects.mysql import mysqldb
    from sqlalchemy.dialects.oracle import oracledb
    from sqlalchemy.dialects.postgresql import asyncpg
    from sqlalchemy.dialects.postgresql import pg8000
    from sqlalchemy.dialects.postgresql import psycopg2
    from sqlalchemy.dialects.sqlite import pysqlite
    from sqlalchemy.engine import default

    def cfg(fac, **attrs):
        def make():
            d = fac()
            for k, val in attrs.items():
                setattr(d, k, val)
            return d

        return make

    # name -> (factory, grammar, DBAPI un-doubles %%)
    return {
        "postgresql+psycopg2": (cfg(psycopg2.dialect), "postgresql", True),
        "postgresql+psycopg2/scs-off": (cfg(psycopg2.dialect, _backslash_escapes=True), "postgresql_scsoff", True),
        "postgresql+asyncpg": (cfg(asyncpg.dialect), "postgresql", False),
        "postgresql+asyncpg/scs-off": (cfg(asyncpg.dialect, _backslash_escapes=True), "postgresql_scsoff", False),
        "postgresql+pg8000": (cfg(pg8000.dialect), "postgresql", False),
        "mysql+mysqldb": (cfg(mysqldb.dialect), "mysql", True),
        "mysql+mysqldb/no-backslash-escapes": (cfg(mysqldb.dialect, _backslash_escapes=False), "mysql_nobs", True),
        "mysql+mysqlconnector": (cfg(mysqlconnector.dialect), "mysql", False),
        "mariadb": (cfg(mariadb.MariaDBDialect), "mysql", True),
        "mssql+pyodbc": (lambda: pyodbc.dialect(paramstyle="qmark"), "mssql", False),
        "mssql+pymssql": (lambda: pymssql.dialect(paramstyle="pyformat"), "mssql", False),
        "oracle+oracledb": (cfg(oracledb.dialect), "oracle", False),
        "sqlite": (lambda: pysqlite.dialect(paramstyle="qmark"), "sqlite", False),
        "default": (cfg(default.DefaultDialect), "postgresql", False),
    }


CONFIG_NAMES = [
    "postgresql+psycopg2",
    "postgresql+psycopg2/scs-off",
    "postgresql+asyncpg",
    "postgresql+asyncpg/scs-off",
    "postgresql+pg8000",
    "mysql+mysqldb",
    "mysql+mysqldb/no-backslash-escapes",
    "mysql+mysqlconnector",
    "mariadb",
    "mssql+pyodbc",
    "mssql+pymssql",
    "oracle+oracledb",
    "sqlite",
    "default",
]
CORE_CONFIGS = ("postgresql+psycopg2", "postgresql+psycopg2/scs-off", "mysql+mysqldb", "mysql+mysqldb/no-backslash-escapes", "mssql+pyodbc", "oracle+oracledb")
_CCACHE = {}


def config(name):
    if name not in _CCACHE:
        fac, gname, und = _dialect_configs()[name]
        _CCACHE[name] = (fac(), L.GRAMMARS[gname], und)
    return _CCACHE[name]


def _lt(name):
    return sa.table(
        name,
        sa.column("id", sa.Integer),
        sa.column("s", sa.String),
        sa.column("i", sa.BigInteger),
        sa.column("f", sa.Float),
        sa.column("n", sa.Numeric(16, 4)),
        sa.column("d", sa.Date),
        sa.column("dtm", sa.DateTime),
        sa.column("tm", sa.Time),
        sa.column("b", sa.Boolean),
    )


_LT = _lt("t")
_LT2 = _lt("t2")


_LTJ = sa.table("tj", sa.column("id", sa.Integer), sa.column("j", sa.JSON))


def lex_positions(kind):
    typ = TYPES[kind]
    if kind == "jsonpath":
        # the path of a JSON index operation is a (key, index) tuple rendered as ONE string literal
        return {
            "select-list": lambda v, le: sa.select(_bp(v, typ(), le).label("v")),
            "json-index": lambda v, le: None if le else sa.select(_LTJ.c.j[v].label("v")).where(_LTJ.c.j[v].is_not(None)),
        }
    pos = positions(kind, _LT, _LT2, companion=COMPANION[kind])
    pos.pop("text-bind", None)
    pos["insert-values"] = lambda v, le: _LT2.insert().values({"id": 1, COLUMN[kind]: _bp(v, typ(), le)})
    pos["update-set"] = lambda v, le: _LT2.update().values({COLUMN[kind]: _bp(v, typ(), le)}).where(_LT2.c[COLUMN[kind]] != _bp(v, typ(), le))
    return pos


def _render(name, stmt, mode):
    d, g, und = config(name)
    ckw = dict(literal_binds=True) if mode == "literal_binds" else dict(render_postcompile=True)
    sql = str(stmt.compile(dialect=d, compile_kwargs=ckw))
    if und:
        txt, err = L.driver_format(sql, d.paramstyle)
    else:
        txt, err = sql, None
    return sql, txt, err


_KW_BEFORE_UNARY = {"select", "where", "in", "then", "else", "values", "set", "limit", "offset", "and", "or", "when", "by", "like", "not", "on", "having"}


def _num_value(toks, idx):
    """numeric value of the num token at idx, with a directly preceding unary minus"""
    t = toks[idx]
    neg = idx > 0 and toks[idx - 1].kind == "op" and toks[idx - 1].text == "-"
    if neg and idx >= 2:
        p = toks[idx - 2]
        neg = (p.kind == "op" and p.text != ")") or (p.kind == "word" and p.text.lower() in _KW_BEFORE_UNARY)
    try:
        val = D(t.text)
    except decimal.InvalidOperation:
        return None
    return -val if neg else val


_BENIGN_CACHE = {}
_CORE_POSITIONS = ("select-list", "in-list", "insert-values", "case")


def lex_case(name, kind, v, core_only=False):
    """returns (list of (failure kind, detail), n statements lexed)"""
    d, g, und = config(name)
    out = []
    n = 0
    ben = BENIGN[kind]
    if v is not None and kind in ("int", "float", "numeric") and v < 0:
        ben = -ben
    if v is not None and kind == "bool":
        ben = not v
    if kind == "bool":
        ben = v  # both booleans render as keywords / 0-1: only "compiles and lexes cleanly" is claimed
    if v is not None and kind in ("datetime", "time") and v.microsecond:
        ben = ben.replace(microsecond=7)
    for pname, build in lex_positions(kind).items():
        if core_only and pname not in _CORE_POSITIONS:
            continue
        for mode in ("literal_binds", "render_postcompile"):
            le = mode == "render_postcompile"
            if le and kind == "bindexpr":
                continue  # dialect-independent route; decided by execution (family exec)
            try:
                sv = build(v, le)
                if sv is None:
                    continue
                sql, txt, err = _render(name, sv, mode)
                bkey = (name, kind, pname, mode, repr(ben if v is not None else None))
                if bkey not in _BENIGN_CACHE:
                    sqlb, txtb, errb = _render(name, build(ben if v is not None else None, le), mode)
                    tb = L.tokenize(txtb, g)
                    _BENIGN_CACHE[bkey] = (txtb, tb, L.shape(tb))
                txtb, toksb, shb = _BENIGN_CACHE[bkey]
            except Exception as e:
                out.append(("%s:%s:compile-raises" % (pname, mode), "%s: %s" % (type(e).__name__, str(e).split("\n")[0][:120])))
                continue
            n += 1
            if err:
                out.append(("%s:%s:stray-percent-for-formatting-driver" % (pname, mode), "%r: %s" % (sql[:160], err)))
                continue
            toks = L.tokenize(txt, g)
            sh = L.shape(toks)
            if sh != shb:
                out.append(("%s:%s:statement-shape-changes" % (pname, mode), "%r lexes as %s; with benign value %s" % (txt[:200], " ".join(sh)[:200], " ".join(shb)[:200])))
                continue
            if v is None:
                continue
            if kind in OBJ_KINDS:
                ev, eb = _bound_text(kind, v, d), _bound_text(kind, ben, d)
                if not isinstance(ev, str) or not isinstance(eb, str):
                    continue  # the bound route does not send text on this driver (asyncpg JSON path): shape only
                bad = _decode_mismatch("string", ev, eb, toks, toksb)
            else:
                bad = _decode_mismatch(kind, v, ben, toks, toksb)
            if bad:
                out.append(("%s:%s:literal-denotes-other-value" % (pname, mode), "%r: %s" % (txt[:200], bad)))
    return out, n


def _bound_text(kind, v, d):
    """what the bound-parameter route sends for v: the type's own bind processor on that dialect"""
    proc = TYPES[kind]().dialect_impl(d).bind_processor(d)
    return proc(v) if proc is not None else v


def _temporal_parse(kind, text):
    s = text.strip()
    try:
        if kind == "date":
            return dt.date.fromisoformat(s[:10]) if len(s) >= 10 else None
        if kind == "datetime":
            return dt.datetime.fromisoformat(s)
        if kind == "time":
            return dt.time.fromisoformat(s)
    except ValueError:
        return None


def _decode_mismatch(kind, v, ben, toks, toksb):
    """compare literal tokens pairwise with the benign rendering; where the benign token denotes the
    benign value the real token must denote v.  returns None or a description"""
    if kind in ("string", "unicode", "text", "unicodetext"):
        hits = 0
        for a, b in zip(toks, toksb):
            if b.kind == "str" and b.value == ben:
                hits += 1
                if a.kind != "str" or a.value != v:
                    return "literal %r decodes to %r, expected %r" % (a.text, a.value, v)
        if not hits:
            return "benign literal not found in the benign rendering"
        return None
    if kind in ("int", "float", "numeric"):
        hits = 0
        for i, b in enumerate(toksb):
            if b.kind == "num":
                bv = _num_value(toksb, i)
                if bv is not None and bv == D(str(ben)):
                    hits += 1
                    av = _num_value(toks, i)
                    want = D(repr(v)) if isinstance(v, float) else D(str(v))
                    if av is None or av != want:
                        return "literal %r denotes %r, expected %r" % (toks[i].text, av, want)
        if not hits:
            return "benign literal not found in the benign rendering"
        return None
    if kind in ("date", "datetime", "time"):
        hits = 0
        for a, b in zip(toks, toksb):
            if b.kind == "str" and _temporal_parse(kind, b.value) == ben:
                hits += 1
                if a.kind != "str" or _temporal_parse(kind, a.value) != v:
                    return "literal %r parses to %r, expected %r" % (a.text, _temporal_parse(kind, a.value) if a.kind == "str" else None, v)
        if not hits:
            return "benign temporal literal not found in the benign rendering"
        return None
    if kind == "bool":
        return None  # shape equality with the opposite boolean is the whole claim; both render as keywords / 0-1
    return None


# ------------------------------------------------------------------ minimisation


def _shrinks(s):
    for i in range(len(s)):
        yield s[:i] + s[i + 1 :]
    for i in range(len(s)):
        if s[i] != "a":
            yield s[:i] + "a" + s[i + 1 :]


def _skey(s):
    return (len(s), [_ORDER.get(ch, 50 + ord(ch)) for ch in s])


def minimise(v, kind, fails_fn, vkind="string"):
    if v is None or not isinstance(_core(vkind, v), str):
        return v
    inner = fails_fn
    fails_fn = lambda x: inner(_wrap(vkind, x))  # noqa: E731
    cur = _core(vkind, v)
    improved = True
    while improved:
        improved = False
        for cand in sorted(set(_shrinks(cur)), key=_skey):
            if _skey(cand) >= _skey(cur):
                continue
            r = fails_fn(cand)
            if r and any(k == kind for k, _ in r):
                cur = cand
                improved = True
                break
    return _wrap(vkind, cur)


def _jsonable(kind, v):
    if v is None or isinstance(v, (str, int, bool)) and not isinstance(v, float):
        return dict(kind=kind, py=repr(v))
    return dict(kind=kind, py=repr(v))


def _unjson(c):
    return eval(c["py"], dict(datetime=dt, Decimal=D, decimal=decimal, Tag=Tag))  # noqa: S307 - our own repr of enumerated values


def _report(rec, family, where, kind, v, res, fails_fn):
    memo = {}
    inner = fails_fn

    def fails_fn(x):  # one evaluation per candidate (the case functions are pure in the value)
        k = repr(x)
        if k not in memo:
            memo[k] = inner(x)
        return memo[k]

    minima = []
    for fk, detail in res:
        mv = minimise(v, fk, fails_fn, kind)
        if mv not in minima:
            minima.append(mv)
    for mv in minima:
        rm = fails_fn(mv)
        # signature: failure classes without the clause position (one root cause shows in every position)
        classes = sorted(set(k.split(":", 1)[1] for k, _ in rm))
        sig = "%s %s: %s value %r: %s" % (family, where, kind, mv, "; ".join(classes))
        rec.violation(sig, " | ".join("%s: %s" % kd for kd in rm)[:3000] + " (first seen on %r)" % (v,), dict(family=family, where=where, **_jsonable(kind, mv)))


def _minus_string(kind, v, res, string_fn):
    """an OBJ kind shares String's rendering of the text: a failure class that the plain str of the same text shows
    as well is that (already reported) defect, not one of this kind"""
    if not res or kind not in OBJ_KINDS or v is None:
        return res
    known = set(k.split(":", 1)[1] for k, _ in string_fn(_core(kind, v)))
    return [(k, dd) for k, dd in res if k.split(":", 1)[1] not in known]


def exec_case_f(style, tier, kind, v):
    return _minus_string(kind, v, exec_case(style, tier, kind, v), lambda s: exec_case(style, tier, "string", s))


def lex_case_f(name, kind, v, core_only=False):
    res, n = lex_case(name, kind, v, core_only)
    return _minus_string(kind, v, res, lambda s: lex_case(name, "string", s, core_only)[0]), n


# ------------------------------------------------------------------ shards


def _all_values(tier):
    vals = [("string", s) for s in string_values(tier)]
    return vals + OTHER_VALUES + [(k, v) for k, v in obj_values(tier, "exec") if k != "jsonpath"]


def shards(tier, seed):
    out = [("validate",)]
    nx = 6 if tier == "quick" else 24
    for style in PARAMSTYLES:
        for i in range(nx):
            out.append(("exec", style, i, nx))
    nl = 2 if tier == "quick" else 8
    for name in CONFIG_NAMES:
        for i in range(nl):
            out.append(("lex", name, i, nl))
    return out


def _nontrivial(kind, v):
    if v is not None and kind in OBJ_KINDS:
        return any(ch in SPECIAL or ch in ",()" or ord(ch) > 127 or ord(ch) < 32 for ch in _core(kind, v))
    if v is None or kind != "string":
        return True
    return any(ch in SPECIAL or ord(ch) > 127 or ord(ch) < 32 for ch in v)


def run_shard(shard, tier, rec):
    warnings.simplefilter("ignore")
    fam = shard[0]
    if fam == "validate":
        strs = strings_upto(3) + IDIOMS
        conn = sqlite3.connect(":memory:")
        n, bad = L.validate_against_sqlite([s for s in strs if "\0" not in s], [], conn)
        conn.close()
        if bad:
            raise AssertionError("reference lexer disagrees with SQLite: %r" % (bad[:3],))
        n2, bad2, names = L.validate_against_vendors(strs)
        if bad2:
            raise AssertionError("reference lexer disagrees with vendor encoder: %r" % (bad2[:3],))
        rec.count("lexer_checks_against_sqlite", n)
        rec.count("lexer_checks_against_vendor_encoders", n2)
        rec.note("vendor encoders used for lexer validation: " + ", ".join(names))
        rec.case(("validate",), nontrivial=False, n=n + n2)
        return
    if fam == "exec":
        _, style, part, nparts = shard
        for idx, (kind, v) in enumerate(_all_values(tier)):
            if idx % nparts != part:
                continue
            res = exec_case_f(style, tier, kind, v)
            nt = _nontrivial(kind, v)
            rec.case(("exec", style, kind, repr(v)), nontrivial=nt)
            rec.outcome(("exec", style, kind, tuple(k for k, _ in res)))
            if nt and (idx // nparts) % 211 == 5:
                rec.sample(dict(family="exec", paramstyle=style, kind=kind, value=repr(v), failures=[k for k, _ in res]))
            if res:
                _report(rec, "exec", "sqlite", kind, v, [(k, "[paramstyle %s] %s" % (style, d)) for k, d in res], lambda x, style=style, kind=kind: exec_case_f(style, tier, kind, x))
        return
    if fam == "lex":
        _, name, part, nparts = shard
        if name in CORE_CONFIGS:
            vals = [("string", s) for s in string_values(tier)] + OTHER_VALUES
        else:
            vals = [("string", s) for s in strings_upto(2 if tier == "quick" else 3) + IDIOMS] + OTHER_VALUES
        extra = [(k, s) for k in ("unicode", "text", "unicodetext") for s in strings_upto(2) + IDIOMS]
        objs = [(k, v) for k, v in obj_values(tier, "lex") if not (k == "jsonpath" and name == "default")]  # no generic JSON path rendering
        for idx, (kind, v) in enumerate(vals + extra + objs):
            if idx % nparts != part:
                continue
            core_only = kind not in OBJ_KINDS and isinstance(v, str) and len(v) > 2 and v not in IDIOMS
            res, n = lex_case_f(name, kind, v, core_only)
            if res and kind in ("unicode", "text", "unicodetext"):
                # same rendering path as String unless the kinds of failure differ: report under "string" only
                rs, _ = lex_case(name, "string", v, core_only)
                if sorted(k for k, _ in rs) == sorted(k for k, _ in res):
                    res = []
            nt = _nontrivial(kind if kind in ("int", "float", "numeric", "date", "datetime", "time", "bool") + OBJ_KINDS else "string", v)
            rec.case(("lex", name, kind, repr(v)), nontrivial=nt, n=max(n, 1))
            rec.outcome(("lex", name, kind, tuple(k for k, _ in res)))
            if nt and (idx // nparts) % 397 == 11 and isinstance(v, str):
                rec.sample(dict(family="lex", dialect=name, kind=kind, value=repr(v), rendered=_render(name, sa.select(_bp(v, TYPES[kind](), False)), "literal_binds")[0]))
            if res:
                _report(rec, "lex", name, kind, v, res, lambda x, name=name, kind=kind, co=core_only: lex_case_f(name, kind, x, co)[0])
        return
    raise AssertionError(shard)


def replay(case):
    warnings.simplefilter("ignore")
    v = _unjson(case)
    kind = case["kind"]
    fam, where = case["family"], case["where"]
    rec = _MiniRec()
    if fam == "exec":
        tier = "quick" if not isinstance(v, str) or len(v) <= 3 else "thorough"
        for style in PARAMSTYLES:
            res = exec_case_f(style, tier, kind, v)
            if res:
                _report(rec, fam, where, kind, v, res, lambda x: exec_case_f(style, tier, kind, x))
        seen = set()
        rec.out = [x for x in rec.out if not (x[0] in seen or seen.add(x[0]))]
    else:
        res, _ = lex_case_f(where, kind, v)
        if res:
            _report(rec, fam, where, kind, v, res, lambda x: lex_case_f(where, kind, x)[0])
    return rec.out


class _MiniRec:
    def __init__(self):
        self.out = []

    def violation(self, sig, detail, case, kind=None):
        self.out.append((sig, detail))
