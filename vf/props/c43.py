"""C43 ORM-enabled UPDATE/DELETE keep in-session objects in sync with the database.

Engine I: every WHERE criterion tree up to the bound (over the operator set of
orm/evaluator.py) x UPDATE/DELETE x synchronize_session strategy is executed on
a freshly loaded session holding one object per row of the full cross-product
table (vf/worlds/bulkworld.py); afterwards every in-session object is compared
with the database.  No expected SQL, no re-implementation of SQL semantics: the
database's own answer is the reference.

Failures are named by root cause: for a failing case the smallest sub-tree on
which orm/evaluator.py and the database disagree (both evaluated on the
pristine row) gives a case-independent signature "evaluator <op>: python gives
<class> where SQL gives <class>; minimal: <canonical witness>"; failures that
are not an evaluator disagreement are named by symptom + minimal case, and
`finish()` keeps, per root-cause kind, the failure that comes first in the
global enumeration order (independent of sharding / jobs / seed).

Mutations caught (each in a private copy, `VF_REPO=/tmp/wt-bulk ./check C43`;
each yields VIOLATION lines with a signature not produced by the unchanged tree):
  m1 orm/evaluator.py visit_or_clauselist_op: drop `has_null = has_null or value is None`
     -> "evaluator or: python gives FALSE where SQL gives NULL; minimal: or(NULL, NULL)"
  m2 orm/evaluator.py _straight_evaluate: NULL check only on the left operand
     -> "evaluator mul/sub/mod/div: python gives TypeError where SQL gives NULL ..." (+ comparison variants)
  m3 orm/bulk_persistence.py orm_pre_session_exec: autoflush before the statement dropped
     -> "stale-attr [pending]: ...", "unmatched-changed [pending]: ..."
  m5 orm/evaluator.py visit_is_binary_op routed through _straight_evaluate (NULL-propagating)
     -> "evaluator isnull: python gives NULL where SQL gives TRUE; minimal: isnull(NULL)"
  (m4, dropping the "formerly modified attributes get expired" step of
  _apply_update_set_values_to_objects, is equivalent under the property: the un-flushed
  application change simply stays pending, which the statement does not forbid.)
  All eight proposed patches applied together (proposed_fixes/c43_*.diff) -> 0 violations.
  Statement-option / no-RETURNING family (F5), `VF_REPO=/tmp/wt-bulk ./check C43`:
  g1 orm/bulk_persistence.py _do_pre_synchronize_fetch: `.options(*statement._with_options)` dropped from the pk pre-SELECT
     -> "unmatched-changed [clean]: UPDATE WHERE <all rows> SET b=9 sync='fetch' variant=clean entity=RN opt=wlc_lambda",
        "ghost [clean]: DELETE WHERE <all rows> sync='fetch' ... entity=RN opt=wlc_plain", "... hint=is_delete_using opt=wlc_lambda"
  g2 same function: `select_stmt._where_criteria = statement._where_criteria` dropped
     -> "unmatched-changed [clean]: UPDATE WHERE a = 0 SET b=9 sync='fetch' variant=clean entity=RN", "ghost ... hint=is_delete_using"
  g3 _eval_condition_from_statement: loader-criteria (`_adjust_for_extra_criteria`) no longer added for 'evaluate'
     -> "unmatched-changed [clean]: UPDATE WHERE <all rows> SET b=9 sync='evaluate' variant=clean ... opt=wlc_lambda" (all three routes)
"""
from __future__ import annotations

from ..worlds import bulkworld as bw

ID = "C43"
LEVEL = "exploration"
META = dict(
    engine="I",
    technique="exhaustive small-scope enumeration of WHERE/SET expression trees x strategies x session variants; "
    "differential oracle: in-session objects vs database rows after the statement",
    design_ref="DESIGN.md §5 C43",
    level_text="Every criterion tree within the bound (all leaf predicates of the evaluator's operator set incl. IN/NOT IN "
    "lists with NULL and empty lists, startswith/endswith needles with LIKE wildcards with and without autoescape, explicit "
    "bindparam() values passed to execute(), arithmetic with negative operands and zero divisors; all AND/OR/NOT combinations over an 8-atom base that realises every TRUE/FALSE/NULL combination) "
    "is executed as ORM-enabled UPDATE and DELETE with synchronize_session evaluate/auto/fetch/False against a session "
    "holding all 144 rows of the full value cross product; every SET clause of a 19-element family and five session "
    "variants (partially/fully expired objects, pending changes with autoflush on/off, partially loaded session), "
    "RETURNING, the legacy Query.update()/delete() route and bulk UPDATE by primary key are crossed with a criterion "
    "core; statement options {none, with_loader_criteria (lambda / plain criterion that excludes rows the WHERE matches), "
    "populate_existing} x routes on which 'fetch' cannot use RETURNING and pre-SELECTs the primary keys "
    "(Table(implicit_returning=False); is_delete_using / is_update_from hints) plus the default route x fetch/evaluate/auto "
    "x UPDATE/DELETE are crossed with every leaf predicate. After each statement each object's loaded attributes must equal its row, objects of deleted rows must have "
    "left the session (or be fully expired), and 'evaluate' may instead refuse with InvalidRequestError before "
    "anything changed. Complete for the bound: any desynchronisation expressible by such a tree on these rows is found.",
    level_note="Trusted: SQLite's evaluation of the criterion (the reference), the 60-line comparison in bulkworld._compare. "
    "Root-cause localisation (smallest sub-tree on which orm/evaluator.py and the database disagree) is used only to name "
    "findings, never for the verdict. Only SQLite semantics are executed (division by zero is NULL there, an error on "
    "PostgreSQL); multi-table UPDATE..FROM / DELETE..USING and inheritance mappings are out of scope.",
    rule="case = (statement kind, criterion tree, SET clause, strategy, session variant, route); size of a tree = number of "
    "AND/OR/NOT + arithmetic/concat operators above its leaf predicates; non-trivial = the criterion matched a proper "
    "non-empty subset of the 144 rows (so matched and unmatched objects both exist) or the strategy refused before any "
    "change; distinct by the whole case",
    assumptions=[
        "single mapped table, single session, SQLite 3.40 semantics as the reference for SQL evaluation",
        "objects are loaded by a plain SELECT before the statement; variants perturb them as a fixed function of the primary key",
    ],
    bounds=dict(
        quick="criteria: all leaf predicates with <=1 arithmetic operator, NOT of each, AND/OR of each with an 8-atom core, all "
        "boolean trees with 2 connectives over the core (8.1k trees) x UPDATE/DELETE x evaluate/auto (+fetch, False on the "
        "shallow levels); 19 SET clauses x 6 criteria x 3 strategies x 2 variants; 7 variant/route families x 15 criteria; "
        "3 routes (implicit_returning=False table, multi-table hints, default) x 4 statement options x 3 strategies x all ~90 leaf predicates",
        thorough="+ predicates with 2 arithmetic operators, double negation, connectives over arithmetic predicates, all boolean "
        "trees with 3 connectives over 6 core atoms (76k trees); variant families over all leaf predicates; option/route family also over one-operator predicates",
    ),
)

SHARD_TIMEOUT = dict(quick=300, thorough=1700)

N_PARTS = dict(quick=48, thorough=192)


# F5: statement options x routes on which synchronize_session='fetch' cannot use RETURNING and has to
# pre-SELECT the matching primary keys (Table(implicit_returning=False); the is_delete_using /
# is_update_from hints), plus the default RETURNING route as the base
F5_ROUTES = (("RN", False), ("R", True), ("R", False))  # (entity, use the multi-table hint)
F5_OPTS = ("none", "wlc_lambda", "wlc_plain", "populate_existing")


def f5_cases(route, opt, tier):
    entity, hinted = F5_ROUTES[route]
    crits = [None] + bw.atoms0() + bw.core_atoms()[:0]
    crits += [["not", ["and", ["isnull", bw.C_A], ["cmp", "eq", bw.C_B, bw.L(0)]]], ["or", ["cmp", "lt", bw.C_A, bw.L(0)], ["cmp", "lt", bw.C_B, bw.L(0)]]]
    if tier == "thorough":
        crits += bw.atoms1()
    for crit in crits:
        for sync in ("fetch", "evaluate", "auto"):
            for kind in ("update", "delete"):
                sets = [{"b": bw.L(9)}] if kind == "delete" or crit is not None else SET_SMALL
                for setc in sets:
                    c = dict(kind=kind, crit=crit, set=setc if kind == "update" else {}, sync=sync, variant="clean", entity=entity)
                    if hinted:
                        c["hint"] = "is_update_from" if kind == "update" else "is_delete_using"
                    if opt != "none":
                        c["opt"] = opt
                    yield c


F3_FAMS = ("expired", "pending", "pending_noflush", "partial_load", "returning", "query", "query_expired")


def shards(tier, seed):
    out = [("F2",), ("F4",)]
    for fam in F3_FAMS:
        out.append(("F3", fam))
    for route in range(len(F5_ROUTES)):
        for opt in F5_OPTS:
            out.append(("F5", route, opt))
    n = N_PARTS[tier]
    for p in range(n):
        out.append(("F1", p, n))
    return out


def _key(case):
    return repr(sorted(case.items(), key=lambda kv: kv[0]))


def _do(case, rec, bulk=False, rank=()):
    res = (bw.run_bulk_case if bulk else bw.run_case)(case)
    info = res["info"]
    m = info.get("matched", 0)
    nontriv = (0 < m < len(bw.ROWS) and info.get("changed", 0) > 0) or info.get("outcome") == "refused"
    rec.case(_key(case), nontrivial=nontriv)
    rec.outcome((info.get("outcome"), m, info.get("changed")))
    rec.count("outcome " + str(info.get("outcome")))
    if res["problems"]:
        if bulk:
            for sym, detail, pk, attr in res["problems"][:1]:
                kind = ("bulk", sym, case.get("variant"))
                rec.violation("bulk-by-pk %s: params=%r sync=%r variant=%s" % (sym, case["params"], case["sync"], case.get("variant")),
                              detail, dict(case, bulk=True, _kind=repr(kind), _rank=list(rank)), kind=kind)
        else:
            for kind, sig, detail in bw.diagnose(case, res):
                rec.violation(sig, detail, dict(case, _kind=repr(kind), _rank=list(rank)), kind=kind)
    elif nontriv and info.get("outcome") == "ok":
        rec.sample(dict(statement=_describe(case), matched_rows=m, changed_rows=info.get("changed")))
    return res


def _describe(case):
    if "params" in case:
        return "UPDATE r by primary key, params=%r sync=%r variant=%s" % (case["params"], case["sync"], case.get("variant"))
    crit, setc = case.get("crit"), case.get("set") or {}
    return "%s WHERE %s%s sync=%r variant=%s%s" % (
        case["kind"].upper(), bw.show(crit) if crit is not None else "<all>",
        (" SET " + bw.show_set(setc)) if case["kind"] == "update" else "", case["sync"], case.get("variant", "clean"),
        "".join(" %s=%s" % (k, case[k]) for k in ("entity", "hint", "opt") if case.get(k) and case.get(k) != "R"))


CRIT_CORE = [
    None,
    ["cmp", "gt", bw.C_A, bw.L(0)],
    ["isnull", bw.C_A],
    ["cmp", "eq", bw.C_S, bw.L("ab")],
    ["or", ["cmp", "lt", bw.C_A, bw.L(0)], ["cmp", "lt", bw.C_B, bw.L(0)]],
    ["cmp", "ne", bw.C_B, bw.L(2)],
]

SET_SMALL = [{"b": bw.L(9)}, {"s": bw.L("q")}, {"b": ["ar", "add", bw.C_A, bw.L(1)]}, {"a": bw.C_B}, {"b": ["abs", bw.C_A]}]


def _reads_s(t):
    if t is None:
        return False
    if t[0] == "col":
        return t[1] == "s"
    return any(_reads_s(c) for c in bw.children(t))


def f3_cases(fam, tier):
    variant = {"returning": "clean", "query": "clean", "query_expired": "expired"}.get(fam, fam)
    crits = list(CRIT_CORE) + bw.core_atoms() + [["not", ["and", ["isnull", bw.C_A], ["cmp", "eq", bw.C_B, bw.L(0)]]],
                                                 ["and", ["notnull", bw.C_B], ["cmp", "le", bw.C_A, bw.C_B]]]
    if tier == "thorough":
        crits += bw.atoms0()
    seen = set()
    for crit in crits:
        if repr(crit) in seen:
            continue
        seen.add(repr(crit))
        if variant == "pending_noflush" and _reads_s(crit):
            continue
        for sync in ("evaluate", "auto", "fetch"):
            for kind in ("update", "delete"):
                for setc in (SET_SMALL if kind == "update" else [None]):
                    if variant == "pending_noflush" and setc and any(_reads_s(v) for v in setc.values()):
                        continue
                    c = dict(kind=kind, crit=crit, set=setc or {}, sync=sync, variant=variant)
                    if fam == "returning":
                        c["returning"] = True
                    if fam.startswith("query"):
                        c["route"] = "query"
                    yield c


def f4_cases(tier):
    ids = (1, 2, 5, 6, 7, 8, 3)
    payloads = ({"b": 9}, {"s": "q"}, {"a": None, "b": 0}, {"a": 5})
    plists = []
    for i in ids:
        for p in payloads:
            plists.append([dict(id=i, **p)])
    for i, j in ((1, 2), (5, 6), (3, 7), (6, 1), (8, 5)):
        for p in payloads:
            for q in payloads[:2] if tier == "quick" else payloads:
                plists.append([dict(id=i, **p), dict(id=j, **q)])
    for variant in ("clean", "expired", "partial_load", "pending_noflush"):
        for sync in ("evaluate", "auto", False, "fetch"):
            for pl in plists:
                if variant == "pending_noflush" and any("s" in p for p in pl):
                    continue
                yield dict(params=pl, sync=sync, variant=variant)


def run_shard(shard, tier, rec):
    fam = shard[0]
    if fam == "F1":
        _, part, parts = shard
        for idx, (level, crit) in enumerate(bw.criteria(tier)):
            if idx % parts != part:
                continue
            syncs = ["evaluate", "auto"]
            if level in ("L0", "L0a", "L1n", "L1"):
                syncs.append("fetch")
            if level in ("L0", "L0a"):
                syncs.append(False)
            for sync in syncs:
                for kind in ("update", "delete"):
                    case = dict(kind=kind, crit=crit, set={"b": bw.L(9)} if kind == "update" else {}, sync=sync, variant="clean")
                    _do(case, rec, rank=(4, idx, str(sync), kind))
            rec.count("criteria " + level)
    elif fam == "F2":
        i = 0
        for setc in bw.SET_CLAUSES:
            for crit in CRIT_CORE:
                for variant in ("clean", "expired"):
                    for sync in ("evaluate", "auto", "fetch"):
                        _do(dict(kind="update", crit=crit, set=setc, sync=sync, variant=variant), rec, rank=(0, i))
                        i += 1
    elif fam == "F3":
        for i, case in enumerate(f3_cases(shard[1], tier)):
            _do(case, rec, rank=(1, F3_FAMS.index(shard[1]), i))
    elif fam == "F4":
        for i, case in enumerate(f4_cases(tier)):
            _do(case, rec, bulk=True, rank=(2, i))
    elif fam == "F5":
        for i, case in enumerate(f5_cases(shard[1], shard[2], tier)):
            _do(case, rec, rank=(3, shard[1], F5_OPTS.index(shard[2]), i))


def finish(tier, total):
    """one finding per root-cause kind: of the per-shard first failures keep the one that
    comes first in the global enumeration order (quick-tier cases precede thorough-tier
    extras), so the signature does not depend on sharding, job count or seed"""
    best = {}
    for v in total.violations:
        c = v["case"] if isinstance(v["case"], dict) else {}
        k = c.get("_kind")
        if k is None:  # crash / hang records from the framework
            best[("nokind", v["sig"])] = v
            continue
        r = c.get("_rank") or []
        if k not in best or r < (best[k]["case"].get("_rank") or []):
            best[k] = v
    total.violations[:] = sorted(best.values(), key=lambda v: (v["case"].get("_rank") or [9]) if isinstance(v["case"], dict) else [9])
    return None


def replay(case):
    case = {k: v for k, v in case.items() if not k.startswith("_")}
    if case.pop("bulk", False):
        res = bw.run_bulk_case(case)
        return [("bulk-by-pk %s: params=%r sync=%r variant=%s" % (sym, case["params"], case["sync"], case.get("variant")), d)
                for sym, d, _, _ in res["problems"][:1]]
    res = bw.run_case(case)
    if not res["problems"]:
        return []
    return [(sig, detail) for _, sig, detail in bw.diagnose(case, res)]
