"""C28 event listeners fire exactly as registered.

Part 1 (engine H): BFS over listen / remove / contains / subclass-creation /
instance-creation / dispatch / _join / _update histories on a private
EventTarget hierarchy, registry reference model in lock-step; after every
transition every existing dispatch target is probed on a *replica* of the
state (fresh replay), so the expected listener list is checked in every state
without disturbing once-only listeners.

Part 2 (engine T): 2 threads racing through exec_once /
exec_once_unless_exception / _exec_w_sync_on_first_run / a once=True listener
/ Pool.connect() with a first_connect listener.
"""
import itertools

import sqlalchemy.event.attr as ev_attr
import sqlalchemy.event.registry as ev_registry
import sqlalchemy.pool.base as pbase
import sqlalchemy.pool.impl as pimpl
import sqlalchemy.util as sa_util
import sqlalchemy.util.compat as sa_compat
import sqlalchemy.util.langhelpers as sa_lang
import sqlalchemy.util.queue as squeue
from sqlalchemy import event
from sqlalchemy import exc
from sqlalchemy import pool

from ..engines import hist
from ..engines import threads as T

ID = "C28"
LEVEL = "model_checking"
META = dict(
    engine="H+T",
    technique="explicit-state BFS over listen/remove/subclass/dispatch histories with a registry reference model and replica probing of every target in every state; preemption-bounded thread-schedule exploration of exec-once dispatch",
    design_ref="DESIGN.md §5 C28",
    level_text="Sequential: every history (depth <=5 quick / <=6 thorough, canonical-state dedupe, listener-name symmetry reduction) of "
    "listen(target, fn, insert/once/named/propagate) / remove / contains / create-subclass / create-instance / dispatch / _join / _update "
    "over class A and the late-created sub-classes B(A), C(B) and their instances is replayed on the real event system; after every step each dispatch "
    "target is fired on a fresh replica and the exact call sequence (listener, positional-or-named arguments) is compared with the "
    "registry model. Concurrent: all schedules with <=2 (M-gil) / <=1 (M-ft) preemptions (thorough 3/2) of two threads running the "
    "exec-once family and Pool.connect with a first_connect listener; the once-body must run at most once and never in parallel.",
    level_note="Trusted: the 60-line registry model in this file; cooperative locks of vf/engines/threads.py. A listener function is "
    "registered on at most one target at a time (double registration has no documented meaning). retval= is not exercised (it has "
    "no effect on plain dispatch).",
    rule="state = canonical registry contents (per-class / per-instance ordered listener lists with flags and once-fired marks, existing "
    "classes/instances); transition = one op replayed on the real event system and on the model; T part: one schedule = one transition",
    assumptions=["single event 'ev(x, y)' on a private Events class", "listeners do not register/remove listeners while running"],
    bounds=dict(quick="H depth<=5 (canonical-state dedupe); T: gil 2 / ft 1", thorough="H depth<=6; T: gil 3 / ft 2, 3 threads gil 2 / ft 1"),
)
SHARD_TIMEOUT = dict(quick=600, thorough=3000)

import threading as _threading

_real_lock = _threading.Lock()

FLAGSETS = [(), ("insert",), ("once",), ("named",), ("propagate",), ("insert", "propagate"), ("once", "named")]
FN = ("f1", "f2", "f3")
CLASSES = ("A", "B", "C")
INSTS = ("a1", "b1", "c1")
PARENT = {"B": "A", "C": "B"}


# ---------------------------------------------------------------- world


class World:
    """fresh private event hierarchy; torn down explicitly"""

    def __init__(self):
        class TEvents(event.Events):
            def ev(self, x, y):
                pass

        class A:
            dispatch = event.dispatcher(TEvents)

        self.TEvents = TEvents
        self.cls = {"A": A}
        self.inst = {}
        self.joined = {}
        self.log = []
        self.fns = {}
        self.active = []
        for name in FN:
            self.fns[name] = self._mk(name)

    def _mk(self, name):
        log = self.log

        def fn(*a, **kw):
            log.append((name, a, tuple(sorted(kw.items()))))

        fn.__name__ = name
        # give the listener the event's argument names so named=True works
        def named(x, y):
            log.append((name, (), (("x", x), ("y", y))))

        named.__name__ = name + "_named"
        fn._named = named
        return fn

    def target(self, t):
        return self.cls[t] if t in self.cls else self.inst[t]

    def close(self):
        # the registry is keyed by id(target)/id(fn): deregister everything explicitly so that
        # a later world whose fresh classes/functions reuse these ids cannot see stale entries
        for t, f, flags in list(self.active):
            try:
                event.remove(self.target(t), "ev", listener_for(self, f, flags))
            except Exception:  # noqa
                pass
        self.active = []
        event.base._remove_dispatcher(self.TEvents)


def listener_for(w, f, flags):
    # named=True passes keyword arguments: use the variant with (x, y) signature
    return w.fns[f]._named if "named" in flags else w.fns[f]


def apply_op(w, op):
    """returns ('ok', value) | ('exc', ExceptionClass)"""
    kind = op[0]
    try:
        if kind == "listen":
            _, t, f, flags = op
            event.listen(w.target(t), "ev", listener_for(w, f, flags), **{k: True for k in flags})
            w.active.append((t, f, flags))
            return ("ok", None)
        if kind == "remove":
            _, t, f, flags = op
            event.remove(w.target(t), "ev", listener_for(w, f, flags))
            if (t, f, flags) in w.active:
                w.active.remove((t, f, flags))
            return ("ok", None)
        if kind == "contains":
            _, t, f, flags = op
            return ("ok", event.contains(w.target(t), "ev", listener_for(w, f, flags)))
        if kind == "mkclass":
            _, c = op
            w.cls[c] = type(c, (w.cls[PARENT[c]],), {})
            return ("ok", None)
        if kind == "mkinst":
            _, i = op
            w.inst[i] = w.cls[i[0].upper()]()
            return ("ok", None)
        if kind == "dispatch":
            _, i = op
            del w.log[:]
            w.inst[i].dispatch.ev(1, 2)
            return ("ok", list(w.log))
        if kind == "join":
            # local=b1 joined to parent=a1, as engines/connections do
            _, loc, par = op
            w.joined[(loc, par)] = w.inst[loc].dispatch._join(w.inst[par].dispatch)
            return ("ok", None)
        if kind == "dispatchj":
            _, loc, par = op
            del w.log[:]
            w.joined[(loc, par)].ev(1, 2)
            return ("ok", list(w.log))
        if kind == "update":
            # a brand-new instance of the same class inherits propagate=True listeners (Pool.recreate style)
            _, src, dst = op
            w.inst[dst] = w.cls[dst[0].upper()]()
            w.inst[dst].dispatch._update(w.inst[src].dispatch)
            return ("ok", None)
    except exc.InvalidRequestError:
        return ("exc", "InvalidRequestError")
    raise AssertionError(op)


# ---------------------------------------------------------------- model


class Model:
    """registry reference model (pure value: copy() is cheap)"""

    def __init__(self):
        self.classes = ["A"]
        self.insts = []
        self.joins = []
        self.cl = {"A": []}  # class -> ordered registration ids
        self.il = {}  # instance -> ordered registration ids
        self.reg = {}  # fn -> dict(target, flags, fired)
        self.prop = {}  # instance -> set of fns registered with propagate there

    def copy(self):
        m = Model.__new__(Model)
        m.classes = list(self.classes)
        m.insts = list(self.insts)
        m.joins = list(self.joins)
        m.cl = {k: list(v) for k, v in self.cl.items()}
        m.il = {k: list(v) for k, v in self.il.items()}
        m.reg = {k: dict(v) for k, v in self.reg.items()}
        m.prop = {k: set(v) for k, v in self.prop.items()}
        return m

    def subclasses(self, c):
        out = [c]
        for k in self.classes:
            p = k
            while p in PARENT:
                p = PARENT[p]
                if p == c:
                    out.append(k)
                    break
        return out

    def expected_calls(self, fns):
        """fns: ordered registration fn names -> expected log, marking once-fired"""
        out = []
        for f in fns:
            r = self.reg[f]
            if "once" in r["flags"]:
                if r["fired"]:
                    continue
                r["fired"] = True
            if "named" in r["flags"]:
                out.append((f, (), (("x", 1), ("y", 2))))
            else:
                out.append((f, (1, 2), ()))
        return out

    def listeners_of(self, i):
        return self.cl[i[0].upper()] + self.il[i]

    def apply(self, op):
        kind = op[0]
        if kind == "listen":
            _, t, f, flags = op
            self.reg[f] = dict(target=t, flags=flags, fired=False)
            if t in self.cl:
                for c in self.subclasses(t):
                    if "insert" in flags:
                        self.cl[c].insert(0, f)
                    else:
                        self.cl[c].append(f)
            else:
                if "insert" in flags:
                    self.il[t].insert(0, f)
                else:
                    self.il[t].append(f)
                if "propagate" in flags:
                    self.prop[t].add(f)
            return ("ok", None)
        if kind == "remove":
            _, t, f, flags = op
            r = self.reg.get(f)
            if r is None or r["target"] != t or r["flags"] != flags:
                return ("exc", "InvalidRequestError")
            del self.reg[f]
            for lst in list(self.cl.values()) + list(self.il.values()):
                while f in lst:
                    lst.remove(f)
            for s in self.prop.values():
                s.discard(f)
            return ("ok", None)
        if kind == "contains":
            _, t, f, flags = op
            r = self.reg.get(f)
            return ("ok", bool(r is not None and r["target"] == t and r["flags"] == flags))
        if kind == "mkclass":
            c = op[1]
            self.classes.append(c)
            self.cl[c] = list(self.cl[PARENT[c]])
            return ("ok", None)
        if kind == "mkinst":
            self.insts.append(op[1])
            self.il[op[1]] = []
            self.prop[op[1]] = set()
            return ("ok", None)
        if kind == "dispatch":
            return ("ok", self.expected_calls(self.listeners_of(op[1])))
        if kind == "join":
            self.joins.append((op[1], op[2]))
            return ("ok", None)
        if kind == "dispatchj":
            return ("ok", self.expected_calls(self.listeners_of(op[1]) + self.listeners_of(op[2])))
        if kind == "update":
            _, src, dst = op
            self.insts.append(dst)
            self.il[dst] = [f for f in self.il[src] if f in self.prop[src]]
            self.prop[dst] = set(self.prop[src])
            return ("ok", None)
        raise AssertionError(op)

    def enabled(self):
        ops = []
        used = set(self.reg)
        # listener-name symmetry: the next unused function is always the lowest-numbered one
        free = [f for f in FN if f not in used][:1]
        targets = list(self.classes) + [i for i in self.insts]
        for f in free:
            for t in targets:
                for flags in FLAGSETS:
                    if "propagate" in flags and t in self.cl:
                        continue  # propagate only matters for instance-level _update
                    ops.append(("listen", t, f, flags))
        for f, r in sorted(self.reg.items()):
            ops.append(("remove", r["target"], f, r["flags"]))
            ops.append(("contains", r["target"], f, r["flags"]))
            other = [t for t in targets if t != r["target"]][:1]
            for t in other:
                ops.append(("remove", t, f, r["flags"]))  # misuse: must raise InvalidRequestError
                ops.append(("contains", t, f, r["flags"]))
        # sub-classes are created late, one level at a time (a class whose collection does not exist
        # yet when its own sub-class is first used is the interesting case)
        for c in ("B", "C"):
            if c not in self.classes and PARENT[c] in self.classes:
                ops.append(("mkclass", c))
        for i in INSTS:
            if i not in self.insts and i[0].upper() in self.classes:
                ops.append(("mkinst", i))
        for i in self.insts:
            ops.append(("dispatch", i))
        if "a1" in self.insts and "b1" in self.insts and ("b1", "a1") not in self.joins:
            ops.append(("join", "b1", "a1"))
        for j in self.joins:
            ops.append(("dispatchj",) + j)
        for src in self.insts:
            dst = src[0] + "2"
            if len(src) == 2 and src.endswith("1") and dst not in self.insts and self.il[src]:
                ops.append(("update", src, dst))
        return ops

    def canon(self):
        return (
            tuple(self.classes), tuple(self.insts), tuple(self.joins),
            tuple(sorted((k, tuple(v)) for k, v in self.cl.items())),
            tuple(sorted((k, tuple(v)) for k, v in self.il.items())),
            tuple(sorted((f, r["target"], r["flags"], r["fired"]) for f, r in self.reg.items())),
            tuple(sorted((k, tuple(sorted(v))) for k, v in self.prop.items())),
        )


def build(history):
    w = World()
    for op in history:
        apply_op(w, op)
    return w


def seq_step_factory(rec):
    def step(hist_, ms, op):
        w = build(hist_)
        try:
            got = apply_op(w, op)
        except Exception as e:  # noqa
            got = ("raised", "%s: %s" % (type(e).__name__, e))
        finally:
            w.close()
        m = ms.copy()
        want = m.apply(op)
        case = dict(part="seq", history=[_j(h) for h in hist_], op=_j(op))
        nontriv = op[0] in ("dispatch", "dispatchj") and len(want[1]) >= 2
        rec.case((ms.canon(), op), nontrivial=nontriv)
        if got != want:
            rec.violation(
                "seq %s: after %s, %s -> got %r, registry model %r" % (op[0], _fmt(hist_), _fmt([op]), got, want),
                "history %r\nop %r\nimpl %r\nmodel %r" % (hist_, op, got, want), case, kind=("seq", op[0], op[3] if len(op) > 3 else None),
            )
            return None
        rec.outcome(("seq", repr(got)))
        # probe every dispatch target on a replica of the new state
        newhist = hist_ + (op,)
        for probe in [("dispatch", i) for i in m.insts] + [("dispatchj",) + j for j in m.joins]:
            w2 = build(newhist)
            try:
                got2 = apply_op(w2, probe)
            except Exception as e:  # noqa
                got2 = ("raised", "%s: %s" % (type(e).__name__, e))
            finally:
                w2.close()
            want2 = m.copy().apply(probe)
            rec.trace()
            if got2 != want2:
                rec.violation(
                    "seq probe %s: after %s -> got %r, registry model %r" % (_fmt([probe]), _fmt(newhist), got2, want2),
                    "history %r\nprobe %r\nimpl %r\nmodel %r" % (newhist, probe, got2, want2),
                    dict(part="seq", history=[_j(h) for h in newhist], op=_j(probe)), kind=("probe", op[0], op[3] if len(op) > 3 else None),
                )
                return None
        if nontriv:
            rec.sample(dict(part="sequential", history=[_fmt([h]) for h in newhist], calls=[c[0] for c in want[1]]), limit=4)
        return m, ("seq", m.canon())

    return step


def _j(op):
    return [list(x) if isinstance(x, tuple) else x for x in op]


def _t(op):
    return tuple(tuple(x) if isinstance(x, list) else x for x in op)


def _fmt(hist_):
    out = []
    for op in hist_:
        if op[0] in ("listen", "remove", "contains"):
            out.append("%s(%s,%s%s)" % (op[0], op[1], op[2], "".join("," + f for f in op[3])))
        else:
            out.append("%s(%s)" % (op[0], ",".join(op[1:])))
    return "[" + " ".join(out) + "]"


# ---------------------------------------------------------------- concurrent part

T_FILES = {ev_attr.__file__, ev_registry.__file__, squeue.__file__, pimpl.__file__, pbase.__file__}


class OnceHarness:
    """two/three threads race through one exec-once style entry point"""

    def __init__(self, kind, nthreads=2, fail_first=False):
        self.kind = kind
        self.fail_first = fail_first
        self.files = set(T_FILES)
        if kind == "once_listener":
            self.files.add(sa_lang.__file__)
        self.bodies = [self._body] * nthreads

    def patches(self, model):
        p = [
            (ev_attr, "threading", T.FakeThreading),
            (squeue, "threading", T.FakeThreading),
            (pimpl, "threading", T.FakeThreading),
            (squeue, "_time", T.FAKE_TIME.time),
            (pbase, "time", T.FAKE_TIME),
        ]
        if model == "ft":
            rl = T.CoopRLock()
            p += [(sa_util, "mini_gil", rl), (sa_compat, "mini_gil", rl)]
        # module-level real locks of the scheduling set must be cooperative too
        for name, val in list(vars(ev_attr).items()):
            if type(val).__name__ == "lock" and isinstance(val, type(_real_lock)):
                p.append((ev_attr, name, T.CoopLock()))
        return p

    def setup(self, ex):
        ctx = dict(runs=0, active=0, overlap=0, ok_runs=0, returned=[], errors=[], raised=0, order=[])
        kind = self.kind

        def listener(*a, **kw):
            ctx["active"] += 1
            if ctx["active"] > 1:
                ctx["overlap"] += 1
            ctx["runs"] += 1
            n = ctx["runs"]
            vt = T.cur_vt()
            if vt is not None:
                vt.point()  # the body takes time: others may run meanwhile
            ctx["active"] -= 1
            if self.fail_first and n == 1:
                ctx["raised"] += 1
                raise ValueError("first run fails")
            ctx["ok_runs"] += 1

        if kind == "pool_first_connect":
            class Conn:
                def close(self):
                    pass

                def rollback(self):
                    pass

            p = pool.QueuePool(lambda: Conn(), pool_size=2, max_overflow=1, timeout=10)
            event.listen(p, "first_connect", listener)
            ctx["pool"] = p
        else:
            w = World()
            w.inst["a1"] = w.cls["A"]()
            if kind == "once_listener":
                event.listen(w.inst["a1"], "ev", listener, once=True)
            else:
                event.listen(w.inst["a1"], "ev", listener)
            ctx["w"] = w
            ctx["coll"] = w.inst["a1"].dispatch.ev
        return ctx

    def _body(self, ctx, tid):
        kind = self.kind
        try:
            if kind == "exec_once":
                ctx["coll"].exec_once(1, 2)
            elif kind == "exec_once_unless_exception":
                ctx["coll"].exec_once_unless_exception(1, 2)
            elif kind == "exec_w_sync":
                ctx["coll"]._exec_w_sync_on_first_run(1, 2)
            elif kind == "once_listener":
                ctx["coll"](1, 2)
            elif kind == "pool_first_connect":
                f = ctx["pool"].connect()
                f.close()
            ctx["returned"].append((tid, ctx["ok_runs"], ctx["active"]))
        except ValueError:
            ctx["returned"].append((tid, "ValueError"))
        except Exception as e:  # noqa
            ctx["errors"].append("thread %d: %s: %s" % (tid, type(e).__name__, e))

    def check(self, ex, ctx):
        v = []
        kind = self.kind
        n = len(self.bodies)
        if ctx["errors"]:
            v.append("error: %s" % ctx["errors"][0])
        for vt in ex.vts.values():
            if vt.exc is not None:
                v.append("error: thread %d raised %r" % (vt.tid, vt.exc))
        if kind == "exec_w_sync":
            # every call runs the listeners, but until the first run succeeded no two run in parallel
            if ctx["runs"] != n:
                v.append("runs: _exec_w_sync_on_first_run ran the listener %d times for %d calls" % (ctx["runs"], n))
        else:
            if ctx["ok_runs"] > 1:
                v.append("runs: once-only listener body completed %d times" % ctx["ok_runs"])
            if not self.fail_first and ctx["runs"] != 1 and not ex.aborted:
                v.append("runs: once-only listener ran %d times (expected exactly once after all threads finished)" % ctx["runs"])
            if self.fail_first and kind in ("exec_once",) and ctx["runs"] > 1:
                v.append("runs: exec_once retried after an exception (%d runs)" % ctx["runs"])
        if ctx["overlap"] and kind != "once_listener":
            v.append("overlap: listener body ran in two threads at the same time")
        if kind in ("exec_once", "exec_once_unless_exception", "pool_first_connect") and not self.fail_first:
            # a thread that lost the race must not return before the winner finished the body
            for r in ctx["returned"]:
                if len(r) == 3 and (r[1] < 1 or r[2] > 0):
                    v.append("early-return: thread %d returned while the once-only body had not finished" % r[0])
                    break
        if "w" in ctx:
            ctx["w"].close()
        outcome = (ctx["runs"], ctx["ok_runs"], ctx["overlap"], tuple(sorted(map(str, ctx["returned"]))), tuple(v))
        return outcome, v


T_KINDS = [
    ("exec_once", False), ("exec_once", True), ("exec_once_unless_exception", False), ("exec_once_unless_exception", True),
    ("exec_w_sync", False), ("exec_w_sync", True), ("once_listener", False), ("pool_first_connect", False), ("pool_first_connect", True),
]


# ---------------------------------------------------------------- driver


def shards(tier, seed):
    out = [["seq", k] for k in range(16)]
    for kind, ff in T_KINDS:
        for model in ("gil", "ft"):
            out.append(["thr", kind, ff, model, 2])
    if tier == "thorough":
        for kind, ff in (("exec_once_unless_exception", True), ("pool_first_connect", False), ("exec_once", False)):
            for model in ("gil", "ft"):
                out.append(["thr", kind, ff, model, 3])
    return out


def run_shard(shard, tier, rec):
    if shard[0] == "seq":
        depth = 5 if tier == "quick" else 6
        m0 = Model()
        # fan-out: the first op partitions the space
        first = m0.enabled()
        step = seq_step_factory(rec)
        roots = []
        if shard[1] == 0:
            rec.state(("seq", m0.canon()))
        for idx, op in enumerate(first):
            if idx % 16 != shard[1]:
                continue
            rec.transition()
            rec.trace()
            out = step((), m0, op)
            if out is not None:
                roots.append(((op,), out[0], out[1]))
        hist.explore(rec, roots, lambda ms: ms.enabled(), step, depth=depth - 1)
        return
    _, kind, ff, model, nthreads = shard
    h = OnceHarness(kind, nthreads, ff)
    if tier == "quick":
        bound = 2 if model == "gil" else 1
    else:
        bound = (3 if model == "gil" else 2) if nthreads == 2 else (2 if model == "gil" else 1)
    label = "%s%s/%dthr/%s" % (kind, "+fail_first" if ff else "", nthreads, model)
    st = T.explore(h, model, bound, rec, label, max_execs=200000)
    rec.case((label, bound), nontrivial=True, n=st["execs"])
    rec.count("schedules_%s" % model, st["execs"])
    rec.sample(dict(part="concurrent", harness=label, preemption_bound=bound, schedules=st["execs"], choice_points=[st["min_points"], st["max_points"]]), limit=8)
    for choices, outcome, problems in st["violations"][:1]:
        kindv = problems[0].split(":")[0]
        rec.violation(
            "thr %s %s%s model=%s: %s" % (kindv, kind, "+fail_first" if ff else "", model, problems[0]),
            "schedule %r\nproblems: %s" % (choices, "; ".join(problems)),
            dict(part="thr", kind=kind, fail_first=ff, model=model, nthreads=nthreads, schedule=choices), kind=(kindv, kind, ff, model),
        )


def replay(case):
    from .. import core

    if case["part"] == "seq":
        rec = core.Rec(ID)
        hist_ = tuple(_t(h) for h in case["history"])
        m = Model()
        for h in hist_:
            m.apply(h)
        try:
            seq_step_factory(rec)(hist_, m, _t(case["op"]))
        except core.StopShard:
            pass
        return [(v["sig"], v["detail"]) for v in rec.violations]
    h = OnceHarness(case["kind"], case["nthreads"], case["fail_first"])
    outcome, problems = T.replay_schedule(h, case["model"], case["schedule"])
    return [("thr %s %s%s model=%s: %s" % (p.split(":")[0], case["kind"], "+fail_first" if case["fail_first"] else "", case["model"], p), p) for p in problems[:1]]
