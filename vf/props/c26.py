"""C26 pool fault recovery: fault enumeration over pool histories (engine F over H).

A real ``Pool`` object (QueuePool(1,1), QueuePool(2,0) LIFO, NullPool, StaticPool,
SingletonThreadPool) is built directly on the pure fake driver of ``vf.engines.faults``
(connections are ledger entries; the real ``SQLiteDialect_pysqlite`` bound to the fake module
gives ``is_disconnect`` / ``do_ping`` / ``do_rollback``), with ``pre_ping`` on/off and
``recycle`` off / 50 virtual seconds (``time`` as seen by ``sqlalchemy.pool.base`` is a virtual
clock).  A history is a sequence over (i = holder 0/1; second holder only for QueuePool)

    co_i (checkout)       co_i with the checkout listener raising DisconnectionError /
                          InvalidatePoolError on its first call
                          co_i while, *during its creator call*, another connection's disconnect invalidates the pool
                          (``pool._invalidate(failing fairy, error)`` as ``Connection._handle_dbapi_exception`` does), or
                          the recycle time elapses -- the overlap a second thread would produce, made deterministic
    iso_i (register the isolation-level reset callback that Connection.execution_options(isolation_level=...) registers)
    ci_i (fairy.close())  inv_i hard / soft      detach_i      drop_i (del fairy: refcount-zero weakref callback)
    dispose               recreate (dispose + use pool.recreate(), as Engine.dispose does)
    tick (clock += recycle + 10)                 restart (every open DBAPI connection dies)

and every operation may carry an injected driver fault -- *the j-th driver call made by this
operation* (connect, ping cursor/execute, reset rollback, close) raises a disconnect-class
error or a plain error (thorough: also KeyboardInterrupt, see scope notes) -- at every position, learnt from the
fault-free run of the same operation in the same state; <= 1 fault per history quick, <= 2
thorough.  BFS with canonical-state dedupe.

Oracle (the statement; checked after every operation):
 I1 a connection is never handed out (returned by a successful checkout) after it was
    hard-invalidated / the pool saw a driver error on it, nor -- once its holder released it --
    after it was soft-invalidated, pre-dated a pool invalidation (checkout listener
    InvalidatePoolError, failed pre-ping) or exceeded ``recycle``; with ``pre_ping`` a dead
    connection is never handed out;
 I2 a connection the pool has discarded receives no driver call except ``close``;
 I3 only DBAPI / SQLAlchemy errors escape pool calls; a
    fault-free checkout with spare capacity succeeds;
 and then, destructively on the same objects (every transition is replayed from scratch):
 Q1 all holders release -> ``checkedout() == 0`` and ``overflow() == checkedin() - size()`` (QueuePool);
 Q2 after checking out every idle connection, every DBAPI connection the ledger still has open
    is one of those (idle in the pool) -- everything else had ``close()`` attempted; detached
    connections were closed on release;
 Q3 the drained connections satisfy I1; returning them and a further fault-free
    ``checkout; close`` succeeds.

Scope notes.  The thorough tier also injects ``KeyboardInterrupt`` (BaseException -- the class SQLAlchemy's own
``is_exit_exception`` handling is about: KeyboardInterrupt, GreenletExit, CancelledError) into connect / ping / reset
calls -- not into the driver's ``close()``, after which the driver connection's state is unknowable.  After such a
fault the derived invariant I2 and the "pool invalidation" bookkeeping of the interrupted operation are not demanded;
Q1-Q3 and I1 are, and any failure of them is reported under the single signature SIG_EXIT.  StaticPool /
SingletonThreadPool: dispose only with nothing checked out; StaticPool's replaced (soft / pool-invalidated) connection
is not counted as a leak (documented partial support).  A detached fairy that is dropped without close() is the
application's, not the pool's.

Genuine findings (stable signatures SIG_DISPOSE, SIG_DETACHED -- both fixed in /repo by ab0116d / 10141e8 -- and
SIG_EXIT; patches in /verif/proposed_fixes/c26_*.diff; with them applied the check is silent and
test/engine/test_pool.py passes):
 * QueuePool.dispose() with connections checked out resets ``_overflow`` to ``-size``: once they are returned
   checkedout()/overflow() are negative (and the pool would then exceed pool_size + max_overflow);
 * ``_finalize_fairy``: a detached connection whose rollback-on-return raises is never closed;
 * ``_finalize_fairy``: a BaseException out of rollback-on-return is re-raised before ``connection_record.checkin()``:
   the QueuePool slot is lost for good / SingletonThreadPool keeps handing out the dead fairy (thorough tier; fixed in
   /repo by 053d3d7);
 * SIG_CHAR (open, listed in known_findings.json): ``_ConnectionRecord.checkin`` runs the ``finalize_callback`` entries
   (isolation-level reset) unprotected; a driver error in one escapes ``close()`` / the GC callback before
   ``pool._return_conn``: slot lost (QueuePool), connection leaked (NullPool), or handed out again with the foreign
   isolation level / dead (StaticPool, SingletonThreadPool).  Every symptom of this root cause maps to SIG_CHAR.

Mutations caught (private copy, README rule 6; each produced new VIOLATION signatures):
 M1 pool/impl.py QueuePool._do_get: `_dec_overflow()` skipped when the creator fails     -> Q1-checkedout (=1 after release)
 M2 pool/base.py _ConnectionRecord._checkin_failed: `self.checkin(...)` removed          -> Q1-checkedout
 M3 _ConnectionFairy._checkout: record not invalidated on a listener DisconnectionError -> I1-discarded-connection-handed-out
 M5 _checkout: `fresh = False` dropped (pre-ping skipped forever)                        -> I1-dead-connection-handed-out
 M6 get_connection: `_soft_invalidate_time > starttime` reversed                         -> I1-stale-connection-handed-out
 M7 Pool._invalidate: stamp comparison reversed (pool invalidation lost)                 -> I1-stale-connection-handed-out
 M8 get_connection: recycle without `__close()`                                          -> Q2-connection-leaked
 M9 __connect: `starttime` stamped after the creator call                                -> I1-stale-connection-handed-out
    (only the "pool invalidated / recycle time passes during connect()" operations expose it)
 M10 Pool._invalidate: no stamp when the disconnect is reported without a record          -> I1-stale-connection-handed-out
 M11 get_connection: starttime refreshed after a recycle decision                         -> I1-stale-connection-handed-out
("soft invalidate during connect()" cannot be expressed: while the creator runs the record has no connection and
``invalidate(soft=True)`` returns at once; at ``connect``-event time either stamping order precedes it.)
"""
from __future__ import annotations

import functools
import gc
import logging
import sqlite3
import sys
import warnings
from collections import deque

from sqlalchemy import event
from sqlalchemy import exc as sa_exc
from sqlalchemy import pool as sa_pool

from .. import core
from ..engines import faults

ID = "C26"
LEVEL = "fault_enumeration"
DEPTH = dict(quick=4, thorough=4)
MAXF = dict(quick=1, thorough=2)
KINDS = dict(quick=("disc", "err"), thorough=("disc", "err", "exit"))
RECYCLE = 50
POOLS = ("queue11", "queue20lifo", "null", "static", "singleton")
META = dict(
    engine="F",
    technique="fault injection at every driver-call position of every pool operation in every reachable state "
    "(BFS over histories with canonical-state dedupe, pure fake DBAPI with open/closed ledger, virtual clock)",
    design_ref="DESIGN.md §5 C26",
    level_text="All single-threaded histories of <=4 pool operations (checkout, checkout with a "
    "DisconnectionError / InvalidatePoolError raised by a checkout listener, isolation-level reset callback, close, hard / soft invalidate, detach, "
    "garbage-collected fairy, dispose, recreate, clock tick beyond recycle, database restart) for <=2 holders on "
    "QueuePool(1,1), QueuePool(2,0,LIFO), NullPool, StaticPool, SingletonThreadPool x pre_ping on/off x recycle "
    "off/on, with <=1 (quick) / <=2 (thorough) injected driver errors (disconnect-class, plain; thorough also KeyboardInterrupt) at "
    "every driver call of every operation.  After every operation the hand-out and discard invariants are checked on "
    "the ledger, then all holders release and the pool is drained to compare its idle set with the ledger's open set.",
    level_note="Trusted: the fake driver and ledger (vf/engines/faults.py) and this driver's bookkeeping of which "
    "connections are retired.  Single-threaded (C25 explores schedules).  The pool is driven directly, not through an "
    "Engine (C27 does that).",
    rule="case = (pool configuration, history, operation, fault position, fault kind); non-trivial = a fault / listener "
    "error / restart / invalidation fired in the history; distinct by canonical state x op x fault",
    assumptions=["single thread", "virtual clock advancing on every read", "fake driver: any call on a dead connection "
                 "raises the disconnect-class error"],
    bounds=dict(
        quick="histories <=4 ops, <=1 driver fault (disconnect/plain) at every call, 20 configurations",
        thorough="histories <=4 ops, <=2 driver faults (disconnect/plain/KeyboardInterrupt) at every call, 20 configurations",
    ),
)
SHARD_TIMEOUT = dict(quick=300, thorough=1700)
SIG_DISPOSE = ("Q1: QueuePool.dispose() while connections are checked out resets the overflow counter -> "
               "after every holder released, checkedout() is negative")
SIG_EXIT = ("BaseException (KeyboardInterrupt) out of a driver call the pool makes while releasing / discarding a "
            "connection skips the check-in: the pool slot is lost (checkedout() stays > 0, later checkouts time out)")
SIG_CHAR = ("an error raised by the isolation-level reset callback (finalize_callback) during check-in escapes and the "
            "record is never returned to the pool: the slot is lost")
SIG_DETACHED = ("Q2: a detached connection whose reset-on-return fails is dropped without close() ever being attempted")
logging.getLogger("sqlalchemy").addHandler(logging.NullHandler())


def make_pool(kind, creator, dialect, pp, recycle):
    kw = dict(dialect=dialect, pre_ping=pp, recycle=recycle, reset_on_return="rollback")
    if kind == "queue11":
        return sa_pool.QueuePool(creator, pool_size=1, max_overflow=1, timeout=0, **kw)
    if kind == "queue20lifo":
        return sa_pool.QueuePool(creator, pool_size=2, max_overflow=0, timeout=0, use_lifo=True, **kw)
    if kind == "null":
        return sa_pool.NullPool(creator, **kw)
    if kind == "static":
        return sa_pool.StaticPool(creator, **kw)
    if kind == "singleton":
        return sa_pool.SingletonThreadPool(creator, **kw)
    raise AssertionError(kind)


def nholders(kind):
    return 2 if kind.startswith("queue") or kind == "null" else 1


# --------------------------------------------------------------------- harness-side bookkeeping (the "model")


class M:
    """holders: per holder None | 'held' | 'detached' | 'invalid' (fairy still referenced after hard invalidate)
    hard: cids the pool discarded (no call but close, never handed out)
    spoiled: dispose() ran while connections were checked out (known finding SIG_DISPOSE: counters are off afterwards)
    external: detached connections the application dropped without close() -- no longer the pool's business
    soft: cids that must not be handed out again once released (soft invalidation, pool invalidation, recycle)
    epoch: number of ticks; born[cid] = epoch at creation
    iso: holders that registered an isolation-level characteristic (reset callback runs at check-in)
    charerr: a driver error hit such a reset callback (known finding SIG_CHAR)"""

    __slots__ = ("holders", "hard", "soft", "epoch", "nfaults", "spoiled", "external", "exited", "iso", "charerr")

    def __init__(self, holders, hard=frozenset(), soft=frozenset(), epoch=0, nfaults=0, spoiled=False, external=frozenset(),
                 exited=False, iso=frozenset(), charerr=False):
        (self.holders, self.hard, self.soft, self.epoch, self.nfaults, self.spoiled, self.external, self.exited, self.iso,
         self.charerr) = (holders, hard, soft, epoch, nfaults, spoiled, external, exited, iso, charerr)

    def replace(self, **kw):
        d = {k: getattr(self, k) for k in self.__slots__}
        d.update(kw)
        return M(**d)


def base_ops(m, cfg):
    kind, pp, rc = cfg
    ops = []
    for i, h in enumerate(m.holders):
        if h is None:
            ops += [("co", i, None), ("co", i, "disc"), ("co", i, "discpool"), ("co", i, "inval_during")]
            if rc > 0:
                ops.append(("co", i, "tick_during"))
        else:
            ops.append(("ci", i))
            if h == "held":
                ops += [("inv", i, "hard"), ("inv", i, "soft"), ("detach", i)]
                if i not in m.iso:
                    ops.append(("iso", i))
            ops.append(("drop", i))
    # StaticPool / SingletonThreadPool.dispose() close their connection even while it is checked out (by design; the
    # docs call their reconnect support partial), so dispose is only explored with nothing checked out there
    if kind.startswith("queue") or kind == "null" or not any(m.holders):
        ops += [("dispose",), ("recreate",)]
    ops.append(("restart",))
    if rc > 0:
        ops.append(("tick",))
    return ops


def op_name(op):
    if op[0] == "co":
        return "co%d%s" % (op[1], "" if op[2] is None else {
            "disc": "[listener:DisconnectionError]", "discpool": "[listener:InvalidatePoolError]",
            "inval_during": "[pool invalidated during connect()]", "tick_during": "[recycle time passes during connect()]"}[op[2]])
    if op[0] == "inv":
        return "invalidate%d(%s)" % (op[1], op[2])
    if len(op) == 2:
        return "%s%d" % ({"ci": "close", "detach": "detach", "drop": "del+gc", "iso": "isolation_level_option"}[op[0]], op[1])
    return op[0]


# --------------------------------------------------------------------- world


class Env:
    def __init__(self):
        self.clock = faults.VirtualClock()
        self._cm = faults.pool_clock(self.clock)
        self._cm.__enter__()
        self.fake = faults.FakeDBAPI(faults.Ledger())
        self.dialect = self.fake.dialect()
        self.dialect.default_isolation_level = "SERIALIZABLE"  # what Dialect.initialize() records on first connect
        self.n = 0

    def dispose(self):
        self._cm.__exit__(None, None, None)


class _NoFairy:
    """stands for 'the disconnect was seen on a connection that is not checked out from here'"""


class World:
    def __init__(self, env, cfg):
        kind, pp, rc = cfg
        env.n += 1
        if env.n % 256 == 0:
            gc.collect()
        self.env = env
        self.cfg = cfg
        self.led = led = faults.Ledger()
        env.fake._vf_ledger = led
        env.clock.now = 1000.0
        self.born = {}
        self.epoch = 0
        self.raise_next = None
        self.listener_fired = []
        self.handed = []  # (cid, dead at hand-out) per successful checkout event sequence

        self.owner = {}
        self.using = 0  # index (in self.pools) of the pool currently being asked for a connection

        self.during = None   # what happens while the next creator call is in progress (overlap hooks)
        self.overlap = []    # (kind, cid being created, cid of the fairy the invalidation was reported on)

        def creator():
            c = env.fake.connect()
            self.born[c._vf_cid] = self.epoch
            self.owner[c._vf_cid] = self.using
            d, self.during = self.during, None
            if d == "inval_during":
                # a disconnect seen elsewhere invalidates the pool right now, before this connect() returns: the pool-wide
                # half of what Connection._handle_dbapi_exception does, engine.pool._invalidate(<failing connection>, error).
                # (The failing connection is represented by an object without a record, so the stamp is always taken; the
                # per-connection half is the inv_i(hard) op.)
                self.overlap.append((d, c._vf_cid, None))
                self.pool._invalidate(_NoFairy(), sqlite3.ProgrammingError(faults.DISCONNECT_MSG))
            elif d == "tick_during":
                self.overlap.append((d, c._vf_cid, None))
                env.clock.advance(RECYCLE + 10)
                self.epoch += 1
            return c

        self.creator = creator
        self.pool = make_pool(kind, creator, env.dialect, pp, rc if rc else -1)
        self.pools = [self.pool]
        event.listen(self.pool, "checkout", self._on_checkout)
        self.holders = [None] * nholders(kind)

    def _on_checkout(self, dbapi_conn, rec, fairy):
        k = self.raise_next
        if k is not None:
            self.raise_next = None
            self.listener_fired.append((k, dbapi_conn._vf_cid))
            if k == "discpool":
                raise sa_exc.InvalidatePoolError("listener says: server restarted")
            raise sa_exc.DisconnectionError("listener says: connection gone")

    def cid(self, fairy):
        return self.led.cid_of(fairy)

    def apply(self, op, fault):
        """-> (outcome ok|raise|exit|crash, exception, ledger slice)"""
        led = self.led
        start = len(led.log)
        led.plan.clear()
        if fault is not None:
            led.plan[led.n + fault[0]] = fault[1]
        self.raise_next = None
        del self.listener_fired[:]
        del self.overlap[:]
        try:
            k = op[0]
            if k == "co":
                self.raise_next = op[2] if op[2] in ("disc", "discpool") else None
                self.during = op[2] if op[2] in ("inval_during", "tick_during") else None
                self.using = len(self.pools) - 1
                try:
                    self.holders[op[1]] = self.pool.connect()
                finally:
                    self.raise_next = None
                    self.during = None
            elif k == "ci":
                f = self.holders[op[1]]
                self.holders[op[1]] = None
                f.close()
            elif k == "inv":
                self.holders[op[1]].invalidate(soft=(op[2] == "soft"))
            elif k == "detach":
                self.holders[op[1]].detach()
            elif k == "iso":
                # what Connection.execution_options(isolation_level="AUTOCOMMIT") does to the pooled connection:
                # pysqlite's set_isolation_level + DefaultDialect._set_connection_characteristics' reset registration
                f = self.holders[op[1]]
                f.dbapi_connection.isolation_level = None
                f._connection_record.finalize_callback.append(
                    functools.partial(self.env.dialect._reset_characteristics, {"isolation_level": "AUTOCOMMIT"}))
            elif k == "drop":
                self.holders[op[1]] = None  # refcount zero -> the pool's weakref callback runs here, deterministically
            elif k == "dispose":
                self.pool.dispose()
            elif k == "recreate":
                self.pool.dispose()
                self.pool = self.pool.recreate()
                self.pools.append(self.pool)
            elif k == "tick":
                self.env.clock.advance(RECYCLE + 10)
                self.epoch += 1
            elif k == "restart":
                for ci in led.conns.values():
                    if ci.open:
                        ci.dead = True
            out, err = "ok", None
        except (sa_exc.SQLAlchemyError, sqlite3.Error) as e:
            out, err = "raise", e
        except KeyboardInterrupt as e:
            out, err = "exit", e
        except Exception as e:
            out, err = "crash", e
        led.plan.clear()
        return out, err, led.log[start:]


# --------------------------------------------------------------------- lock-step evaluation


class Res:
    __slots__ = ("model", "calls", "key")

    def __init__(self, model, calls, key=None):
        self.model, self.calls, self.key = model, calls, key


def fault_name(f):
    return "" if f is None else "!%s@call%d" % (f[1], f[0])


def make_step(rec, env, cfg):
    kind, pp, rc = cfg
    is_queue = kind.startswith("queue")

    def step(hist_, ms, opf):
        with warnings.catch_warnings():
            warnings.simplefilter("ignore")
            return _step(hist_, ms, opf)

    def _step(hist_, ms, opf):
        op, fault = opf
        w = World(env, cfg)
        for o, f in hist_:
            w.apply(o, f)
        led = w.led
        open_before = {c.cid for c in led.conns.values() if c.open}
        held_before = [w.cid(f) if f is not None else None for f in w.holders]
        dead_before = {c.cid for c in led.conns.values() if c.dead}
        outcome, err, sl = w.apply(op, fault)
        fired = [c for c in sl if c.fault is not None]
        if fault is not None and not fired:
            return Res(None, sl)
        case = dict(cfg=list(cfg), history=[[list(o), list(f) if f else None] for o, f in hist_],
                    op=[list(op), list(fault) if fault else None])
        names = [op_name(o) + fault_name(f) for o, f in list(hist_) + [opf]]
        hs = ",".join(h or "-" for h in ms.holders)
        errs = [c for c in sl if c.fault is not None or (c.dead and c.kind != "close")]
        evs = "+".join(sorted({"%s at %s" % (c.fault if c.fault else "dead", c.kind) for c in errs})) or "-"
        sit = "%s [pool=%s pre_ping=%d recycle=%d holders=%s] driver errors: %s" % (op_name(op), kind, int(pp), rc, hs, evs)
        nontrivial = bool(errs) or bool(ms.hard or ms.soft) or op[0] in ("inv", "restart", "drop", "detach", "iso") or (
            op[0] == "co" and op[2] is not None)
        rec.case((cfg, hist_, opf), nontrivial=nontrivial)
        rec.transition()
        rec.trace()

        exit_now = any(c.fault == "exit" for c in sl)
        exited = ms.exited or exit_now

        charerr = ms.charerr or (op[0] in ("ci", "drop") and op[1] in ms.iso and (
            outcome != "ok" or any(c.kind in ("cursor", "execute", "cursor_close") for c in errs)))
        probe_charerr = []

        def bad(k, what):
            if (charerr or probe_charerr) and k.split("-")[0] in ("Q1", "Q2", "Q3", "I3", "I1", "I4", "discarded"):
                rec.violation(SIG_CHAR, "cfg %s history %s: %s: %s\nledger of the last op: %s" % (
                    list(cfg), names, k, what, [repr(c) for c in sl][:30]), case, kind="char-reset-slot-loss")
                rec.count("char_reset_findings")
                return Res(None, sl)
            if exited and k.split("-")[0] in ("Q1", "Q3", "I3", "I1"):
                rec.violation(SIG_EXIT, "cfg %s history %s: %s: %s\nledger of the last op: %s" % (
                    list(cfg), names, k, what, [repr(c) for c in sl][:30]), case, kind="exit-slot-loss")
                rec.count("exit_slot_loss_findings")
                return Res(None, sl)
            rec.violation("%s: %s -> %s" % (k, sit, what), "cfg %s history %s: %s\nledger of the last op: %s\nconnections: %s"
                          % (list(cfg), names, what, [repr(c) for c in sl][:30], sorted(led.conns.values(), key=lambda c: c.cid)),
                          case, kind=(k, sit))
            return Res(None, sl)

        # ---- I3: what may escape
        if outcome == "crash":
            return bad("internal-error", "%s: %s" % (type(err).__name__, str(err)[:160]))
        if outcome == "exit" and not any(c.fault == "exit" for c in sl):
            return bad("internal-error", "KeyboardInterrupt without an injected one")
        # ---- I2: discarded connections get no call but close
        for c in sl:
            if ms.exited:
                break  # an interrupted invalidate()/close() may leave a closed connection on its record: recoverable
            if c.cid in ms.hard and c.kind != "close":
                return bad("discarded-connection-used", "driver call %s on a connection the pool had discarded" % c.kind)

        # ---- bookkeeping: which connections are retired by this operation
        iso = set(ms.iso)
        if op[0] == "iso" and outcome == "ok":
            iso.add(op[1])
        elif op[0] in ("ci", "drop", "detach") or (op[0] == "inv" and op[2] == "hard"):
            iso.discard(op[1])
        hard, soft, external = set(ms.hard), set(ms.soft), set(ms.external)
        spoiled = ms.spoiled
        holders = list(ms.holders)
        k = op[0]
        # the pool saw a driver error on these connections (first error per connection)
        seen_err = []
        for c in errs:
            if c.cid is not None and c.cid not in seen_err and c.kind != "connect":
                seen_err.append(c.cid)
        ping_disc = False
        if k == "co":
            i = op[1]
            cid_now = w.cid(w.holders[i]) if w.holders[i] is not None else None
            # pool-wide invalidation: InvalidatePoolError from the listener, or a failed pre-ping (disconnect class)
            for (ok_, ncid, ocid) in w.overlap:
                # the connection being opened while the invalidation / recycle deadline happened pre-dates it
                if ok_ == "inval_during":
                    if ocid is not None:
                        hard.add(ocid)
                        for j, hc in enumerate(held_before):
                            if hc == ocid and j != i:
                                holders[j] = "invalid"
                                iso.discard(j)
                    # (the overlapping invalidation has completed by the time the creator returns: an exit-class fault
                    # at a *later* driver call of the same checkout does not undo it)
                    soft |= {c for c in open_before if w.owner.get(c) == w.using} | {ncid}
                # ("tick_during": born[ncid] < epoch already marks it stale for the recycle check below)
            for (lk, lcid) in w.listener_fired:
                hard.add(lcid)
                if lk == "discpool" and not exit_now:  # (an interrupted invalidation is no invalidation)
                    soft |= {c for c in open_before if c != cid_now and w.owner.get(c) == w.using}
            if pp:
                for c in errs:
                    if c.kind in ("cursor", "execute", "cursor_close") and (c.fault == "disc" or (c.fault is None and c.dead)):
                        ping_disc = True
                if ping_disc and not exit_now:
                    soft |= {c for c in open_before if c != cid_now and w.owner.get(c) == w.using}
            hard |= set(seen_err)
            if outcome == "ok":
                holders[i] = "held"
                if cid_now is None:
                    return bad("checkout-without-connection", "fairy has no DBAPI connection")
                ci = led.conns[cid_now]
                if cid_now in hard:
                    return bad("I1-discarded-connection-handed-out", "checkout returned a connection the pool had discarded")
                # the checkout that *creates* a connection while the invalidation / deadline happens may still return it
                # (unknowable whether it is stale); from its release on it must be replaced like any older connection
                just_made = {n for (_, n, _) in w.overlap}
                if cid_now in ms.soft or (cid_now in soft and cid_now not in just_made):
                    return bad("I1-stale-connection-handed-out", "checkout returned a connection that was soft-invalidated / "
                               "older than a pool invalidation / past recycle without replacing it")
                if rc and w.born[cid_now] < w.epoch and cid_now not in just_made:
                    return bad("I1-stale-connection-handed-out", "checkout returned a connection older than recycle")
                if not ci.open:
                    return bad("I1-closed-connection-handed-out", "checkout returned a connection whose close() was called")
                if pp and ci.dead:
                    return bad("I1-dead-connection-handed-out", "pre_ping is on but checkout returned a dead connection")
                if ci.obj.isolation_level != "":
                    return bad("I4-isolation-left", "checkout returned a connection whose isolation_level attribute is %r"
                               % (ci.obj.isolation_level,))
            else:
                holders[i] = None
                w.holders[i] = None
                if not errs and not w.listener_fired and op[2] is None:
                    return bad("I3-spurious-checkout-failure", "%s: %s" % (type(err).__name__, str(err)[:100]))
        else:
            hard |= set(seen_err)
            if k in ("ci", "drop"):
                if ms.holders[op[1]] == "detached":
                    dcid = held_before[op[1]]
                    if k == "drop":
                        external.add(dcid)
                    elif dcid is not None and led.conns[dcid].open:
                        if not errs:
                            return bad("Q2-detached-not-closed", "close() of a detached connection did not close it")
                        rec.violation(SIG_DETACHED, "cfg %s history %s\nledger of the last op: %s" % (
                            list(cfg), names, [repr(c) for c in sl]), case, kind="detached-reset")
                        rec.count("detached_reset_findings")
                        external.add(dcid)
                holders[op[1]] = None
            elif k in ("dispose", "recreate"):
                if is_queue and any(h == "held" for h in ms.holders):
                    spoiled = True
            elif k == "inv":
                cid = None
                f = w.holders[op[1]]
                if op[2] == "hard":
                    holders[op[1]] = "invalid"
                    # the connection the holder had
                    for c in sl:
                        if c.kind == "close":
                            hard.add(c.cid)
                else:
                    cid = w.cid(f)
                    if cid is not None:
                        soft.add(cid)
            elif k == "detach":
                holders[op[1]] = "detached"
            if outcome != "ok" and not errs:
                return bad("I3-spurious-failure", "%s: %s" % (type(err).__name__, str(err)[:100]))
        # connections closed by the pool are gone for good
        for c in sl:
            if c.kind == "close":
                hard.add(c.cid)
        m2 = M(tuple(holders), frozenset(hard), frozenset(soft), w.epoch, ms.nfaults + (1 if fired else 0), spoiled,
               frozenset(external), exited, frozenset(iso), charerr)
        key = canon(w, m2)
        rec.outcome((op[0], op[-1] if op[0] in ("co", "inv") else None, outcome, type(err).__name__ if err else None, evs,
                     key[2:]))

        # ---- quiescence probe (destructive; the next transition replays from scratch)
        led.plan.clear()
        external = set(m2.external)
        for i, f in enumerate(w.holders):
            if f is not None:
                cid = w.cid(f)
                w.holders[i] = None
                start = len(led.log)
                raised = False
                try:
                    f.close()
                except (sa_exc.SQLAlchemyError, sqlite3.Error):
                    raised = True
                except Exception as e:
                    return bad("internal-error", "release of holder %d: %s: %s" % (i, type(e).__name__, e))
                del f
                if i in m2.iso and (raised or any(c.dead and c.kind in ("cursor", "execute", "cursor_close")
                                                  for c in led.log[start:])):
                    probe_charerr.append(i)  # the reset callback failed on a dead connection: SIG_CHAR territory
                if m2.holders[i] == "detached" and cid is not None and led.conns[cid].open:
                    if not any(c.dead and c.kind != "close" for c in led.log[start:]):
                        return bad("Q2-detached-not-closed", "close() of a detached connection did not close it")
                    rec.violation(SIG_DETACHED, "cfg %s history %s, then close() of the detached connection\nledger: %s" % (
                        list(cfg), names, [repr(c) for c in led.log[start:]]), case, kind="detached-reset")
                    rec.count("detached_reset_findings")
                    external.add(cid)
        for p in w.pools:
            if isinstance(p, sa_pool.QueuePool):
                okc = p.checkedout() == 0 and p.overflow() == p.checkedin() - p.size()
                if not okc and m2.spoiled and not m2.exited and not m2.charerr and not probe_charerr:
                    rec.violation(SIG_DISPOSE, "cfg %s history %s: all holders released but checkedout()=%d checkedin()=%d "
                                  "overflow()=%d" % (list(cfg), names, p.checkedout(), p.checkedin(), p.overflow()),
                                  case, kind="dispose-counters")
                    rec.count("dispose_counter_findings")
                elif p.checkedout() != 0:
                    return bad("Q1-checkedout", "all holders released but checkedout()=%d (checkedin=%d overflow=%d)"
                               % (p.checkedout(), p.checkedin(), p.overflow()))
                elif not okc:
                    return bad("Q1-overflow", "all holders released but overflow()=%d, checkedin()-size()=%d"
                               % (p.overflow(), p.checkedin() - p.size()))
        drained = []
        dr_cids = set()
        for pi, p in enumerate(w.pools):
            w.using = pi
            n = p.checkedin() if isinstance(p, sa_pool.QueuePool) else (0 if isinstance(p, sa_pool.NullPool) else 1)
            if p is not w.pool and not isinstance(p, sa_pool.QueuePool):
                n = 0
            for _ in range(n):
                start = len(led.log)
                try:
                    f = p.connect()
                except Exception as e:
                    return bad("Q3-checkout-after-recovery-fails", "%s: %s" % (type(e).__name__, str(e)[:100]))
                cid = w.cid(f)
                drained.append(f)
                dr_cids.add(cid)
                ci = led.conns[cid]
                if cid in m2.hard or not ci.open:
                    return bad("I1-discarded-connection-handed-out", "after recovery, checkout returned a discarded / closed connection")
                if cid in m2.soft or (rc and w.born[cid] < w.epoch):
                    return bad("I1-stale-connection-handed-out", "after recovery, checkout returned a stale connection")
                if pp and ci.dead:
                    return bad("I1-dead-connection-handed-out", "after recovery, pre_ping checkout returned a dead connection")
                if ci.obj.isolation_level != "":
                    return bad("I4-isolation-left", "after recovery, checkout returned a connection whose isolation_level "
                               "attribute is %r" % (ci.obj.isolation_level,))
                for c in led.log[start:]:
                    if m2.exited:
                        break
                    if c.cid in m2.hard and c.kind != "close":
                        return bad("discarded-connection-used", "driver call %s on a discarded connection during checkout" % c.kind)
        leaked = sorted(c.cid for c in led.conns.values() if c.open and c.cid not in dr_cids and c.cid not in external)
        if kind == "static":
            # StaticPool replaces a soft- / pool-invalidated record without closing the old connection, which other
            # users of the shared record may still be using (documented "partially supported"): not counted as a leak
            leaked = [c for c in leaked if c not in m2.soft]
        if leaked:
            return bad("Q2-connection-leaked", "open DBAPI connection(s) neither idle in the pool nor closed: %s"
                       % ["c%d" % c for c in leaked])
        for f in drained:
            try:
                f.close()
            except Exception as e:
                return bad("Q3-checkin-after-recovery-fails", "%s: %s" % (type(e).__name__, str(e)[:100]))
        try:
            w.using = len(w.pools) - 1
            f = w.pool.connect()
            f.close()
        except Exception as e:
            return bad("Q3-checkout-after-recovery-fails", "%s: %s" % (type(e).__name__, str(e)[:100]))
        del f, drained
        if errs and (len(hist_) + len(sl)) % 5 == 2:
            rec.sample(dict(pool=kind, pre_ping=pp, recycle=rc, history=names, escaped=None if err is None else type(err).__name__,
                            discarded=sorted(m2.hard), stale=sorted(m2.soft), ledger=[repr(c) for c in sl][:12]))
        return Res(m2, sl, key)

    return step


def canon(w, m2):
    led = w.led
    p = w.pool
    held = {}
    for i, f in enumerate(w.holders):
        if f is not None:
            held[w.cid(f)] = i
    conns = tuple(sorted(
        (held.get(c.cid, -1), c.cid in m2.hard, c.cid in m2.soft, c.dead, w.born.get(c.cid, 0) < w.epoch)
        for c in led.conns.values() if c.open))
    counters = ()
    if isinstance(p, sa_pool.QueuePool):
        counters = (p.checkedin(), p.checkedout(), p.overflow())
    # private bookkeeping, for the canonical key only (never consulted by the oracle): what a later checkout consults
    it = getattr(p, "_invalidate_time", 0)

    def recflags(r):
        if r is None:
            return None
        return (r.dbapi_connection is None, bool(r.fresh), r.starttime < it, r._soft_invalidate_time > r.starttime,
                len(r.finalize_callback), r.fairy_ref is not None)

    hidden = []
    q = getattr(getattr(p, "_pool", None), "queue", None)
    if q is not None:
        hidden.append(tuple(recflags(r) for r in q))
    if "connection" in p.__dict__:
        hidden.append(recflags(p.__dict__["connection"]))
    hidden.append(tuple(recflags(getattr(f, "_connection_record", None)) if f is not None else None for f in w.holders))
    counters = counters + (tuple(hidden),)
    inval = it > 0
    return (w.cfg, len(w.pools) > 1, m2.holders, conns, counters, inval, m2.nfaults, m2.spoiled, m2.exited,
            tuple(sorted(m2.iso)), m2.charerr)


def fault_allowed(call, kind):
    # a BaseException raised *by the driver's close()* leaves the driver connection in an unknowable state; the exit
    # kind is injected into connect / ping / reset calls only (the statement's "errors during reset", "failing pre-ping")
    return kind != "exit" or call.kind not in ("close", "cursor_close")


def explore(rec, env, cfg, tier, roots, depth):
    step = make_step(rec, env, cfg)
    kinds, maxf = KINDS[tier], MAXF[tier]
    frontier = deque()
    for h, m, key in roots:
        if rec.state(key):
            frontier.append((tuple(h), m, 0))
    while frontier:
        h, m, d = frontier.popleft()
        if d >= depth:
            continue
        for op in base_ops(m, cfg):
            variants = [None]
            vi = 0
            while vi < len(variants):
                f = variants[vi]
                vi += 1
                r = step(h, m, (op, f))
                overlap_op = op[0] == "co" and op[2] in ("inval_during", "tick_during")
                if f is None and m.nfaults < maxf and not (tier == "quick" and overlap_op):
                    # (quick: the overlap checkouts are explored in every state but not combined with a fault of their own)
                    for j, c in enumerate(r.calls):
                        if not (c.dead and c.kind != "connect"):
                            variants += [(j, k) for k in kinds if fault_allowed(c, k)]
                if r.model is None:
                    continue
                if rec.state(r.key):
                    frontier.append((h + ((op, f),), r.model, d + 1))


def configs():
    return [(k, pp, rc) for k in POOLS for pp in (False, True) for rc in (0, RECYCLE)]


def shards(tier, seed):
    out = []
    for c in configs():
        m0 = M((None,) * nholders(c[0]))
        for op in base_ops(m0, c):
            out.append([list(c), list(op)])
    return out


def run_shard(shard, tier, rec):
    gc.disable()
    old_hook = sys.unraisablehook
    sys.unraisablehook = lambda u: None  # an injected KeyboardInterrupt inside a weakref callback is "unraisable"
    cfg = tuple(shard[0])
    first = tuple(shard[1])
    env = Env()
    try:
        # the shard owns every history that starts with `first` (all its fault variants included)
        step = make_step(rec, env, cfg)
        m0 = M((None,) * nholders(cfg[0]))
        kinds = KINDS[tier]
        variants = [None]
        roots = []
        vi = 0
        while vi < len(variants):
            f = variants[vi]
            vi += 1
            r = step((), m0, (first, f))
            if f is None and not (tier == "quick" and first[0] == "co" and first[2] in ("inval_during", "tick_during")):
                for j, c in enumerate(r.calls):
                    variants += [(j, k) for k in kinds if fault_allowed(c, k)]
            if r.model is not None:
                roots.append((((first, f),), r.model, r.key))
        explore(rec, env, cfg, tier, roots, DEPTH[tier] - 1)
    finally:
        env.dispose()
        gc.enable()
        sys.unraisablehook = old_hook


def _opf(x):
    return (tuple(x[0]), tuple(x[1]) if x[1] else None)


def replay(case):
    rec = core.Rec(ID)
    silent = core.Rec(ID)
    cfg = (case["cfg"][0], bool(case["cfg"][1]), case["cfg"][2])
    env = Env()
    gc.disable()
    try:
        h = tuple(_opf(x) for x in case["history"])
        m = M((None,) * nholders(cfg[0]))
        sstep = make_step(silent, env, cfg)
        ok = True
        for i, of in enumerate(h):
            r = sstep(h[:i], m, of)
            if r.model is None:
                ok = False
                break
            m = r.model
        if ok:
            try:
                make_step(rec, env, cfg)(h, m, _opf(case["op"]))
            except core.StopShard:
                pass
    finally:
        env.dispose()
    return [(v["sig"], v["detail"]) for v in rec.violations]
