"""C41 ORM queries return the rows their relational meaning specifies.

Engine I, two independent oracles per term: (a) ``vf.models.relalg`` -- a
Python relational evaluator over the generated rows (3VL by
``vf.models.sql3vl``); (b) the harness's own Core translation of the term
(Table aliases, explicit ON clauses, explicit EXISTS) executed on SQLite.  The
ORM result, as a bag of ``(entity identity | column value, ...)`` tuples, must
equal both; ``select(count()).select_from(stmt.subquery())`` and
``select(stmt.exists())`` must agree with the number of rows returned.
A disagreement between the two oracles is a harness error (exit 2), never a
violation.  Failing terms are reduced greedily (drop ops / post / root
modifier / criteria, re-root at the first join target) before they are
reported as ``<kind>: <minimal term>``.

Mutations caught (private copy, VF_REPO=/tmp/wt-query):
  * orm/relationships.py Comparator._criterion_exists: many-to-many any() loses the secondary->target half of
    the join condition (``j = pj``)                      -> cartesian-warning / wrong-rows: U2:Item ANY(0,tags,...)
  * orm/context.py _adjust_for_extra_criteria: single-table-inheritance criterion not adapted to the aliased /
    derived entity (``if adapter and False``)             -> cartesian-warning / wrong-rows: U4:Boss[union(..)] ...
  * orm/relationships.py _create_joins: relationship.and_() criteria dropped when the relationship has a secondary
                                                          -> wrong-rows: U2:Item[plain] J(0,tags,left,plain,p0,on)
  * orm/loading.py instances(): single-entity rows de-duplicated although unique() was not requested
                                                          -> wrong-rows / count-mismatch: U1:Grandchild J(0,child,inner,...) proj=ent/1
"""
from __future__ import annotations

import itertools
import os
import warnings

from sqlalchemy import and_
from sqlalchemy import create_engine
from sqlalchemy import exists as sa_exists
from sqlalchemy import func
from sqlalchemy import inspect
from sqlalchemy import literal
from sqlalchemy import not_
from sqlalchemy import or_
from sqlalchemy import select
from sqlalchemy import union as sa_union
from sqlalchemy import union_all as sa_union_all
from sqlalchemy.orm import aliased
from sqlalchemy.orm import Session
from sqlalchemy.pool import StaticPool

from ..models import relalg as ra
from ..worlds import queryworld as qw

ID = "C41"
LEVEL = "exploration"
META = dict(
    engine="I",
    technique="exhaustive enumeration of a 12-constructor ORM query algebra x generated data sets; differential against a "
    "Python relational evaluator AND an independent Core translation executed on SQLite",
    design_ref="DESIGN.md §5 C41",
    level_text="Query terms over three mappings (one-to-many chain, many-to-many, joined+single inheritance): entity select, "
    "column select, join along a relationship (inner / left outer / full outer; plain, aliased or of_type() target; criterion in "
    "WHERE or in the ON clause via relationship.and_()), aliased root, FROM-subquery root, UNION / UNION ALL root, any() / has() "
    "(also negated), contains(obj), explicit correlated EXISTS, DISTINCT, GROUP BY entity + count and GROUP BY column + count, "
    "with criteria from a six-predicate pool that includes NULL-sensitive predicates. ALL terms with <=2 (quick) / <=3 "
    "(thorough) constructors are built three times -- ORM statement, Core statement, relational-algebra program -- and run on "
    "every data set of the bound; the three result bags must coincide, and count()/exists() over the ORM statement must agree "
    "with the rows it returned.",
    level_note="Trusted: SQLite, relalg (90 lines) + sql3vl, the harness's schema description. The two oracles are independent of "
    "each other; a disagreement between them is reported as a harness error, never as a violation. Result order is not part of "
    "the algebra (bags are compared).",
    rule="case = (term, data set); non-trivial = the expected bag is non-empty AND the term contains at least one join / "
    "relationship predicate / derived root (ORM adaptation took part)",
    assumptions=["SQLite 3.40 executes the emitted SQL correctly (incl. FULL OUTER JOIN)", "entities are compared by (base class, primary key)"],
    bounds=dict(
        quick="all terms with <=2 constructors (parameter deviation rules in terms(); U4 two-constructor terms with the lean sets); "
        "U1 <=2 parents x <=2 children, U2 <=2 items x <=2 tags all link subsets, U4 1 company x <=2 persons x <=1 machine (sorted type vectors)",
        thorough="all terms with <=3 constructors; U1 <=2 parents x <=3 children, U2 <=3x2, U4 1 company x <=2 persons x <=1 machine + 2 companies x 2 persons of different types",
    ),
)
SHARD_TIMEOUT = dict(quick=900, thorough=3000)

# ------------------------------------------------------------------ the harness's own schema description

SCHEMA = {
    "U1": dict(
        ents=dict(
            Parent=dict(tables=["parent"], num="x", k="b"),
            Child=dict(tables=["child"], num="v", k="k"),
            Grandchild=dict(tables=["grandchild"], num="v", k="z"),
        ),
        rels={
            ("Parent", "children"): ("Child", "o2m", "parent_id"),
            ("Child", "parent"): ("Parent", "m2o", "parent_id"),
            ("Child", "grandchildren"): ("Grandchild", "o2m", "child_id"),
            ("Grandchild", "child"): ("Child", "m2o", "child_id"),
        },
    ),
    "U2": dict(
        ents=dict(Item=dict(tables=["item"], num="x", k="b"), Tag=dict(tables=["tag"], num="v", k="k")),
        rels={
            ("Item", "tags"): ("Tag", "m2m", ("item_tag", "item_id", "tag_id")),
            ("Tag", "items"): ("Item", "m2m", ("item_tag", "tag_id", "item_id")),
        },
    ),
    "U4": dict(
        ents=dict(
            Company=dict(tables=["company"], num="id", k="b"),
            Person=dict(tables=["person"], num="v", k="k"),
            Engineer=dict(tables=["person", "engineer"], num="v", k="k", base="Person"),
            Manager=dict(tables=["person", "manager"], num="v", k="k", base="Person"),
            Boss=dict(tables=["person", "manager"], num="v", k="k", base="Person", types=("boss",)),
            Machine=dict(tables=["machine"], num="id", k="m1"),
        ),
        rels={
            ("Company", "employees"): ("Person", "o2m", "company_id"),
            ("Person", "company"): ("Company", "m2o", "company_id"),
            ("Engineer", "company"): ("Company", "m2o", "company_id"),
            ("Manager", "company"): ("Company", "m2o", "company_id"),
            ("Boss", "company"): ("Company", "m2o", "company_id"),
            ("Engineer", "machines"): ("Machine", "o2m", "engineer_id"),
            ("Machine", "owner"): ("Engineer", "m2o", "engineer_id"),
        },
    ),
}
SUBTYPES = {"Person": ("Engineer", "Manager")}


def base_of(U, ent):
    return SCHEMA[U]["ents"][ent].get("base", ent)


# criteria pool: name -> (orm/core builder over (num column, name column), sql3vl AST over ("col", num/name))


def _pool(num, k):
    n, s = ("col", num), ("col", "name")
    return {
        "p0": (lambda N, S: N >= 1, ("ge", n, ("lit", 1, "N"))),
        "p1": (lambda N, S: N.is_(None), ("is_null", n)),
        "p2": (lambda N, S: S == k, ("eq", s, ("lit", k, "S"))),
        "p3": (lambda N, S: S != k, ("ne", s, ("lit", k, "S"))),
        "p4": (lambda N, S: not_(N == 1), ("not", ("eq", n, ("lit", 1, "N")))),
        "p5": (lambda N, S: or_(N == 2, S.is_(None)), ("or", ("eq", n, ("lit", 2, "N")), ("is_null", s))),
    }


POOLS = {(U, e): _pool(spec["num"], spec["k"]) for U, d in SCHEMA.items() for e, spec in d["ents"].items()}
PNAMES = ("p0", "p1", "p2", "p3", "p4", "p5")

# ------------------------------------------------------------------ terms
#
# term = (U, root, rootmod, basecrit, ops, proj, post)
#   rootmod : "plain" | "aliased" | "subq" | ("union"|"union_all", crit2)
#   ops     : ("J", src, rel, kind, tmod, crit, place) | ("ANY", src, rel, crit, neg) | ("CONTAINS", src, rel, pk)
#             | ("EXISTS", src, rel, crit)
#   proj    : ("ent", i, ...) | ("cols", i) | ("ent+col", i, j)
#   post    : None | "distinct" | ("group_ent", j) | "group_col"


def scope_of(term):
    """entity names in scope: root + one per J"""
    U, root, rootmod, basecrit, ops, proj, post = term
    sc = [root]
    for op in ops:
        if op[0] == "J":
            tgt = SCHEMA[U]["rels"][(sc[op[1]], op[2])][0]
            if isinstance(op[4], tuple):
                tgt = op[4][1]
            sc.append(tgt)
    return sc


def n_constructors(term):
    U, root, rootmod, basecrit, ops, proj, post = term
    return (rootmod != "plain") + len(ops) + (post is not None)


def _ops_choices(U, scope, plain_taken, level):
    """all single ops applicable in this scope; level = richness of the parameter sets (1 rich .. 3 lean)"""
    out = []
    for i, ent in enumerate(scope):
        for (src, rel), (tgt, kind, fk) in SCHEMA[U]["rels"].items():
            if src != ent:
                continue
            tmods = ["aliased"]
            if base_of(U, tgt) not in plain_taken:
                tmods.insert(0, "plain")
            if level <= 2:
                for sub in SUBTYPES.get(tgt, ()):
                    if base_of(U, sub) not in plain_taken:
                        tmods.append(("of_type", sub))
            elif len(tmods) == 2:
                tmods = ["plain"]
            if level == 1:
                crits = [(None, "where"), ("p0", "where"), ("p0", "on"), ("p3", "where"), ("p3", "on")]
            elif level == 2:
                crits = [(None, "where"), ("p0", "on")]
            else:
                crits = [(None, "where")]
            for jk in ("inner", "left", "full"):
                for tm in tmods:
                    for c, place in crits:
                        out.append(("J", i, rel, jk, tm, c, place))
            for c in ((None, "p0", "p3") if level == 1 else ((None, "p3") if level == 2 else ("p3",))):
                for neg in (False, True):
                    out.append(("ANY", i, rel, c, neg))
            if kind in ("o2m", "m2m"):
                for pk in ((1, 2) if level == 1 else (1,)):
                    out.append(("CONTAINS", i, rel, pk))
            if level <= 2:
                for c in ((None, "p0") if level == 1 else ("p0",)):
                    out.append(("EXISTS", i, rel, c))
    return out


def _projs(scope, ops, level):
    out = [("ent", 0)]
    js = [k for k, op in enumerate(ops) if op[0] == "J"]
    if js:
        last = len(js)  # scope index of the last joined entity
        out.append(("ent", 0, last))
        if level == 1:
            out.append(("ent", last))
            out.append(("ent+col", 0, last))
            out.append(("cols", last))
    if level == 1 and not js:
        out.append(("cols", 0))
    return out


def terms(U, maxc, lean2=False):
    """all terms with <= maxc constructors, simplest first.  Parameter deviation rule (level = number of
    constructors, capped at 3): 0 constructors: all six base criteria; 1: rich parameter sets (join criterion in WHERE
    and in ON, five projections, both contains() targets), base criterion none/p3; 2: reduced sets (join criterion none
    or p0 in ON, projection root / root+last target), base criterion none/p3; 3: lean sets (no criteria on joins, plain
    targets where possible), no base criterion."""
    ents = list(SCHEMA[U]["ents"])
    out = []
    for size in range(0, maxc + 1):
        level = max(1, min(size, 3))
        if lean2 and size == 2:
            level = 3
        for root in ents:
            if size == 0:
                for bc in (None,) + PNAMES:
                    out.append((U, root, "plain", bc, (), ("ent", 0), None))
                    out.append((U, root, "plain", bc, (), ("cols", 0), None))
                continue
            if level == 1:
                rootmods = ["plain", "aliased", "subq", ("union", "p1"), ("union", "p2"), ("union_all", "p1"), ("union_all", "p2")]
            elif level == 2:
                rootmods = ["plain", "aliased", "subq", ("union", "p1"), ("union_all", "p1")]
            else:
                rootmods = ["plain", "aliased", "subq", ("union", "p1")]
            for rootmod in rootmods:
                rcost = 0 if rootmod == "plain" else 1
                if rcost > size:
                    continue
                for post in (None, "distinct", "group", "group_col"):
                    pcost = 0 if post is None else 1
                    nops = size - rcost - pcost
                    if nops < 0:
                        continue
                    plain0 = {base_of(U, root)} if rootmod == "plain" else set()
                    for ops in _op_seqs(U, [root], plain0, nops, level):
                        sc = scope_of((U, root, rootmod, None, ops, None, None))
                        crits = (None, "p3") if level <= 2 else (None,)
                        if isinstance(rootmod, tuple):
                            crits = ("p0", "p3") if level == 1 else ("p0",)  # union of two filtered selects
                        for bc in crits:
                            if post == "group":
                                js = [k for k, op in enumerate(ops) if op[0] == "J"]
                                if not js:
                                    continue
                                out.append((U, root, rootmod, bc, ops, ("ent", 0), ("group_ent", len(js))))
                            elif post == "group_col":
                                if ops and level > 1:
                                    continue
                                out.append((U, root, rootmod, bc, ops, ("cols", 0), "group_col"))
                            else:
                                for proj in _projs(sc, ops, level):
                                    out.append((U, root, rootmod, bc, ops, proj, post))
    return out


def _op_seqs(U, scope, plain_taken, n, level):
    """canonical op sequences: joins first (each may start from any entity in scope), then predicates"""
    if n == 0:
        yield ()
        return
    choices = _ops_choices(U, scope, plain_taken, level)
    for op in choices:
        if op[0] != "J":
            continue
        tgt = SCHEMA[U]["rels"][(scope[op[1]], op[2])][0]
        if isinstance(op[4], tuple):
            tgt = op[4][1]
        pt2 = plain_taken if op[4] == "aliased" else plain_taken | {base_of(U, tgt)}
        for rest in _op_seqs(U, scope + [tgt], pt2, n - 1, level):
            yield (op,) + rest
    preds = [op for op in choices if op[0] != "J"]
    if n == 1:
        for op in preds:
            yield (op,)
    else:
        for combo in itertools.combinations(preds, n):
            yield combo


# ------------------------------------------------------------------ relational meaning (relalg)


def ent_rows(U, ent, data, apply_types=True):
    spec = SCHEMA[U]["ents"][ent]
    rows = [dict(r) for r in data.get(spec["tables"][0], ())]
    for t in spec["tables"][1:]:
        sub = {r["id"]: r for r in data.get(t, ())}
        rows = [dict(sub[r["id"]], **r) for r in rows if r["id"] in sub]
    if "types" in spec and apply_types:
        rows = [r for r in rows if r["type"] in spec["types"]]
    return rows


def _link(U, src_ent, rel, data):
    """3VL link predicate f(src_row, tgt_row)"""
    tgt, kind, fk = SCHEMA[U]["rels"][(src_ent, rel)]
    if kind == "o2m":
        return lambda s, t: ra.eq3(s["id"], t[fk])
    if kind == "m2o":
        return lambda s, t: ra.eq3(s[fk], t["id"])
    tab, a, b = fk
    links = {(l[a], l[b]) for l in data.get(tab, ())}
    return lambda s, t: (s["id"], t["id"]) in links


class NotApplicable(Exception):
    pass


def eval_relalg(term, data):
    U, root, rootmod, basecrit, ops, proj, post = term
    pool0 = POOLS[(U, root)]
    derived = rootmod == "subq" or isinstance(rootmod, tuple)
    # single-table-inheritance criteria of the root entity are WHERE criteria of the statement (documented:
    # "limiting the SELECT statement with additional WHERE criteria"), i.e. they apply after the joins
    rows = ent_rows(U, root, data, apply_types=derived)

    def filt(rs, crit, ent):
        if crit is None:
            return rs
        p = ra.col_pred(POOLS[(U, ent)][crit][1], "r")
        return [r for r in rs if p({"r": r}) is True]

    if isinstance(rootmod, tuple):
        a = filt(rows, basecrit, root)
        b = filt(rows, rootmod[1], root)
        if rootmod[0] == "union":
            ids = []
            rows = [r for r in a + b if not (r["id"] in ids or ids.append(r["id"]))]
        else:
            rows = a + b
    elif rootmod == "subq":
        rows = filt(rows, basecrit, root)  # criterion inside the derived table
    rel = ra.scan(rows, "e0")
    late = []
    rtypes = SCHEMA[U]["ents"][root].get("types")
    if rtypes:
        late.append(lambda env, rtypes=rtypes: None if env.get("e0") is None else env["e0"]["type"] in rtypes)
    if rootmod in ("plain", "aliased") and basecrit:
        late.append(ra.col_pred(pool0[basecrit][1], "e0"))  # WHERE applies after the joins
    scope = [root]
    for op in ops:
        if op[0] == "J":
            _, src, relname, jk, tmod, crit, place = op
            tgt = SCHEMA[U]["rels"][(scope[src], relname)][0]
            if isinstance(tmod, tuple):
                tgt = tmod[1]
            kind_, fk_ = SCHEMA[U]["rels"][(scope[src], relname)][1:]
            sa, ta = "e%d" % src, "e%d" % len(scope)
            cp = ra.col_pred(POOLS[(U, tgt)][crit][1], ta) if crit else None
            trows = ent_rows(U, tgt, data)
            if kind_ == "m2m":
                # the relationship joins to (secondary JOIN target): an unlinked target row is not part of the right side
                tab, a, b = fk_
                byid = {t["id"]: t for t in trows}
                right = [{ta: byid[l[b]], ta + "_link": l} for l in data.get(tab, ()) if l[b] in byid]
                if cp is not None and place == "on":
                    # relationship.and_() criteria on a many-to-many go to the secondary->target join, i.e. they
                    # restrict the right side (matters for FULL joins only)
                    right = [env for env in right if cp(env) is True]
                    cp = None

                def link(env, sa=sa, ta=ta, a=a):
                    return ra.eq3(env[sa]["id"], env[ta + "_link"][a])
            else:
                right = ra.scan(trows, ta)
                lf = _link(U, scope[src], relname, data)

                def link(env, sa=sa, ta=ta, lf=lf):
                    return lf(env[sa], env[ta])

            def on(env, link=link, sa=sa, ta=ta, cp=cp, place=place):
                if env.get(sa) is None or env.get(ta) is None:
                    return None
                v = link(env)
                if cp is not None and place == "on":
                    v = ra.and3(v, cp(env))
                return v

            rel = ra.join(rel, right, on, jk)
            if cp is not None and place == "where":
                late.append(cp)  # WHERE applies after all joins (matters for FULL joins that follow)
            scope.append(tgt)
        elif op[0] in ("ANY", "EXISTS"):
            src, relname, crit = op[1], op[2], op[3]
            neg = op[4] if op[0] == "ANY" else False
            tgt = SCHEMA[U]["rels"][(scope[src], relname)][0]
            link = _link(U, scope[src], relname, data)
            trows = ent_rows(U, tgt, data)
            cp = ra.col_pred(POOLS[(U, tgt)][crit][1], "t") if crit else None
            sa = "e%d" % src

            def pred(env, link=link, trows=trows, cp=cp, sa=sa, neg=neg):
                s = env.get(sa)
                found = False
                if s is not None:
                    for t in trows:
                        if link(s, t) is True and (cp is None or cp({"t": t}) is True):
                            found = True
                            break
                return (not found) if neg else found

            rel = ra.where(rel, pred)
        elif op[0] == "CONTAINS":
            _, src, relname, pk = op
            tgt, kind, fk = SCHEMA[U]["rels"][(scope[src], relname)]
            trow = [t for t in ent_rows(U, tgt, data) if t["id"] == pk]
            if not trow:
                raise NotApplicable()
            trow = trow[0]
            sa = "e%d" % src
            if kind == "o2m":
                rel = ra.where(rel, lambda env, sa=sa, v=trow[fk]: None if env.get(sa) is None else ra.eq3(env[sa]["id"], v))
            else:
                link = _link(U, scope[src], relname, data)
                rel = ra.where(rel, lambda env, sa=sa, link=link, trow=trow: env.get(sa) is not None and link(env[sa], trow))
    for p in late:
        rel = ra.where(rel, p)
    spec = SCHEMA[U]["ents"]

    def ent_val(env, i):
        r = env.get("e%d" % i)
        return None if r is None else ("E", base_of(U, scope[i]), r["id"])

    def col_vals(env, i):
        r = env.get("e%d" % i)
        n = spec[scope[i]]["num"]
        return (None, None, None) if r is None else (r["id"], r[n], r["name"])

    if isinstance(post, tuple) and post[0] == "group_ent":
        j = post[1]
        return ra.group_count(rel, lambda env: (ent_val(env, 0),), lambda env: None if env.get("e%d" % j) is None else env["e%d" % j]["id"])
    if post == "group_col":
        n = spec[root]["num"]
        return ra.group_count(rel, lambda env: (env["e0"][n],), None)
    if proj[0] == "ent":
        bag = ra.project(rel, lambda env: [ent_val(env, i) for i in proj[1:]])
    elif proj[0] == "cols":
        bag = ra.project(rel, lambda env: col_vals(env, proj[1]))
    else:
        bag = ra.project(rel, lambda env: [ent_val(env, proj[1]), col_vals(env, proj[2])[1]])
    if post == "distinct":
        bag = ra.distinct(bag)
    return bag


# ------------------------------------------------------------------ Core translation (tables only)


class CoreEnt:
    """one entity occurrence as Table aliases"""

    def __init__(self, md, U, ent, n):
        spec = SCHEMA[U]["ents"][ent]
        self.ent = ent
        self.aliases = [md.tables[t].alias("c%d_%s" % (n, t)) for t in spec["tables"]]
        self.from_ = self.aliases[0]
        for a in self.aliases[1:]:
            self.from_ = self.from_.join(a, self.aliases[0].c.id == a.c.id)
        self.types = spec.get("types")
        self.num = spec["num"]

    def col(self, name):
        for a in self.aliases:
            if name in a.c:
                return a.c[name]
        raise KeyError(name)

    @property
    def pk(self):
        return self.aliases[0].c.id

    def type_crit(self):
        return self.aliases[0].c.type.in_(self.types) if self.types else None

    def crit(self, U, name):
        return POOLS[(U, self.ent)][name][0](self.col(self.num), self.col("name"))


def build_core(world, term, data):
    U, root, rootmod, basecrit, ops, proj, post = term
    md = world.metadata
    n = [0]

    def new(ent):
        n[0] += 1
        return CoreEnt(md, U, ent, n[0])

    wh = []
    if rootmod in ("subq", ) or isinstance(rootmod, tuple):
        # derived root: SELECT <all columns> FROM entity WHERE crit  [UNION ...]  AS d
        def inner(crit):
            e = new(root)
            cols = []
            seen = set()
            for a in e.aliases:
                for c in a.c:
                    if c.name not in seen:
                        seen.add(c.name)
                        cols.append(c.label(c.name))
            s = select(*cols).select_from(e.from_)
            if e.type_crit() is not None:
                s = s.where(e.type_crit())
            if crit:
                s = s.where(e.crit(U, crit))
            return s

        if isinstance(rootmod, tuple):
            fn = sa_union if rootmod[0] == "union" else sa_union_all
            d = fn(inner(basecrit), inner(rootmod[1])).subquery("d0")
        else:
            d = inner(basecrit).subquery("d0")

        class Derived:
            ent = root
            from_ = d
            pk = d.c.id
            num = SCHEMA[U]["ents"][root]["num"]

            @staticmethod
            def col(name):
                return d.c[name]

            @staticmethod
            def type_crit():
                return None

            @staticmethod
            def crit(U_, name):
                return POOLS[(U, root)][name][0](d.c[SCHEMA[U]["ents"][root]["num"]], d.c["name"])

        e0 = Derived
        if SCHEMA[U]["ents"][root].get("types"):
            wh.append(d.c.type.in_(SCHEMA[U]["ents"][root]["types"]))  # the ORM repeats the single-table criteria in the enclosing WHERE
    else:
        e0 = new(root)
        if e0.type_crit() is not None:
            wh.append(e0.type_crit())
        if basecrit:
            wh.append(e0.crit(U, basecrit))
    scope = [e0]
    frm = e0.from_
    for op in ops:
        if op[0] == "J":
            _, src, relname, jk, tmod, crit, place = op
            s = scope[src]
            tgt, kind, fk = SCHEMA[U]["rels"][(s.ent, relname)]
            if isinstance(tmod, tuple):
                tgt = tmod[1]
            t = new(tgt)
            right = t.from_
            if kind == "o2m":
                on = s.pk == t.col(fk)
            elif kind == "m2o":
                on = s.col(fk) == t.pk
            else:
                tab, a, b = fk
                n[0] += 1
                sec = md.tables[tab].alias("c%d_sec" % n[0])
                inner_on = sec.c[b] == t.pk
                if crit and place == "on":
                    inner_on = and_(inner_on, t.crit(U, crit))
                right = sec.join(t.from_, inner_on)
                on = s.pk == sec.c[a]
            if t.type_crit() is not None:
                # single-table criteria of the joined entity belong to the ON clause (they must not turn an outer join into an inner one)
                on = and_(on, t.type_crit())
            if crit and place == "on" and kind != "m2m":
                on = and_(on, t.crit(U, crit))
            frm = frm.join(right, on, isouter=jk == "left", full=jk == "full")
            if crit and place == "where":
                wh.append(t.crit(U, crit))
            scope.append(t)
        elif op[0] in ("ANY", "EXISTS"):
            src, relname, crit = op[1], op[2], op[3]
            neg = op[4] if op[0] == "ANY" else False
            s = scope[src]
            tgt, kind, fk = SCHEMA[U]["rels"][(s.ent, relname)]
            t = new(tgt)
            sub = select(literal(1)).select_from(t.from_)
            if kind == "o2m":
                sub = sub.where(s.pk == t.col(fk))
            elif kind == "m2o":
                sub = sub.where(s.col(fk) == t.pk)
            else:
                tab, a, b = fk
                n[0] += 1
                sec = md.tables[tab].alias("c%d_sec" % n[0])
                sub = select(literal(1)).select_from(sec.join(t.from_, sec.c[b] == t.pk)).where(s.pk == sec.c[a])
            if t.type_crit() is not None:
                sub = sub.where(t.type_crit())
            if crit:
                sub = sub.where(t.crit(U, crit))
            ex = sub.correlate(*([x for x in getattr(s, "aliases", [])] or [s.from_])).exists()
            wh.append(not_(ex) if neg else ex)
        elif op[0] == "CONTAINS":
            _, src, relname, pk = op
            s = scope[src]
            tgt, kind, fk = SCHEMA[U]["rels"][(s.ent, relname)]
            trow = [t for t in ent_rows(U, tgt, data) if t["id"] == pk]
            if not trow:
                raise NotApplicable()
            if kind == "o2m":
                wh.append(s.pk == literal(trow[0][fk]))
            else:
                tab, a, b = fk
                n[0] += 1
                sec = md.tables[tab].alias("c%d_sec" % n[0])
                wh.append(select(literal(1)).select_from(sec).where(sec.c[a] == s.pk, sec.c[b] == pk).correlate(*(getattr(s, "aliases", None) or [s.from_])).exists())

    def cols3(e):
        return [e.pk, e.col(e.num), e.col("name")]

    shape = []  # how to rebuild canonical tuples from the flat Core row
    if isinstance(post, tuple) and post[0] == "group_ent":
        stmt = select(e0.pk, func.count(scope[post[1]].pk)).select_from(frm).group_by(e0.pk)
        shape = [("E", base_of(U, root)), ("v",)]
    elif post == "group_col":
        stmt = select(e0.col(e0.num), func.count()).select_from(frm).group_by(e0.col(e0.num))
        shape = [("v",), ("v",)]
    else:
        sel = []
        if proj[0] == "ent":
            for i in proj[1:]:
                sel.append(scope[i].pk)
                shape.append(("E", base_of(U, scope[i].ent)))
        elif proj[0] == "cols":
            sel += cols3(scope[proj[1]])
            shape += [("v",)] * 3
        else:
            sel.append(scope[proj[1]].pk)
            shape.append(("E", base_of(U, scope[proj[1]].ent)))
            sel.append(scope[proj[2]].col(scope[proj[2]].num))
            shape.append(("v",))
        stmt = select(*[c.label("o%d" % k) for k, c in enumerate(sel)]).select_from(frm)
        if post == "distinct":
            stmt = stmt.distinct()
    for w in wh:
        stmt = stmt.where(w)
    return stmt, shape


def run_core(conn, stmt, shape):
    out = []
    for row in conn.execute(stmt):
        t = []
        for v, sh in zip(row, shape):
            if sh[0] == "E":
                t.append(None if v is None else ("E", sh[1], v))
            else:
                t.append(v)
        out.append(tuple(t))
    return out


# ------------------------------------------------------------------ the ORM statement under test


def build_orm(world, term, sess, data):
    U, root, rootmod, basecrit, ops, proj, post = term
    cls = world.classes

    def crit(E, ent, name):
        spec = SCHEMA[U]["ents"][ent]
        return POOLS[(U, ent)][name][0](getattr(E, spec["num"]), getattr(E, "name"))

    R = cls[root]
    wh = []
    if rootmod == "plain":
        E0 = R
        if basecrit:
            wh.append(crit(E0, root, basecrit))
    elif rootmod == "aliased":
        E0 = aliased(R)
        if basecrit:
            wh.append(crit(E0, root, basecrit))
    elif rootmod == "subq":
        s = select(R)
        if basecrit:
            s = s.where(crit(R, root, basecrit))
        E0 = aliased(R, s.subquery())
    else:
        fn = sa_union if rootmod[0] == "union" else sa_union_all
        u = fn(select(R).where(crit(R, root, basecrit)), select(R).where(crit(R, root, rootmod[1]))).subquery()
        E0 = aliased(R, u)
    scope = [(E0, root)]
    joins = []
    for op in ops:
        if op[0] == "J":
            _, src, relname, jk, tmod, c, place = op
            S, sent = scope[src]
            tgt = SCHEMA[U]["rels"][(sent, relname)][0]
            attr = getattr(S, relname)
            if tmod == "plain":
                T = cls[tgt]
                target = attr
            elif tmod == "aliased":
                T = aliased(cls[tgt])
                target = attr.of_type(T)
            else:
                tgt = tmod[1]
                T = cls[tgt]
                target = attr.of_type(T)
            if c and place == "on":
                target = target.and_(crit(T, tgt, c))
            joins.append((target, jk))
            if c and place == "where":
                wh.append(crit(T, tgt, c))
            scope.append((T, tgt))
        elif op[0] == "ANY":
            _, src, relname, c, neg = op
            S, sent = scope[src]
            tgt, kind, fk = SCHEMA[U]["rels"][(sent, relname)]
            attr = getattr(S, relname)
            T = cls[tgt]
            arg = [crit(T, tgt, c)] if c else []
            e = attr.has(*arg) if kind == "m2o" else attr.any(*arg)
            wh.append(~e if neg else e)
        elif op[0] == "EXISTS":
            _, src, relname, c = op
            S, sent = scope[src]
            tgt, kind, fk = SCHEMA[U]["rels"][(sent, relname)]
            T = aliased(cls[tgt])
            # explicit correlated EXISTS written by the user with the relationship as join criterion
            sub = select(T.id).where(getattr(S, relname).of_type(T)) if False else None
            if kind == "o2m":
                sub = select(T.id).where(getattr(T, fk) == S.id)
            elif kind == "m2o":
                sub = select(T.id).where(getattr(S, fk) == T.id)
            else:
                tab, a, b = fk
                sec = world.metadata.tables[tab]
                sub = select(T.id).join(sec, sec.c[b] == T.id).where(sec.c[a] == S.id)
            if c:
                sub = sub.where(crit(T, tgt, c))
            wh.append(sub.exists())
        elif op[0] == "CONTAINS":
            _, src, relname, pk = op
            S, sent = scope[src]
            tgt = SCHEMA[U]["rels"][(sent, relname)][0]
            obj = sess.get(cls[tgt], pk)
            if obj is None:
                raise NotApplicable()
            wh.append(getattr(S, relname).contains(obj))
    num = lambda i: getattr(scope[i][0], SCHEMA[U]["ents"][scope[i][1]]["num"])  # noqa: E731
    if isinstance(post, tuple) and post[0] == "group_ent":
        stmt = select(E0, func.count(scope[post[1]][0].id)).select_from(E0)
    elif post == "group_col":
        stmt = select(num(0), func.count()).select_from(E0)
    elif proj[0] == "ent":
        stmt = select(*[scope[i][0] for i in proj[1:]]).select_from(E0)
    elif proj[0] == "cols":
        i = proj[1]
        stmt = select(scope[i][0].id, num(i), scope[i][0].name).select_from(E0)
    else:
        stmt = select(scope[proj[1]][0], num(proj[2])).select_from(E0)
    for target, jk in joins:
        stmt = stmt.join(target, isouter=jk == "left", full=jk == "full")
    for w in wh:
        stmt = stmt.where(w)
    if isinstance(post, tuple) and post[0] == "group_ent":
        stmt = stmt.group_by(E0.id)
    elif post == "group_col":
        stmt = stmt.group_by(num(0))
    elif post == "distinct":
        stmt = stmt.distinct()
    return stmt


def canon_orm(rows, U):
    out = []
    for row in rows:
        t = []
        for v in row:
            if v is not None and hasattr(v, "_sa_instance_state"):
                st = inspect(v)
                t.append(("E", st.mapper.base_mapper.class_.__name__, st.identity[0]))
            else:
                t.append(v)
        out.append(tuple(t))
    return out


# ------------------------------------------------------------------ evaluation of one (term, data set)

_WORLDS = {}
_ENG = {}


def world_for(U):
    if U not in _WORLDS:
        _WORLDS[U] = dict(U1=qw.build_u1, U2=qw.build_u2, U4=qw.build_u4)[U]()
    return _WORLDS[U]


def engine_for(U):
    key = (os.getpid(), U)
    if key not in _ENG:
        e = create_engine("sqlite://", poolclass=StaticPool, query_cache_size=6000)
        world_for(U).metadata.create_all(e)
        _ENG[key] = e
    return _ENG[key]


class HarnessDisagreement(Exception):
    pass


_BUILT = {}


def _has_contains(term):
    return any(op[0] == "CONTAINS" for op in term[4])


def evaluate(term, data, eng):
    """returns (problems, nontrivial, outcome-key); raises HarnessDisagreement when the two oracles differ.
    The three statements of a term (ORM, count/exists wrappers, Core) are built once per process and reused for
    every data set, unless the term contains contains(obj), whose parameter is a loaded object."""
    U = term[0]
    world = world_for(U)
    cacheable = not _has_contains(term)
    built = _BUILT.get(term) if cacheable else None
    try:
        expect = eval_relalg(term, data)
        if built is None:
            core_stmt, shape = build_core(world, term, data)
        else:
            core_stmt, shape = built["core"]
    except NotApplicable:
        return None
    with eng.connect() as conn:
        core_rows = run_core(conn, core_stmt, shape)
    if not ra.bag_equal(expect, core_rows):
        raise HarnessDisagreement(
            "oracles disagree on %s\n relalg: %r\n core:   %r\n sql: %s" % (term_str(term), sorted(expect, key=repr), sorted(core_rows, key=repr), core_stmt)
        )
    problems = []
    sess = Session(eng)
    try:
        with warnings.catch_warnings(record=True) as wlist:
            warnings.simplefilter("always")
            try:
                if built is None:
                    stmt = build_orm(world, term, sess, data)
                    built = dict(core=(core_stmt, shape), orm=stmt, cnt=None, ex=None)
                    if cacheable:
                        _BUILT[term] = built
                stmt = built["orm"]
                rows = canon_orm(sess.execute(stmt).all(), U)
            except NotApplicable:
                return None
            except Exception as e:
                where = ""
                if isinstance(e, AssertionError):
                    tb = e.__traceback__
                    while tb.tb_next is not None:
                        tb = tb.tb_next
                    where = " in %s" % tb.tb_frame.f_code.co_name
                return [("raised %s%s" % (type(e).__name__, where), "%s: %s" % (type(e).__name__, str(e)[:400]))], True, "raised"
            if not ra.bag_equal(rows, expect):
                problems.append(("wrong-rows", "ORM returned %s\nrelational meaning / Core translation: %s" % (_bag(rows), _bag(expect))))
            try:
                if built["cnt"] is None:
                    built["cnt"] = select(func.count()).select_from(stmt.subquery())
                    built["ex"] = select(stmt.exists())
                cnt = sess.scalar(built["cnt"])
                if cnt != len(rows):
                    problems.append(("count-mismatch", "select(count()).select_from(stmt.subquery()) = %r but the statement returned %d rows" % (cnt, len(rows))))
                ex = sess.scalar(built["ex"])
                if bool(ex) != bool(rows):
                    problems.append(("exists-mismatch", "select(stmt.exists()) = %r but the statement returned %d rows" % (ex, len(rows))))
            except Exception as e:
                problems.append(("raised %s in count/exists" % type(e).__name__, "%s: %s" % (type(e).__name__, str(e)[:400])))
        for w in wlist:
            if "cartesian" in str(w.message):
                problems.append(("cartesian-warning", str(w.message)[:300]))
    finally:
        sess.close()
    adapt = term[2] != "plain" or bool(term[4]) or term[6] is not None
    return problems, bool(expect) and adapt, (len(expect),)


def _bag(b):
    return "[" + ", ".join(sorted(_t(t) for t in b)) + "]"


def _t(t):
    return "(" + ", ".join("%s(%r)" % (v[1], v[2]) if isinstance(v, tuple) else repr(v) for v in t) + ")"


def term_str(term):
    U, root, rootmod, basecrit, ops, proj, post = term

    def o(op):
        return op[0] + "(" + ",".join("/".join(map(str, x)) if isinstance(x, tuple) else str(x) for x in op[1:]) + ")"

    rm = rootmod if isinstance(rootmod, str) else "%s(%s)" % rootmod
    return "%s:%s[%s]%s %s proj=%s%s" % (
        U, root, rm, "" if basecrit is None else " where " + basecrit, " ".join(o(x) for x in ops) or "-",
        "/".join(map(str, proj)), "" if post is None else " post=" + ("/".join(map(str, post)) if isinstance(post, tuple) else post))


# ------------------------------------------------------------------ driver


def datasets(U, tier):
    if U == "U1":
        if tier == "quick":
            # <=2 parents x <=2 children, every distribution; one grandchild pattern each (one child: one grandchild; two: skewed)
            return [(k, d) for k, d in qw.u1_datasets(2, 2, 3, "cover2")
                    if len(k[2]) == 0 or (len(k[2]) == 1 and k[3] == (1,)) or k[3] == (2, 2, None)]
        return [(k, d) for k, d in qw.u1_datasets(2, 3, 3, "cover2")]
    if U == "U2":
        return list(qw.u2_datasets(2, 2) if tier == "quick" else qw.u2_datasets(3, 2))
    if tier == "quick":
        # one company; two persons only with different types; no dangling machine next to two persons
        return [(k, d) for k, d in qw.u4_datasets(1, 2, 1, "sorted")
                if not (len(k[2]) == 2 and (k[3] == (None,) or k[2][0][0] == k[2][1][0]))]
    one = [(k, d) for k, d in qw.u4_datasets(1, 2, 1, "sorted")]
    # plus the two-company assignments of two persons in different / same / no company (no machines)
    two = [(k, d) for k, d in qw.u4_datasets(2, 2, 0, "sorted") if k[1] == 2 and len(k[2]) == 2 and k[2][0][0] != k[2][1][0]]
    return one + two


_TERMS = {}


def terms_for(U, tier):
    key = (U, tier)
    if key not in _TERMS:
        _TERMS[key] = terms(U, 2, lean2=(U == "U4")) if tier == "quick" else terms(U, 3)
    return _TERMS[key]


PARTS = dict(quick=dict(U1=14, U2=6, U4=28), thorough=dict(U1=60, U2=20, U4=120))


def shards(tier, seed):
    out = []
    for U in ("U1", "U2", "U4"):
        for p in range(PARTS[tier][U]):
            out.append([U, p, PARTS[tier][U]])
    return out


GCPN_KIND = "raised AssertionError in _generate_columns_plus_names"
GCPN_SIG = ("ORM select of two entities of one polymorphic hierarchy, the first selected from its polymorphic union / subquery and "
            "the second reached through two joins: internal AssertionError in Select._generate_columns_plus_names "
            "(hash(names[required_label_name]) == hash(c))")


def run_shard(shard, tier, rec):
    U, part, parts = shard
    eng = engine_for(U)
    world = world_for(U)
    my = [t for i, t in enumerate(terms_for(U, tier)) if i % parts == part]
    maxds = int(os.environ.get("VF_C41_MAXDS", "0"))
    for di, (dkey, data) in enumerate(datasets(U, tier)):
        if maxds and di >= maxds:
            rec.cap("VF_C41_MAXDS debug cap")
            break
        with eng.begin() as conn:
            qw.load(conn, world, data)
        for term in my:
            res = evaluate(term, data, eng)
            if res is None:
                rec.count("not_applicable_contains_target_absent")
                continue
            problems, nontrivial, outcome = res
            rec.case((term, dkey), nontrivial=nontrivial)
            rec.outcome((U, term[1], outcome))
            rec.count("terms_with_%d_constructors" % n_constructors(term))
            if nontrivial and isinstance(outcome[0], int) and outcome[0] >= 2 and n_constructors(term) >= 2 and (rec.evaluations % 1013) == 11:
                rec.sample(dict(term=term_str(term), data=repr(dkey), rows_returned=outcome[0]))
            for kind, msg in problems:
                if ("seen", kind, term) in rec._vsigs:
                    rec.count("violating_cases")
                    continue
                rec._vsigs.add(("seen", kind, term))
                if kind == GCPN_KIND:
                    # one root cause, not reducible by the term minimiser: one canonical signature
                    rec.violation(GCPN_SIG, msg + "\nfirst seen: %s on data set %r" % (term_str(term), dkey),
                                  dict(term=_tj(term), data=data, dkey=repr(dkey)), kind=GCPN_SIG)
                    continue
                mt, (mk, md) = minimize(term, kind, data, eng, tier)
                sig = "%s: %s" % (kind, term_str(mt))
                rec.violation(sig, msg + "\nfirst seen: %s on data set %r; minimal term fails on data set %r" % (term_str(term), dkey, mk if mk is not None else dkey),
                              dict(term=_tj(mt), data=md, dkey=repr(mk if mk is not None else dkey)), kind=sig)


def valid_term(term):
    U, root, rootmod, basecrit, ops, proj, post = term
    taken = {base_of(U, root)} if rootmod == "plain" else set()
    sc = [root]
    for op in ops:
        if op[1] >= len(sc) or (sc[op[1]], op[2]) not in SCHEMA[U]["rels"]:
            return False
        if op[0] == "J":
            tgt = SCHEMA[U]["rels"][(sc[op[1]], op[2])][0]
            if isinstance(op[4], tuple):
                tgt = op[4][1]
            if op[4] != "aliased":
                if base_of(U, tgt) in taken:
                    return False
                taken.add(base_of(U, tgt))
            sc.append(tgt)
    idxs = proj[1:] if proj[0] != "cols" else proj[1:2]
    if any(i >= len(sc) for i in idxs):
        return False
    if isinstance(post, tuple) and post[1] >= len(sc):
        return False
    if isinstance(rootmod, tuple) and basecrit is None:
        return False
    return True


_MINI = {}


def minimize(term, kind, data, eng, tier):
    """greedy structural reduction keeping a problem of the same kind (on this data set or one of the first 20)"""
    key = (term, kind)
    if key in _MINI:
        return _MINI[key]
    U = term[0]
    world = world_for(U)
    pool = list(datasets(U, tier)[:20]) + [(None, data)]  # canonical pool first, the triggering data set last

    def fails(t):
        if not valid_term(t):
            return None
        for k, d in pool:
            with eng.begin() as conn:
                qw.load(conn, world, d)
            try:
                res = evaluate(t, d, eng)
            except Exception:
                continue
            if res and any(k2 == kind for k2, _ in res[0]):
                return (k, d)
        return None

    cur, cur_d = term, (None, data)
    changed = True
    while changed:
        changed = False
        U_, root, rootmod, basecrit, ops, proj, post = cur
        cands = []
        if post is not None:
            cands.append((U_, root, rootmod, basecrit, ops, ("ent", 0) if post == "group_col" or isinstance(post, tuple) else proj, None))
        if ops:
            cands.append((U_, root, rootmod, basecrit, ops[:-1], ("ent", 0), post if not isinstance(post, tuple) else None))
            for i, op in enumerate(ops):
                if op[0] != "J":
                    cands.append((U_, root, rootmod, basecrit, ops[:i] + ops[i + 1:], proj, post))
                else:
                    sidx = 1 + sum(1 for o in ops[:i] if o[0] == "J")
                    rest = ops[i + 1:]
                    if all(o[1] != sidx for o in rest):
                        rest = tuple(o[:1] + (o[1] - 1 if o[1] > sidx else o[1],) + o[2:] for o in rest)
                        cands.append((U_, root, rootmod, basecrit, ops[:i] + rest, ("ent", 0), post if not isinstance(post, tuple) else None))
        if ops and ops[0][0] == "J" and all(o[1] >= 1 for o in ops[1:]):
            # re-root at the first join's target when nothing else refers to the root
            tgt0 = SCHEMA[U_]["rels"][(root, ops[0][2])][0]
            if isinstance(ops[0][4], tuple):
                tgt0 = ops[0][4][1]
            rest = tuple(o[:1] + (o[1] - 1,) + o[2:] for o in ops[1:])
            cands.append((U_, tgt0, "plain", None, rest, ("ent", 0), None))
        if rootmod != "plain":
            cands.append((U_, root, "plain", basecrit if not isinstance(rootmod, tuple) else None, ops, proj, post))
        if basecrit is not None and not isinstance(rootmod, tuple):
            cands.append((U_, root, rootmod, None, ops, proj, post))
        if proj != ("ent", 0) and post is None:
            cands.append((U_, root, rootmod, basecrit, ops, ("ent", 0), post))
        for i, op in enumerate(ops):
            if op[0] == "J":
                if op[5] is not None:
                    cands.append((U_, root, rootmod, basecrit, ops[:i] + (op[:5] + (None, "where"),) + ops[i + 1:], proj, post))
                if op[4] != "plain":
                    cands.append((U_, root, rootmod, basecrit, ops[:i] + (op[:4] + ("plain",) + op[5:],) + ops[i + 1:], proj, post))
            elif op[0] in ("ANY", "EXISTS") and op[3] is not None:
                cands.append((U_, root, rootmod, basecrit, ops[:i] + (op[:3] + (None,) + op[4:],) + ops[i + 1:], proj, post))
        for c in cands:
            f = fails(c)
            if f:
                cur, cur_d, changed = c, f, True
                break
    with eng.begin() as conn:
        qw.load(conn, world, data)
    _MINI[key] = (cur, cur_d)
    return _MINI[key]


def _tj(x):
    if isinstance(x, tuple):
        return {"t": [_tj(i) for i in x]}
    return x


def _tf(x):
    if isinstance(x, dict) and "t" in x:
        return tuple(_tf(i) for i in x["t"])
    return x


def replay(case):
    term = _tf(case["term"])
    U = term[0]
    world = world_for(U)
    eng = create_engine("sqlite://", poolclass=StaticPool)
    world.metadata.create_all(eng)
    with eng.begin() as conn:
        qw.load(conn, world, case["data"])
    res = evaluate(term, case["data"], eng)
    eng.dispose()
    if not res:
        return []
    return [(GCPN_SIG if k == GCPN_KIND else "%s: %s" % (k, term_str(term)), m) for k, m in res[0]]
