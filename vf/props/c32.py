"""C32 a failed flush leaves the database untouched and the session recoverable (engine F over H).

For every bounded operation history (the C30 alphabet, enumerated on the reference model from empty and from
populated committed root states) that ends in ``flush`` or ``commit`` with pending work, the flush is first run
fault-free on a fresh replica, which yields the number of driver statements n and the number of invocations of every
flush event hook.  Then, one replica per fault position:

* statement faults: the k-th ``cursor.execute/executemany`` of that flush raises ``sqlite3.IntegrityError`` /
  ``sqlite3.OperationalError`` *in the driver* (cursor subclass of ``ormworld2``), k = 1..n;
* hook faults: the j-th invocation of before_flush / after_flush / after_flush_postexec / before_insert /
  before_update / before_delete / after_insert / after_update / after_delete raises.

Oracle (the property's text): the flush raises; an independent connection sees exactly the data committed before the
transaction; until ``rollback()`` the session either refuses work (PendingRollbackError) or shows nothing of the failed
flush; after ``rollback()`` objects that were not persistent when the transaction began are transient, the others are
persistent again (unless the application expunged them), new/dirty/deleted are empty and every attribute read through
the session equals what a new session loads; *re-running the transaction's operations and the final flush/commit
without the fault gives the same database and the same graph as the fault-free run* (differential, no expected values).
Histories whose fault-free flush fails by itself (duplicate key, dangling reference) are natural faults: the same
recovery checks apply, without the re-run.

Mutations caught (VF_REPO=/tmp/wt-orm2):
  * SessionTransaction._restore_snapshot: objects inserted by an earlier flush of the transaction not expunged -> "states" / "attributes"
  * SessionTransaction._restore_snapshot: only still-modified objects expired (flushed ones keep new values) -> "attributes", "redo-rows"
  * SessionTransaction._restore_snapshot: deletes flushed earlier in the transaction not reverted -> "states", "redo"
  * SessionTransaction.rollback: root transaction not rolled back when the flush subtransaction fails -> "pre-rollback", "rollback", "exception"
  * Session._flush: finalize_flush_changes + clearing the transaction's _new before the after_flush hooks -> "states", "attributes"
"""
import sqlite3

from sqlalchemy import exc as sa_exc

from ..worlds import ormworld2 as ow
from . import c30

ID = "C32"
LEVEL = "fault_enumeration"
META = dict(
    engine="F over H",
    technique="fault enumeration: one injected failure at every driver statement and every flush event hook of the final flush "
    "of every bounded history; differential re-run oracle",
    design_ref="DESIGN.md §5 C32",
    level_text="Exhaustive over the stated histories x fault positions: every statement position and every hook invocation of "
    "the last flush receives exactly one fault, on fresh file databases with an independent observer connection. The oracle is "
    "differential (fault + rollback + re-run == fault-free run) plus the state predicates the property names.",
    level_note="Trusted: the driver-level injector (sqlite3.Cursor subclass), the raw table readers, the history enumerator "
    "(reference model only chooses which operations are applicable; it is not part of the oracle). One fault per run; faults "
    "in COMMIT itself, in the rollback, and inside SAVEPOINTs are not enumerated here (transaction properties C23-C27/C33 own them).",
    rule="case = (world, history, final op, fault position); non-trivial = the fault hit a flush that had already executed at "
    "least one statement or that had >= 2 statements (partial work had to be undone); outcomes = distinct (fault position kind, "
    "exception class, number of objects reverted)",
    assumptions=["SQLite with foreign_keys=ON, autocommit=False driver mode", "single session, no concurrent writer", "one fault per flush"],
    bounds=dict(
        quick="worlds U1(2 cascades) U2 U3 U5 U7 U8; histories <= 2 operations after the populated committed root (<= 1 after the other roots), final flush and commit; "
        "every DML statement position x {IntegrityError, OperationalError alternating} + the first SELECT for flush and commit; for flush also every "
        "invocation of the before_* hooks and session hooks and the last invocation of the after_* mapper hooks",
        thorough="plus U1(all) U4 U5(passive_updates=False); histories <= 3 operations after the populated root with autoflush for 3 worlds (<= 2 elsewhere), every statement position x both exception classes, every hook invocation",
    ),
)

SHARD_TIMEOUT = dict(quick=1500, thorough=6000)

# expunge is left out: an object expunged inside the transaction is, by design, not re-attached by rollback, so "the
# same work" cannot be repeated on it
TXN_KINDS = ("add", "delete", "set", "rel", "flush")


def world_keys(tier):
    SU, ALL, ORPH = c30.SU, c30.ALL, c30.ORPH
    ks = [("U1", SU), ("U1", ORPH), ("U7", ORPH), ("U3", ORPH), ("U2", ALL), ("U5", True, SU), ("U8", ALL)]
    if tier != "quick":
        ks += [("U1", ALL), ("U4", ORPH), ("U5", False, SU)]
    return ks


NPART = 4
DEEP = (("U1", c30.SU), ("U1", c30.ORPH), ("U2", c30.ALL))


def shards(tier, seed):
    out = []
    for wk in world_keys(tier):
        for ri in range(len(c30.ROOTS[wk[0]])):
            for af in (True, False):
                if not af and ri == 0:
                    continue
                if tier == "quick":
                    depth = 2 if ri == 1 else 1
                else:
                    depth = 3 if (ri == 1 and af and wk in DEEP) else 2
                for part in range(NPART if depth >= 2 else 1):
                    # one more operation after a mid-transaction flush: everywhere in thorough, for one world in quick
                    ext = tier != "quick" or wk == ("U1", c30.SU)
                    out.append(dict(world=wk, root=ri, autoflush=af, depth=depth, both=(tier != "quick"), part=part, nparts=NPART if depth >= 2 else 1, ext=ext))
    return out


def enumerate_histories(w, root, depth, af, ext=True):
    """model-guided BFS: (history, index where the current transaction starts) for every state with pending work"""
    names = [n for n, _, _ in w.universe]
    m0 = ow.model_after(w, root)
    if m0 is None:
        return
    pkv = ("u9", "u2") if w.key[0] == "U5" else ()
    seen = {m0.canon()}
    frontier = [(tuple(root), m0)]
    for d in range(depth + 2):
        nxt = []
        for h, ms in frontier:
            if any(o.life == "P" or o.marked for o in ms.objs.values()) or ms.dirty:
                yield h, ms
            if d > depth or (d == depth and not (ext and h and h[-1][0] == "flush")):
                continue
            # (one more operation after a flush on the last level: transactions with an earlier, successful flush)
            for op in ow.ref.enabled_ops(ms, names, kinds=TXN_KINDS if d < depth else tuple(k for k in TXN_KINDS if k != "flush"), pk_values=pkv, af=af):
                post, exp = ow.model_step(ms, op, af=af)
                if post is None or post.dead:
                    continue
                k = post.canon()
                if k in seen:
                    continue
                seen.add(k)
                nxt.append((h + (op,), post))
        frontier = nxt


def txn_start(h):
    i = 0
    for j, op in enumerate(h):
        if op[0] == "commit":
            i = j + 1
    return i


class Replica:
    def __init__(self, w, af, h):
        ow.install_mapper_hooks(w)
        self.run = ow.Run(w, mode="file", autoflush=af)
        ow.install_session_hooks(self.run.session)
        self.lives0 = None
        self.bad = None
        ts = txn_start(h)
        if ts == 0:
            self.lives0 = {n: self.run.life(n) for n in self.run.objs}
        for j, op in enumerate(h):
            out = self.run.apply(op)
            if out[0] == "exc":
                self.bad = (op, out[1])
                break
            if j + 1 == ts:
                self.lives0 = {n: self.run.life(n) for n in self.run.objs}

    def close(self):
        ow.HOOKS.reset()
        self.run.plan.disarm()
        self.run.close()


def final(run, F, at=None, exc=None, hook=None):
    run.plan.arm(at=at, exc=exc)
    ow.HOOKS.arm(at=hook)
    try:
        return run.apply(F)
    finally:
        run.plan.disarm()
        ow.HOOKS.disarm()


def reference(w, af, h, F):
    """fault-free run -> dict(n, hooks, rows_after, committed, graph) or dict(natural=exc, replica=...)"""
    rp = Replica(w, af, h)
    if rp.bad:
        rp.close()
        return None
    out = final(rp.run, F)
    n, hooks = rp.run.plan.counts["dml"], dict(ow.HOOKS.counts)
    nsel = rp.run.plan.counts["sel"]
    if out[0] == "exc":
        return dict(natural=out[1], replica=rp, n=n, hooks=hooks, nsel=nsel)
    try:
        rows_after = rp.run.rows() if F[0] == "flush" else None
        o2 = rp.run.apply(("commit",)) if F[0] == "flush" else ("ok", None)
        if o2[0] == "exc":
            return None  # deferred constraint fails at COMMIT: not a flush failure
        committed = rp.run.rows_committed()
        graph = rp.run.fresh_graph()
        return dict(n=n, nsel=nsel, hooks=hooks, rows_after=rows_after, committed=committed, graph=graph)
    finally:
        rp.close()


def recovery_problems(rp, before_committed, lives_before_fault, F):
    """after the failed flush: -> list of (kind, text).  Performs the rollback."""
    run = rp.run
    probs = []
    obs = run.rows_committed()
    if obs != before_committed:
        probs.append(("committed", "another connection sees changes of the failed transaction: " + ow.diff_rows(obs, before_committed)))
    # before rollback: refuse or show nothing of the failed flush
    try:
        run.session.connection()
        refused = False
        seen = run.rows()
        if getattr(rp, "txn_view", None) is not None and seen != rp.txn_view:
            probs.append(("pre-rollback", "the session stays usable after the failed flush and shows part of it: " + ow.diff_rows(seen, rp.txn_view)))
    except sa_exc.PendingRollbackError:
        refused = True
    except sa_exc.SQLAlchemyError as e:
        refused = True
        probs.append(("pre-rollback", "session use before rollback raised %s instead of PendingRollbackError" % type(e).__name__))
    out = run.apply(("rollback",))
    if out[0] == "exc":
        probs.append(("rollback", "rollback() raised %r" % (out[1],)))
        return probs, refused
    s = run.session
    if s.new or s.dirty or s.deleted:
        probs.append(("pending", "after rollback new=%d dirty=%d deleted=%d" % (len(s.new), len(s.dirty), len(s.deleted))))
    bad = []
    for n in sorted(run.objs):
        l0 = rp.lives0.get(n, "T") if rp.lives0 else "T"
        now = run.life(n)
        if l0 == "S":
            want = ("S", "D") if lives_before_fault.get(n) == "D" else ("S",)
        elif l0 == "D":
            want = ("D", "S")
        else:
            want = ("T",)
        if now not in want:
            bad.append("%s: was %s when the transaction began, now %s" % (n, l0, now))
    if bad:
        probs.append(("states", "; ".join(bad)))
    try:
        sg = run.object_graph()
        fg = run.fresh_graph()
        sub = {k: v for k, v in fg.items() if k in sg}
        if sg != sub:
            probs.append(("attributes", "objects differ from the database after rollback: " + ow.diff_graph(sg, sub, "session", "database")))
        obs2 = run.rows_committed()
        if obs2 != before_committed:
            probs.append(("committed", "database changed by the failed transaction: " + ow.diff_rows(obs2, before_committed)))
        if run.session.autoflush:
            run.session.rollback()  # end the reading transaction: the repeated work starts from expired objects
        # (autoflush off: the objects stay loaded, as after a commit in these replicas -- see Run._apply)
    except sa_exc.SQLAlchemyError as e:
        probs.append(("attributes", "reading the objects after rollback raised %r" % (e,)))
    return probs, refused


def check_history(rec, w, shard, h, F):
    af = shard["autoflush"]
    ref = reference(w, af, h, F)
    wk = repr(shard["world"])
    if ref is None:
        rec.count("histories_skipped")
        return
    base_case = dict(shard=shard, history=[list(o) for o in h], final=list(F))
    if "natural" in ref:
        rp = ref["replica"]
        try:
            rec.count("natural_failures")
            # committed data before the transaction: replay the committed prefix on the model-free path = observer now
            before = rp.run.rows_committed()
            lives = {n: rp.run.life(n) for n in rp.run.objs}
            probs, refused = recovery_problems(rp, before, lives, F)
            rec.case((wk, h, F, "natural"), nontrivial=ref["n"] >= 1)
            rec.outcome(("natural", type(ref["natural"]).__name__, refused))
            for kind, text in probs:
                rec.violation("%s %s: natural failure (%s): %s | after %s" % (wk, F[0], type(ref["natural"]).__name__, kind, ow.fmt_hist(h)), text,
                              dict(base_case, fault=["natural"]), kind=(wk, "natural", kind))
        finally:
            rp.close()
        return
    faults = []
    excs = ("IntegrityError", "OperationalError")
    for k in range(1, ref["n"] + 1):
        if shard["both"]:
            faults += [("stmt", k, e) for e in excs]
        else:
            faults.append(("stmt", k, excs[k % 2]))
    if ref["nsel"]:
        faults.append(("sel", 1, "OperationalError"))
    if F[0] == "flush":
        # (the flush inside commit() is the same code path: statement faults only there)
        for hname in ow.SESSION_HOOKS + ow.MAPPER_HOOKS:
            cnt = ref["hooks"].get(hname, 0)
            js = range(1, cnt + 1) if (hname.startswith("before") or shard["both"]) else ([cnt] if cnt else [])
            for j in js:
                faults.append(("hook", hname, j))
    rec.count("histories")
    rec.count("fault_positions", len(faults))
    for f in faults:
        probs = run_fault(w, af, h, F, f, ref)
        rec.case((wk, h, F, f), nontrivial=(f[0] == "stmt" and (f[1] > 1 or ref["n"] > 1)) or (f[0] == "hook" and f[1] != "before_flush") or f[0] == "sel")
        for kind, text in probs:
            fd = "%s %s" % (f[0], f[1]) if f[0] == "hook" else "%s %d/%d %s" % ("DML statement" if f[0] == "stmt" else "SELECT", f[1], ref["n"] if f[0] == "stmt" else ref["nsel"], f[2])
            rec.violation("%s af=%s %s fault=%s: %s | after %s" % (wk, af, F[0], fd, kind, ow.fmt_hist(h)), text, dict(base_case, fault=list(f)),
                          kind=(wk, f[0], f[1] if f[0] == "hook" else "", kind))
        rec.outcome((f[0], f[1] if f[0] == "hook" else f[2], bool(probs)))
        rec.count("faults_" + f[0])
    if ref["n"] >= 2:
        rec.sample(dict(world=wk, history=ow.fmt_hist(h), final=F[0], statements=ref["n"], hooks=ref["hooks"], faults=len(faults)), limit=4)


def run_fault(w, af, h, F, f, ref):
    rp = Replica(w, af, h)
    probs = []
    try:
        if rp.bad:
            return [("harness", "prefix failed on replica: %r" % (rp.bad,))]
        run = rp.run
        before = run.rows_committed()
        lives = {n: run.life(n) for n in run.objs}
        rp.txn_view = run.rows()
        if f[0] == "stmt":
            out = final(run, F, at=("dml", f[1]), exc=getattr(sqlite3, f[2]))
        elif f[0] == "sel":
            out = final(run, F, at=("sel", f[1]), exc=getattr(sqlite3, f[2]))
        else:
            out = final(run, F, hook=(f[1], f[2]))
        if out[0] != "exc" and f[0] == "sel" and not run.plan.fired:
            return []  # this replica needed no SELECT (load order inside the unit of work): position not reached
        if out[0] != "exc":
            return [("not-raised", "%s returned although the %s failed" % (F[0], f))]
        e = out[1]
        if f[0] in ("stmt", "sel") and not isinstance(e, sa_exc.DBAPIError):
            probs.append(("exception", "driver error surfaced as %r" % (e,)))
        if f[0] == "hook" and not isinstance(e, ow.HookFault):
            probs.append(("exception", "hook error surfaced as %r" % (e,)))
        p2, refused = recovery_problems(rp, before, lives, F)
        probs += p2
        if any(k in ("rollback",) for k, _ in probs):
            return probs
        # ---- repeat the transaction's work without the fault
        # objects that were never persistent are not reset by a rollback (documented); an application that repeats its
        # work builds them anew.  They were untouched when the transaction began (roots only mention what they add).
        ts = txn_start(h)
        for n in sorted(rp.lives0):
            if rp.lives0[n] == "T":
                run.register(n, w.make_one(n))
        for op in h[ts:]:
            out = run.apply(op)
            if out[0] == "exc":
                probs.append(("redo", "repeating %s raised %r" % (ow._fmt_op(op), out[1])))
                return probs
        out = run.apply(F)
        if out[0] == "exc":
            probs.append(("redo", "repeating %s raised %r" % (F[0], out[1])))
            return probs
        if F[0] == "flush":
            got = run.rows()
            if got != ref["rows_after"]:
                probs.append(("redo-rows", "database after the repeated flush differs from the fault-free run: " + ow.diff_rows(got, ref["rows_after"])))
            out = run.apply(("commit",))
            if out[0] == "exc":
                probs.append(("redo", "commit after the repeated flush raised %r" % (out[1],)))
                return probs
        got = run.rows_committed()
        if got != ref["committed"]:
            probs.append(("redo-rows", "committed database after the repeated work differs from the fault-free run: " + ow.diff_rows(got, ref["committed"])))
        g = run.fresh_graph()
        if g != ref["graph"]:
            probs.append(("redo-graph", "graph after the repeated work differs from the fault-free run: " + ow.diff_graph(g, ref["graph"], "redo", "fault-free")))
        sg = run.object_graph()
        sub = {k: v for k, v in g.items() if k in sg}
        if sg != sub:
            probs.append(("redo-graph", "session objects after the repeated work differ from the database: " + ow.diff_graph(sg, sub, "session", "database")))
        return probs
    finally:
        rp.close()


def run_shard(shard, tier, rec):
    w = ow.world(shard["world"])
    root = tuple(c30.ROOTS[shard["world"][0]][shard["root"]])
    ext = shard.get("ext", True)
    for i, (h, ms) in enumerate(enumerate_histories(w, root, shard["depth"], shard["autoflush"], ext)):
        if i % shard.get("nparts", 1) != shard.get("part", 0):
            continue
        exp = ms.expect_flush(af=shard["autoflush"])
        if any(tag for tag, _ in exp["outcomes"]) or exp.get("known_err") or exp.get("known_any"):
            # the final flush of this history runs into a catalogued defect whose outcome depends on what happens to be
            # loaded (f1 f3 f6 f7 f9, owned by C30 / C39): a re-run after rollback starts from other load states, so
            # the differential oracle does not apply
            rec.count("histories_skipped_catalogued_defect")
            continue
        if exp["error"] and not exp["must_error"]:
            # outcome of the fault-free flush is open (conflicting instructions such as "put into a collection of an
            # object that is being deleted"): it may or may not fail depending on load order, no stable reference run
            rec.count("histories_skipped_open_outcome")
            continue
        for F in (("flush",), ("commit",)):
            check_history(rec, w, shard, h, F)


def _tup(x):
    return tuple(_tup(i) for i in x) if isinstance(x, list) else x


def replay(case):
    shard = case["shard"]
    shard["world"] = _tup(shard["world"])
    w = ow.world(shard["world"])
    h = tuple(_tup(o) for o in case["history"])
    F = _tup(case["final"])
    f = _tup(case["fault"])
    from ..core import Rec

    rec = Rec(ID)
    if f[0] == "natural":
        check_history(rec, w, shard, h, F)
        return [(v["sig"], v["detail"]) for v in rec.violations]
    ref = reference(w, shard["autoflush"], h, F)
    if ref is None or "natural" in ref:
        return []
    probs = run_fault(w, shard["autoflush"], h, F, f, ref)
    wk = repr(shard["world"])
    fd = "%s %s" % (f[0], f[1]) if f[0] == "hook" else "%s %d/%d %s" % ("DML statement" if f[0] == "stmt" else "SELECT", f[1], ref["n"] if f[0] == "stmt" else ref["nsel"], f[2])
    return [("%s af=%s %s fault=%s: %s | after %s" % (wk, shard["autoflush"], F[0], fd, kind, ow.fmt_hist(h)), text) for kind, text in probs]
