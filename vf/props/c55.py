"""C55 compiled vs pure-Python builds of the seven dual modules (differential, engine H/I).

Two subprocesses per shard run the *same* outcome-independent enumeration --
one importing the shipped ``*_cy`` extension modules (``VF_COMPILED=1``), one
forcing the ``.py`` sources of the working tree (``vf.purepy``) -- and stream a
canonical outcome log (``group, case, flag, receiver-state, step outcomes``);
the parent compares the two logs line by line.  Every case is self-describing
(a nested-tuple spec), so ``replay`` re-executes exactly one case in both
builds without the enumerator.

Surface (see DESIGN.md §5 C55): OrderedSet / IdentitySet (every reachable
state x every method/operator x every argument kind and content of C54, plus
two-step histories, constructor kinds, repr/pickle/copy), unique_list,
immutabledict / ImmutableDictBase / ReadOnlyContainer, BaseRow through Row and
RowMapping (indexing, slicing, key / attribute access incl. names that
collide with class attributes, hashing, comparison, pickling with byte-equal
pickles, processors), BaseResultInternal through IteratorResult /
ChunkedIteratorResult / FrozenResult / MergedResult / a real sqlite
CursorResult (filters x fetch histories), the processors, _distill_params_20 /
_distill_raw_params, tuplegetter, anon_map / prefix_anon_map histories.

Inputs are type-correct with respect to the annotated signatures (a slice
passed to ``OrderedSet.__getitem__(key: Py_ssize_t)`` is not an input of the
public surface); outcomes compare the canonical return value, the exception
*class*, emitted warning categories and the receiver's canonical state.

Signatures: ``<group>: <case> -> py <outcome> | cy <outcome>`` where group =
structure.operation[argument class]; only the first (simplest) divergent case
of a group is kept.  A multi-step case is compared at its last step only when
all earlier steps agree (every proper prefix is itself an enumerated case and
is reported there).

Known state of the unchanged tree: the shipped .so predates two ``fix:``
commits in ``util/_collections_cy.py`` (Cython is unavailable, the extension
cannot be rebuilt), so exactly two groups diverge:
``OrderedSet.symmetric_difference_update[seq]`` and ``IdentitySet.ixor[set]``.

Mutations caught (scratch copy *with* the shipped .so files, each seen as a VIOLATION with its own signature):
  M1 util/_collections_cy.py OrderedSet.insert: drop the ``if element not in self`` guard
  M2 util/_immutabledict_cy.py _union_other: fast path ``only_one is False and`` -> ``only_one is not None and``
     (returns the argument instead of a merged dict when self is non-empty)
  M3 engine/_row_cy.py BaseRow.__hash__: hash(self._data) -> hash(self._data[::-1])
  M4 engine/_result_cy.py _apply_unique_strategy: ``if hashed in uniques`` -> ``if hashed in uniques and destination``
     (first duplicate of a batch slips through; needs a 2-step history fetchone ; fetchmany/all)
  M5 engine/_processors_cy.py to_decimal_processor_factory: format ``%.{scale}f`` -> ``%.{scale + 1}f``
  M6 engine/_util_cy.py _is_contiguous: ``prev != curr - 1`` -> ``prev > curr - 1``
  M7 sql/_util_cy.py prefix_anon_map.__missing__: counter default 1 -> 0
  M8 engine/_util_cy.py _is_mapping_or_tuple: tuple no longer accepted
"""
import os
import sys

if __name__ == "__main__":  # worker mode: force the loader *before* sqlalchemy is imported
    from vf import purepy as _purepy

    _purepy.install()

import ast
import itertools
import re
import subprocess

ID = "C55"
LEVEL = "model_checking"
META = dict(
    engine="H/I differential",
    technique="two-process differential of one deterministic exhaustive enumeration: shipped compiled extensions vs forced "
    ".py sources of the working tree, canonical outcome logs compared line by line",
    design_ref="DESIGN.md §5 C55",
    level_text="Every enumerated case (state x operation x argument, or a short operation history) over the public surface "
    "of the seven dual modules is executed in a process that imports the shipped *_cy extension modules and in a process "
    "that forces the *_cy.py sources; return value, exception class, warnings and the receiver's canonical state must be "
    "identical. OrderedSet/IdentitySet are covered from every reachable visible state (all 65 ordered subsets of a "
    "4-element domain) with every operation instance of C54's alphabet, so for these two the result holds for histories "
    "of any length as far as the visible state determines the future; two-step histories additionally probe hidden state.",
    level_note="Trusted: the canonicaliser and line comparison in this file. The compiled side is the *shipped* .so (Cython "
    "is not installed, it cannot be rebuilt from the working tree): a behavioural edit of a *_cy.py therefore shows up as a "
    "divergence, which is the stale-extension hazard the property names. Inputs are restricted to type-correct ones.",
    rule="case = one spec (initial content, operation history, argument kinds/contents); transition = one operation "
    "application compared in both builds; state = canonical receiver state after the case; non-trivial = the case reaches "
    "a branch that differs textually between the builds or a collision (duplicates, one-shot iterators, self arguments, "
    "key/attribute lookups, slices, processors, uniquing, non-None parameters)",
    assumptions=[
        "the compiled side is the shipped extension of /repo, not a rebuild of the working tree",
        "inputs are type-correct w.r.t. the annotated signatures",
        "exception messages are not compared, only classes",
    ],
    bounds=dict(
        quick="collections: all 65 states x C54 quick alphabet (args <=2) + 2-step histories from 3 states; rows: 9 metadata shapes x 7 "
        "data shapes x 5 processor shapes x ~150 ops; results: 8 sources x 18 row lists x 19 filter chains x histories <=2; processors: "
        "valid + single-character-mutated stamps, decimal scales 0-6; distill depth 2; tuplegetter index tuples <=3; anon histories <=3",
        thorough="collections: C54 thorough alphabet (args <=3, two-argument forms), 2-step histories from 17 states; results: 51 row "
        "lists, all 22x22 histories of length 2 (iter/scalar/cursor) and 8^3 core histories of length 3 (iter/scalar); anon histories <=4; "
        "tuplegetter with negative indexes; unique_list lists <=4; immutabledict.union with <=3 arguments",
    ),
)
SHARD_TIMEOUT = dict(quick=600, thorough=2400)

SEP = "\x1e"
ROOT = os.path.dirname(os.path.dirname(os.path.dirname(os.path.abspath(__file__))))

# =====================================================================
#                      PARENT: shards, spawn, compare
# =====================================================================

RESULT_FULL = ("iter", "logfn", "scalar", "cursor")  # sources whose row getter differs textually between the builds
RESULT_LIGHT = ("list", "chunked", "frozen", "merged")  # same getters, other Result front ends
SMALL = (("misc",), ("proc", "simple"), ("proc", "date"), ("proc", "time"), ("proc", "datetime"), ("proc", "decimal"), ("distill",),
         ("tuplegetter",), ("anon", "anon"), ("anon", "prefix"))


def shards(tier, seed):
    out = []
    q = tier == "quick"
    nc = 3 if q else 8
    for i in range(nc):
        out.append(("oset", i, nc))
    for i in range(nc):
        out.append(("iset", i, nc))
    if q:
        out.append(("multi", SMALL))
    else:
        out.append(("multi", SMALL[:1]))
        out.append(("multi", SMALL[1:8]))
        out.append(("multi", SMALL[8:9]))
        out.append(("multi", SMALL[9:]))
    per = 3 if q else 1
    for m in range(0, N_ROW_META, per):
        out.append(("row", tuple(range(m, min(m + per, N_ROW_META)))))
    for src in RESULT_FULL + RESULT_LIGHT:
        if q:
            nparts = dict(iter=2, scalar=1, cursor=3).get(src, 1)
        else:
            nparts = dict(cursor=10, scalar=6).get(src, 10 if src in RESULT_FULL else 3)
        for part in range(nparts):
            out.append(("result", src, part, nparts))
    return out


def _spawn(shard, tier, compiled, spec=None):
    env = dict(os.environ)
    env["PYTHONHASHSEED"] = "0"
    env["PYTHONDONTWRITEBYTECODE"] = "1"
    env["PYTHONPATH"] = ROOT + (os.pathsep + env["PYTHONPATH"] if env.get("PYTHONPATH") else "")
    if compiled:
        env["VF_COMPILED"] = "1"
    else:
        env.pop("VF_COMPILED", None)
    cmd = [sys.executable, "-X", "frozen_modules=off", "-m", "vf.props.c55", "--worker", repr(tuple(shard)), tier]
    if spec is not None:
        cmd += ["--spec", spec]
    return subprocess.Popen(cmd, cwd=ROOT, env=env, stdout=subprocess.PIPE, text=True, encoding="utf8", errors="backslashreplace", bufsize=1 << 16)


def _header(line, who):
    if not line.startswith("#C55 "):
        raise RuntimeError("C55 worker (%s) wrote no header: %r" % (who, line[:200]))
    return ast.literal_eval(line[5:].strip())


def _kill(*procs):
    for p in procs:
        try:
            p.kill()
        except Exception:
            pass
        try:
            p.stdout.close()
        except Exception:
            pass
        try:
            p.wait(timeout=10)
        except Exception:
            pass


def _compare(shard, tier, rec, spec=None):
    """runs both builds; yields nothing, records into rec; returns number of compared lines"""
    from .. import core

    py = _spawn(shard, tier, False, spec)
    cy = _spawn(shard, tier, True, spec)
    try:
        hpy = _header(py.stdout.readline(), "pure")
        hcy = _header(cy.stdout.readline(), "compiled")
        if any(hpy.values()):
            raise RuntimeError("the pure-python worker loaded compiled modules: %r" % (hpy,))
        if not all(hcy.values()):
            missing = sorted(k for k, v in hcy.items() if not v)
            if core.REPO == "/repo":
                raise RuntimeError("compiled extensions not found on /repo: %r" % (missing,))
            rec.note("compiled side absent under VF_REPO=%s (%s): nothing compared" % (core.REPO, ", ".join(missing)))
            rec.count("shards_skipped_no_compiled_side")
            return 0
        n = 0
        while True:
            a = py.stdout.readline()
            b = cy.stdout.readline()
            if not a and not b:
                break
            if not a or not b:
                raise RuntimeError("C55 logs differ in length at line %d of shard %r (pure=%r compiled=%r)" % (n, shard, a[:200], b[:200]))
            fa = a.rstrip("\n").split("\t")
            fb = b.rstrip("\n").split("\t")
            if len(fa) != 6 or len(fb) != 6 or fa[:3] != fb[:3]:
                raise RuntimeError("C55 enumeration not aligned at line %d of shard %r:\n pure=%r\n compiled=%r" % (n, shard, a[:300], b[:300]))
            group, key, desc, flag, st_a, out_a = fa
            st_b, out_b = fb[4], fb[5]
            n += 1
            steps_a = out_a.split(SEP)
            steps_b = out_b.split(SEP)
            rec.transition(len(steps_a))
            rec.trace()
            rec.case(key, nontrivial=flag[0] == "1")
            rec.state(st_a)
            rec.outcome(steps_a[-1])
            if flag[0] == "1" and flag[1:] == "s":
                rec.sample(dict(group=group, case=desc, outcome=steps_a[-1][:200], same_in_both_builds=(out_a == out_b)), limit=3)
            if out_a == out_b and st_a == st_b:
                continue
            if steps_a[:-1] != steps_b[:-1]:
                rec.count("lines_shadowed_by_a_shorter_divergent_case")
                continue
            la, lb = steps_a[-1], steps_b[-1]
            if la == lb:
                la, lb = la + " state " + st_a, lb + " state " + st_b
            sig = "%s: %s -> py %s | cy %s" % (group, desc, la, lb)
            rec.violation(
                sig,
                "pure-python build: %s\ncompiled build:    %s\ncase spec: %s" % (out_a.replace(SEP, " ;; "), out_b.replace(SEP, " ;; "), key),
                dict(shard=list(shard), tier=tier, spec=key),
                kind=group,
            )
        for p, who in ((py, "pure"), (cy, "compiled")):
            if p.wait() != 0:
                raise RuntimeError("C55 %s worker for shard %r exited with %r" % (who, shard, p.returncode))
        return n
    finally:
        _kill(py, cy)


def run_shard(shard, tier, rec):
    shard = tuple(shard)
    n = _compare(shard, tier, rec)
    rec.count("lines_compared_" + shard[0], n)


def replay(case):
    from .. import core

    rec = core.Rec(ID)
    try:
        _compare(tuple(_tuplify(case["shard"])), case.get("tier", "quick"), rec, spec=case["spec"])
    except core.StopShard:
        pass
    return [(v["sig"], v["detail"]) for v in rec.violations]


def _tuplify(x):
    if isinstance(x, (list, tuple)):
        return tuple(_tuplify(i) for i in x)
    return x


N_ROW_META = 9

# =====================================================================
#                      WORKER: canonical forms
# =====================================================================

_ADDR = re.compile(r" at 0x[0-9a-fA-F]+")


def canon(v):
    if v is None or v is True or v is False:
        return repr(v)
    t = type(v)
    if t is str:
        return _ADDR.sub("", repr(v)) if " at 0x" in v else repr(v)
    if t in (int, bytes, float):
        return repr(v)
    if t is tuple:
        return "(" + ",".join(canon(x) for x in v) + ",)"
    if t is list:
        return "[" + ",".join(canon(x) for x in v) + "]"
    if t is dict:
        return "{" + ",".join(canon(k) + ":" + canon(x) for k, x in v.items()) + "}"
    if t in (set, frozenset):
        return t.__name__ + "{" + ",".join(sorted(canon(x) for x in v)) + "}"
    name = t.__name__
    if name == "OrderedSet":
        return dump_oset(v)
    if name == "IdentitySet":
        return "IdentitySet[" + ",".join(canon(x) for x in v) + "]"
    if name == "immutabledict":
        return "immutabledict{" + ",".join(canon(k) + ":" + canon(x) for k, x in dict.items(v)) + "}"
    if isinstance(v, _ROW_TYPES[0]):  # BaseRow
        if isinstance(v, _ROW_TYPES[1]):  # RowMapping
            return name + "{" + ",".join(canon(k) + ":" + canon(v[k]) for k in v) + "}"
        return name + canon(tuple(v))
    if isinstance(v, BaseException):
        return "exc:" + name
    if isinstance(v, type):
        return "class:" + v.__name__
    return name + ":" + _ADDR.sub("", repr(v))


_ROW_TYPES = [(), ()]


def dump_oset(s):
    try:
        inner = sorted(canon(x) for x in set.__iter__(s))
    except Exception as e:  # noqa
        inner = ["!" + type(e).__name__]
    return "OrderedSet%s{%s}len%d" % (canon(list(s)), ",".join(inner), len(s))


class _Out:
    """runs one step; canonical outcome text with warnings captured (a global
    'always' filter plus a recording showwarning: much cheaper than
    catch_warnings per step)"""

    def __init__(self):
        self.w = []
        self.installed = False

    def install(self):
        import warnings

        warnings.resetwarnings()
        warnings.simplefilter("always")
        warnings.showwarning = lambda message, category, *a, **k: self.w.append(category.__name__)
        self.installed = True

    def run(self, fn, *a):
        if not self.installed:
            self.install()
        del self.w[:]
        try:
            r = fn(*a)
            txt = canon(r)
        except Exception as e:  # noqa
            r = None
            txt = "!" + type(e).__name__
        if self.w:
            txt += " warn[" + ",".join(sorted(self.w)) + "]"
        return r, txt


OUT = _Out()


def emit(group, spec, desc, nontrivial, state, steps, sample=False):
    sys.stdout.write("%s\t%r\t%s\t%s\t%s\t%s\n" % (group, spec, _ADDR.sub("", desc), ("1" if nontrivial else "0") + ("s" if sample else ""), state, SEP.join(steps)))


# =====================================================================
#                      WORKER: OrderedSet / IdentitySet
# =====================================================================


def _ordered_subsets(n=4, upto=4):
    out = []
    for k in range(upto + 1):
        for c in itertools.permutations(range(n), k):
            out.append(tuple(c))
    return out


def _argclass(argspec):
    if not argspec:
        return "-"
    kinds = [a[0] for a in argspec]
    return "seq" if any(k in ("list", "tuple", "iter") for k in kinds) else "set"


def _chunk(names, i, n):
    names = sorted(set(names))
    return set(names[i::n])


OSET_EXTRA = (
    [("repr_", None, None), ("str_", None, None), ("len_", None, None), ("bool_", None, None), ("copy_copy", None, None),
     ("copy_deepcopy", None, None), ("class_getitem", None, None), ("hash_", None, None)]
    + [("pickle_", None, p) for p in (2, 3, 4, 5)]
    + [("contains_", None, x) for x in (0, 3, 9)]
    + [("eq_", [(k, c)], None) for k in ("set", "oset", "list", "frozenset") for c in ((), (0,), (0, 1), (1, 0))]
)


def oset_apply2(c54, s, name, args, scalar):
    import copy
    import pickle

    if name == "repr_":
        return repr(s)
    if name == "str_":
        return str(s)
    if name == "len_":
        return len(s)
    if name == "bool_":
        return bool(s)
    if name == "copy_copy":
        return copy.copy(s)
    if name == "copy_deepcopy":
        return copy.deepcopy(s)
    if name == "class_getitem":
        return type(s)[int]
    if name == "hash_":
        return hash(s)
    if name == "pickle_":
        return pickle.loads(pickle.dumps(s, scalar))
    if name == "contains_":
        return scalar in s
    if name == "eq_":
        return (s == args[0], s != args[0])
    return c54.oset_apply(s, name, args, scalar)


def _small_ops(ops, names=None, first=False):
    """ops whose argument contents are in the reduced set used for 2-step histories"""
    small = {(), (0,), (0, 0), (1, 0)} if first else {(), (0,), (1, 0)}
    kinds = ("list", "set", "self", "iset") if first else ("list", "set", "oset", "self", "iter", "iset")
    scalars = {None, 0, 3, (0, 3), (1, 0)}
    out = []
    for op in ops:
        name, argspec, scalar = op
        if names is not None and name not in names:
            continue
        if argspec:
            if len(argspec) > 1 or tuple(argspec[0][1]) not in small or argspec[0][0] not in kinds:
                continue
        elif first and scalar not in scalars:
            continue
        out.append(op)
    return out


OSET_MUT = {"add", "remove", "discard", "pop", "insert", "clear", "update", "ior", "iand", "isub", "ixor", "intersection_update",
            "difference_update", "symmetric_difference_update"}


def _desc_args(argspec, scalar, tag=None):
    if argspec:
        return ", ".join("%s%s" % (k, [tag(i) for i in c] if tag else list(c)) for k, c in argspec)
    if scalar is None:
        return ""
    return repr(scalar) if tag is None or not isinstance(scalar, int) else tag(scalar)


def run_oset(shard, tier, only):
    from . import c54
    from sqlalchemy.util import OrderedSet

    def norm(op):
        n, a, sc = op
        return (n, tuple((k, tuple(c)) for k, c in a) if a else None, tuple(sc) if isinstance(sc, list) else sc)

    ops = [norm(o) for o in c54.oset_ops(tier)] + [norm(o) for o in OSET_EXTRA]
    names = sorted({o[0] for o in ops} | {"__init__"})
    mine = _chunk(names, shard[1], shard[2])
    states = _ordered_subsets()

    def execute(spec):
        kind = spec[0]
        if kind == "ctor":
            _, akind, content = spec
            if akind == "none":
                r, txt = OUT.run(lambda: OrderedSet(None))
            elif akind == "noarg":
                r, txt = OUT.run(lambda: OrderedSet())
            elif akind == "gen":
                r, txt = OUT.run(lambda: OrderedSet(x for x in content))
            elif akind == "str":
                r, txt = OUT.run(lambda: OrderedSet("".join("abcd"[i] for i in content)))
            else:
                r, txt = OUT.run(lambda: OrderedSet(c54.mk_arg(akind, content, None)[0]))
            group = "OrderedSet.__init__[%s]" % ("seq" if akind in ("list", "tuple", "iter", "gen", "str") else "set")
            desc = "OrderedSet(%s%r)" % (akind, list(content))
            return group, desc, len(content) != len(set(content)) or akind in ("iter", "gen", "dict"), txt, [txt]
        _, init, hist = spec
        s = OrderedSet(list(init))
        steps = []
        for name, argspec, scalar in hist:
            args = [c54.mk_arg(k, c, s)[0] for k, c in (argspec or ())]
            r, txt = OUT.run(oset_apply2, c54, s, name, args, scalar)
            if r is s:
                txt = "<receiver>"
            elif type(r).__name__ == "OrderedSet":
                # aliasing probe: mutating the result must not disturb the receiver
                r.add(99)
            steps.append("ret=" + txt + " recv=" + dump_oset(s))
        name, argspec, scalar = hist[-1]
        group = "OrderedSet.%s[%s]" % (name, _argclass(argspec))
        desc = "OrderedSet(%r)" % (list(init),) + "".join(".%s(%s)" % (n, _desc_args(a, sc)) for n, a, sc in hist)
        nt = bool(argspec) and any(len(c) != len(set(c)) or k in ("iter", "self", "dict") for k, c in argspec)
        return group, desc, nt, dump_oset(s), steps

    if only is not None:
        return [(only,) + execute(only)]

    def gen():
        if "__init__" in mine:
            yield ("ctor", "none", ())
            yield ("ctor", "noarg", ())
            for c in c54.lists_upto(3):
                for akind in ("list", "tuple", "iter", "gen", "str", "set", "frozenset", "dict", "oset"):
                    if akind in ("set", "frozenset", "dict", "oset") and list(c) != c54.uniq(c):
                        continue
                    yield ("ctor", akind, tuple(c))
        my_ops = [o for o in ops if o[0] in mine]
        for st in states:
            for op in my_ops:
                yield ("h", st, (op,))
        # two-step histories: hidden state left behind by a mutator
        first = _small_ops(ops, OSET_MUT, first=True)
        second = _small_ops(my_ops)
        inits = [(), (0,), (1, 0)] if tier == "quick" else [s for s in states if len(s) <= 2]
        for st in inits:
            for op1 in first:
                for op2 in second:
                    yield ("h", st, (op1, op2))

    return ((spec,) + execute(spec) for spec in gen())


ISET_EXTRA = (
    [("repr_", None, None), ("len_", None, None), ("bool_", None, None), ("hash_", None, None), ("list_", None, None),
     ("copy_copy", None, None)]
    + [("eq_nonset", None, k) for k in ("set", "list", "none")]
    + [("op_nonset", None, k) for k in ("or", "and", "sub", "xor", "ior", "iand", "isub", "ixor", "le", "lt", "ge", "gt")]
)


def run_iset(shard, tier, only):
    import copy
    import operator

    from . import c54
    from sqlalchemy.util import IdentitySet

    OBJS = c54.OBJS
    tag = lambda i: OBJS[i].tag  # noqa
    ops = [(n, (a[0], tuple(a[1])) if a else a, s) for n, a, s in c54.iset_ops(tier)] + list(ISET_EXTRA)
    names = sorted({o[0] for o in ops} | {"__init__"})
    mine = _chunk(names, shard[1], shard[2])
    states = _ordered_subsets()

    def dump(s):
        return "IdentitySet[" + ",".join(o.tag if hasattr(o, "tag") else repr(o) for o in s) + "]len%d" % len(s)

    def apply(s, name, arg, scalar):
        if name == "repr_":
            return repr(s)
        if name == "len_":
            return len(s)
        if name == "bool_":
            return bool(s)
        if name == "hash_":
            return hash(s)
        if name == "list_":
            return [o.tag for o in s]
        if name == "copy_copy":
            return copy.copy(s)
        if name == "eq_nonset":
            other = {"set": set(s), "list": list(s), "none": None}[scalar]
            return (s == other, s != other)
        if name == "op_nonset":
            fn = dict(ior=operator.ior, iand=operator.iand, isub=operator.isub, ixor=operator.ixor, le=operator.le, lt=operator.lt,
                      ge=operator.ge, gt=operator.gt, xor=operator.xor, sub=operator.sub)
            fn["or"] = operator.or_
            fn["and"] = operator.and_
            return fn[scalar](s, [OBJS[0]])
        return c54.iset_apply(s, name, arg, scalar)

    def execute(spec):
        kind = spec[0]
        if kind == "ctor":
            _, akind, content = spec
            if akind == "none":
                r, txt = OUT.run(lambda: IdentitySet(None))
            elif akind == "noarg":
                r, txt = OUT.run(lambda: IdentitySet())
            else:
                r, txt = OUT.run(lambda: IdentitySet(c54.imk_arg(akind, content, None)[0]))
            if r is not None:
                txt = dump(r)
            return "IdentitySet.__init__[%s]" % ("seq" if akind in ("list", "tuple", "iter") else "set"), "IdentitySet(%s%s)" % (
                akind, [tag(i) for i in content]), {1, 2} <= set(content), txt, [txt]
        _, init, hist = spec
        s = IdentitySet([OBJS[i] for i in init])
        steps = []
        for name, argspec, scalar in hist:
            arg = c54.imk_arg(argspec[0], argspec[1], s)[0] if argspec else None
            r, txt = OUT.run(apply, s, name, arg, scalar)
            if r is s:
                txt = "<receiver>"
            elif type(r).__name__ == "IdentitySet":
                txt = dump(r)
                r.add(c54.Obj(9, "fresh"))  # aliasing probe
            steps.append("ret=" + txt + " recv=" + dump(s))
        name, argspec, scalar = hist[-1]
        group = "IdentitySet.%s[%s]" % (name, _argclass([argspec] if argspec else None))
        desc = "IdentitySet(%s)" % ([tag(i) for i in init],) + "".join(
            ".%s(%s)" % (n, _desc_args([a] if a else None, sc, tag)) for n, a, sc in hist)
        nt = bool(argspec) and ({1, 2} <= set(argspec[1]) or argspec[0] in ("self", "iter"))
        return group, desc, nt, dump(s), steps

    if only is not None:
        return [(only,) + execute(only)]

    def gen():
        if "__init__" in mine:
            yield ("ctor", "none", ())
            yield ("ctor", "noarg", ())
            for c in c54.lists_upto(3, range(4)):
                for akind in ("list", "tuple", "iter", "set", "iset"):
                    yield ("ctor", akind, tuple(c))
        my_ops = [o for o in ops if o[0] in mine]
        for st in states:
            for op in my_ops:
                yield ("h", st, (op,))
        mut = {"add", "remove", "discard", "pop", "clear", "update", "difference_update", "intersection_update",
               "symmetric_difference_update", "ior", "isub", "iand", "ixor"}
        first = [((n, [a] if a else None, s)) for n, a, s in ops]
        first = [(n, a[0] if a else None, s) for n, a, s in _small_ops(first, mut, first=True)]
        second = [(n, a[0] if a else None, s) for n, a, s in _small_ops([(n, [a] if a else None, s) for n, a, s in my_ops])]
        inits = [(), (0,), (1, 0)] if tier == "quick" else [s for s in states if len(s) <= 2]
        for st in inits:
            for op1 in first:
                for op2 in second:
                    yield ("h", st, (op1, op2))

    return ((spec,) + execute(spec) for spec in gen())


# =====================================================================
#                      WORKER: immutabledict & co, unique_list
# =====================================================================

IMM_DOMS = ((), (("a", 1),), (("a", 1), ("b", 2)), (("b", 3),), (("c", 4), ("a", 5)))
IMM_MUT = ("__setitem__", "__delitem__", "setattr", "delattr", "clear", "pop", "pop-default", "popitem", "setdefault", "setdefault-new",
           "update", "update-kw", "update-empty", "ior", "fromkeys")
IMM_AKINDS = ("dict", "imm", "none", "mproxy", "odict", "usermap")


def run_misc(shard, tier, only):
    import collections
    import copy
    import pickle
    import types

    from sqlalchemy.util import immutabledict
    from sqlalchemy.util._collections_cy import unique_list
    from sqlalchemy.util._immutabledict_cy import ImmutableDictBase
    from sqlalchemy.util._immutabledict_cy import ReadOnlyContainer

    class ROD(ReadOnlyContainer, dict):
        __slots__ = ()

    class IDB(ImmutableDictBase):
        pass

    class UserMap(collections.abc.Mapping):
        def __init__(self, d):
            self.d = dict(d)

        def __getitem__(self, k):
            return self.d[k]

        def __iter__(self):
            return iter(self.d)

        def __len__(self):
            return len(self.d)

    CLS = dict(imm=immutabledict, idb=ImmutableDictBase, idbsub=IDB, rod=ROD)

    def mk(akind, dom):
        d = dict(IMM_DOMS[dom])
        if akind == "dict":
            return d
        if akind == "imm":
            return immutabledict(d)
        if akind == "none":
            return None
        if akind == "mproxy":
            return types.MappingProxyType(d)
        if akind == "odict":
            return collections.OrderedDict(d)
        if akind == "usermap":
            return UserMap(d)

    def mutate(d, name):
        if name == "__setitem__":
            d["z"] = 1
        elif name == "__delitem__":
            del d["a"]
        elif name == "setattr":
            d.x = 1
        elif name == "delattr":
            del d.x
        elif name == "clear":
            d.clear()
        elif name == "pop":
            d.pop("a")
        elif name == "pop-default":
            d.pop("zz", None)
        elif name == "popitem":
            d.popitem()
        elif name == "setdefault":
            d.setdefault("a", 9)
        elif name == "setdefault-new":
            d.setdefault("q")
        elif name == "update":
            d.update({"k": 1})
        elif name == "update-kw":
            d.update(k=1)
        elif name == "update-empty":
            d.update()
        elif name == "ior":
            d |= {"k": 1}
        elif name == "fromkeys":
            return type(d).fromkeys(["p", "q"], 0)

    class H:
        def __init__(self, v, h):
            self.v, self.h = v, h

        def __hash__(self):
            return self.h

        def __eq__(self, o):
            return isinstance(o, H) and o.v == self.v

        def __repr__(self):
            return "H(%r,%r)" % (self.v, self.h)

    UL_ELEMS = (0, 1, 1.0, True, "a", None, ("t",), H(1, 5), H(1, 5), H(2, 5))

    def execute(spec):
        kind = spec[0]
        if kind == "mut":
            _, cls, dom, name = spec
            d = CLS[cls](dict(IMM_DOMS[dom]))
            r, txt = OUT.run(mutate, d, name)
            st = canon(dict(d))
            return "%s.%s[-]" % (CLS[cls].__name__ if cls != "idbsub" else "ImmutableDictBase-subclass", name), "%s(%r).%s" % (
                cls, dict(IMM_DOMS[dom]), name), True, st, [txt + " | " + st]
        if kind == "union":
            _, meth, dom, argspecs = spec
            d = immutabledict(dict(IMM_DOMS[dom]))
            args = [mk(k, i) for k, i in argspecs]
            r, txt = OUT.run(lambda: getattr(d, meth)(*args))
            ident = "new"
            if r is d:
                ident = "self"
            else:
                for i, a in enumerate(args):
                    if r is a:
                        ident = "arg%d" % i
            ok = dict(d) == dict(IMM_DOMS[dom]) and all(a is None or dict(a) == dict(IMM_DOMS[i]) for a, (k, i) in zip(args, argspecs))
            txt += " is:%s operands-unchanged:%s" % (ident, ok)
            return "immutabledict.%s[%s]" % (meth, "dict" if all(k in ("dict", "imm", "none", "odict") for k, _ in argspecs) else "mapping"), \
                "immutabledict(%r).%s(%s)" % (dict(IMM_DOMS[dom]), meth, ", ".join("%s%r" % (k, dict(IMM_DOMS[i])) for k, i in argspecs)), \
                len(argspecs) >= 1, canon(dict(d)), [txt]
        if kind == "or":
            _, which, dom, akind, odom = spec
            d = immutabledict(dict(IMM_DOMS[dom]))
            o = mk(akind, odom)
            r, txt = OUT.run((lambda: d | o) if which == "or" else (lambda: o | d))
            return "immutabledict.%s[%s]" % (which, akind), "%s: immutabledict(%r) with %s%r" % (which, dict(IMM_DOMS[dom]), akind, dict(IMM_DOMS[odom])), \
                True, canon(dict(d)), [txt]
        if kind == "ctor":
            _, how, dom = spec
            base = dict(IMM_DOMS[dom])
            fn = dict(
                noarg=lambda: immutabledict(), dict=lambda: immutabledict(base), pairs=lambda: immutabledict(list(base.items())),
                kw=lambda: immutabledict(**base), imm=lambda: immutabledict(immutabledict(base)), both=lambda: immutabledict(base, zz=1),
                idb=lambda: ImmutableDictBase(base), cgi=lambda: immutabledict[str, int](base), cgi2=lambda: ImmutableDictBase[str, int](base),
            )[how]
            r, txt = OUT.run(fn)
            return "immutabledict.__init__[%s]" % how, "ctor %s %r" % (how, base), True, txt, [txt]
        if kind == "obs":
            _, what, dom = spec
            base = dict(IMM_DOMS[dom])
            d = immutabledict(base)
            fn = dict(
                copy=lambda: ("is-self", d.copy() is d), copycopy=lambda: copy.copy(d), deepcopy=lambda: copy.deepcopy(d),
                reduce=lambda: d.__reduce__(), repr=lambda: repr(d), str=lambda: str(d), hash=lambda: hash(d), eq=lambda: (d == base, d != base, base == d),
                len=lambda: len(d), get=lambda: (d.get("a"), d.get("zz", 7)), keys=lambda: (list(d.keys()), list(d.values()), list(d.items())),
                todict=lambda: dict(d), bool=lambda: bool(d), contains=lambda: ("a" in d, "zz" in d), getitem=lambda: d["a"], iter=lambda: list(d),
                reversed=lambda: list(reversed(d)), isdict=lambda: (isinstance(d, dict), isinstance(d, collections.abc.Mapping)),
                p2=lambda: pickle.loads(pickle.dumps(d, 2)), p3=lambda: pickle.loads(pickle.dumps(d, 3)), p4=lambda: pickle.loads(pickle.dumps(d, 4)),
                p5=lambda: pickle.loads(pickle.dumps(d, 5)), pbytes=lambda: pickle.dumps(d, 4).hex(),
                union_dictcopy=lambda: d.union(base) == {**base, **base},
            )[what]
            r, txt = OUT.run(fn)
            return "immutabledict.%s[-]" % what, "immutabledict(%r) %s" % (base, what), True, canon(dict(d)), [txt]
        if kind == "ul":
            _, how, idxs = spec
            seq = [UL_ELEMS[i] for i in idxs]
            arg = dict(list=lambda: seq, tuple=lambda: tuple(seq), gen=lambda: (x for x in seq), iter=lambda: iter(seq),
                       dict=lambda: dict.fromkeys(seq), unhash=lambda: seq + [[1]])[how]()
            r, txt = OUT.run(unique_list, arg)
            if r is not None:
                txt += " types:" + ",".join(type(x).__name__ for x in r) + (" is-arg" if r is arg else "")
            return "unique_list[%s]" % how, "unique_list(%s %r)" % (how, seq), len(set(map(repr, seq))) != len(seq) or len(seq) > 1, txt, [txt]
        raise AssertionError(spec)

    if only is not None:
        return [(only,) + execute(only)]

    def gen():
        for cls in ("imm", "idb", "idbsub", "rod"):
            for dom in range(len(IMM_DOMS)):
                for name in IMM_MUT:
                    yield ("mut", cls, dom, name)
        for how in ("noarg", "dict", "pairs", "kw", "imm", "both", "idb", "cgi", "cgi2"):
            for dom in range(len(IMM_DOMS)):
                yield ("ctor", how, dom)
        for what in ("copy", "copycopy", "deepcopy", "reduce", "repr", "str", "hash", "eq", "len", "get", "keys", "todict", "bool", "contains",
                     "getitem", "iter", "reversed", "isdict", "p2", "p3", "p4", "p5", "pbytes", "union_dictcopy"):
            for dom in range(len(IMM_DOMS)):
                yield ("obs", what, dom)
        nargs = (0, 1, 2) if tier == "quick" else (0, 1, 2, 3)
        akinds = IMM_AKINDS
        choices = [(k, i) for k in akinds for i in range(len(IMM_DOMS)) if not (k == "none" and i)]
        for n in nargs:
            for combo in itertools.product(choices, repeat=n):
                if n == 3 and sum(1 for k, _ in combo if k in ("mproxy", "odict", "usermap")) > 1:
                    continue
                for dom in range(len(IMM_DOMS)):
                    for meth in ("union", "merge_with"):
                        yield ("union", meth, dom, tuple(combo))
        for which in ("or", "ror"):
            for dom in range(len(IMM_DOMS)):
                for akind in ("dict", "imm", "mproxy", "odict", "usermap"):
                    for odom in range(len(IMM_DOMS)):
                        yield ("or", which, dom, akind, odom)
        maxlen = 3 if tier == "quick" else 4
        for k in range(maxlen + 1):
            for idxs in itertools.product(range(len(UL_ELEMS)), repeat=k):
                if k == 4 and len(set(idxs)) > 3:
                    continue
                for how in ("list", "tuple", "gen", "iter", "dict", "unhash"):
                    if how in ("tuple", "iter", "dict", "unhash") and k == 3 and len(set(idxs)) == 3 and idxs[0] > 2:
                        continue
                    yield ("ul", how, tuple(idxs))

    return ((spec,) + execute(spec) for spec in gen())


# =====================================================================
#                      WORKER: BaseRow via Row / RowMapping
# =====================================================================

# metadata shapes: (keys, extra-key plan, ambiguous keys)
ROW_METAS = (
    (("a", "b", "c"), None, None),
    (("a", "b", "a"), None, None),
    (("count", "index", "t"), None, None),
    (("_x", "", "b"), None, None),
    ((), None, None),
    (("a", None, "b"), None, None),
    (("a", "b", "c"), "extra", None),
    (("a", "b", "c"), None, ("a",)),
    (("_data", "_mapping", "keys"), None, None),
)
assert len(ROW_METAS) == N_ROW_META
ROW_DATA = (
    ("tuple", (1, "x", None)),
    ("list", (1, "x", None)),
    ("tuple", (2, "x", 1.5)),
    ("tuple", (1, "x", 0)),
    ("tuple", ((1, 2), "", -1)),
    ("tuple", ([1], "x", None)),  # unhashable member
    ("list", (3, "y", True)),
)
ROW_PROCS = ("none", "allnone", "mixed", "raising", "short")


def _p_up(v):
    return v.upper() if isinstance(v, str) else v


def _p_neg(v):
    return None if v is None else -v


def _p_raise(v):
    raise ValueError("processor")


def run_row(shard, tier, only):
    import copy
    import operator
    import pickle

    from sqlalchemy.engine.result import SimpleResultMetaData
    from sqlalchemy.engine.row import Row
    from sqlalchemy.engine.row import RowMapping
    from sqlalchemy.engine._row_cy import BaseRow
    from sqlalchemy.engine._row_cy import rowproxy_reconstructor

    _ROW_TYPES[0], _ROW_TYPES[1] = BaseRow, RowMapping

    class Col:
        def __init__(self, n):
            self.n = n

        def __repr__(self):
            return "Col(%s)" % self.n

    COLS = [Col(i) for i in range(3)]

    class SubRow(Row):
        __slots__ = ()

        @property
        def a(self):
            return "class-attribute-a"

        def b(self):
            return "method-b"

    def mk_meta(m):
        keys, extra, amb = ROW_METAS[m]
        kw = {}
        if extra:
            kw["extra"] = [(COLS[i], "alt%d" % i) for i in range(len(keys))]
        if amb:
            kw["_ambiguous_keys"] = frozenset(amb)
        return SimpleResultMetaData(list(keys), **kw)

    def mk_data(di, n):
        kind, vals = ROW_DATA[di]
        vals = tuple(vals)[:n]
        if kind == "list":
            return list(vals)
        return vals

    def mk_procs(p, n):
        if p == "none":
            return None
        if p == "allnone":
            return [None] * n
        if p == "mixed":
            return ([_p_neg, _p_up, None] * 2)[:n]
        if p == "raising":
            return ([None, _p_raise, None] * 2)[:n]
        if p == "short":
            return [None] * max(n - 1, 0)

    def mk_row(m, di, p, cls="Row"):
        meta = mk_meta(m)
        n = len(ROW_METAS[m][0])
        klass = dict(Row=Row, SubRow=SubRow, RowMapping=RowMapping)[cls]
        return klass(meta, mk_procs(p, n), meta._key_to_index, mk_data(di, n))

    KEYS = ("a", "b", "c", "zz", "count", "index", "t", "_t", "_x", "", "_data", "_mapping", "_fields", "_parent", "_key_to_index", "keys",
            "__class__", "__len__", "alt0", "alt2", "_asdict", "_tuple")

    def do(r, op):
        name = op[0]
        if name == "len":
            return len(r)
        if name == "iter":
            return list(iter(r))
        if name == "hash":
            return (hash(r), hash(r) == hash(tuple(r)))
        if name == "getitem":
            return r[op[1]]
        if name == "slice":
            return r[slice(*op[1])]
        if name == "getitem_key":
            return r[op[1]]
        if name == "getattr":
            v = getattr(r, op[1])
            return "<callable>" if callable(v) and not isinstance(v, (str, tuple)) else v
        if name == "call":
            return getattr(r, op[1])(*op[2])
        if name == "setattr":
            return setattr(r, op[1], 5)
        if name == "delattr":
            return delattr(r, op[1])
        if name == "contains":
            return op[1] in r
        if name == "cmp":
            _, opname, okind, odi = op
            n = len(r)
            other = mk_data(odi, n)
            if okind == "row":
                other = Row(r._parent, None, r._key_to_index, other)
            elif okind == "list":
                other = list(other)
            elif okind == "none":
                other = None
            elif okind == "tuple":
                other = tuple(other)
            return getattr(operator, opname)(r, other)
        if name == "map":
            m = r._mapping
            what = op[1]
            if what == "getitem":
                k = op[2]
                k = COLS[k[1]] if isinstance(k, tuple) else k
                return m[k]
            if what == "contains":
                k = op[2]
                k = COLS[k[1]] if isinstance(k, tuple) else k
                return k in m
            if what == "iter":
                return list(m)
            if what == "len":
                return len(m)
            if what == "keys":
                return (list(m.keys()), list(m.values()), list(m.items()), repr(m.keys()))
            if what == "dict":
                return dict(m)
            if what == "repr":
                return repr(m)
            if what == "eq":
                return (m == dict(m), m == r._mapping, hash(m) == hash(tuple(r)))
            if what == "getattr":
                return getattr(m, op[2])
            if what == "get":
                return (m.get("a"), m.get("zz", 7))
        if name == "repr":
            return (repr(r), str(r))
        if name == "bool":
            return bool(r)
        if name == "unpack":
            a, *rest = r
            return (a, rest)
        if name == "reversed":
            return list(reversed(r))
        if name == "pickle":
            b = pickle.dumps(r, op[1])
            r2 = pickle.loads(b)
            return (type(r2).__name__, tuple(r2), r2 == r if type(r).__name__ != "RowMapping" else dict(r2) == dict(r), list(r2._parent._keys),
                    b.hex())
        if name == "copy":
            r2 = copy.copy(r) if op[1] == "copy" else copy.deepcopy(r)
            return (type(r2).__name__, tuple(r2))
        if name == "state":
            st = r.__getstate__()
            return (sorted(st), st["_data"], r.__reduce__()[0] is rowproxy_reconstructor, r.__reduce__()[1][0].__name__)
        if name == "reconstruct":
            r2 = rowproxy_reconstructor(type(r), r.__getstate__())
            return (type(r2).__name__, tuple(r2))
        if name == "filter":
            return r._filter_on_values(mk_procs(op[1], len(r)))
        if name == "internals":
            return (r._values_impl(), r._to_tuple_instance(), r._data, r._key_to_index == r._parent._key_to_index,
                    r._get_by_key_impl_mapping(op[1]) if op[1] is not None else None)
        if name == "isinst":
            import collections.abc as cabc

            return (isinstance(r, BaseRow), isinstance(r, cabc.Sequence), isinstance(r, cabc.Hashable), isinstance(r, tuple))
        if name == "sorted":
            rows = [mk_row(op[1], di, "none") for di in (2, 0, 3)]
            return sorted(rows)
        if name == "setkey":
            rows = [mk_row(op[1], di, "none") for di in (0, 0, 3, 1)]
            return len(set(rows)), len({x: 1 for x in rows})
        raise AssertionError(op)

    def ops_for(m):
        n = len(ROW_METAS[m][0])
        ops = [("len",), ("iter",), ("hash",), ("repr",), ("bool",), ("unpack",), ("reversed",), ("state",), ("reconstruct",), ("isinst",),
               ("sorted", m), ("setkey", m)]
        for i in range(-n - 1, n + 2):
            ops.append(("getitem", i))
        for sl in ((None, None, None), (0, 2, None), (1, None, None), (None, -1, None), (None, None, -1), (None, None, 2), (5, 9, None), (None, None, 0)):
            ops.append(("slice", sl))
        for k in ("a", "zz", None, 1.0, True):
            ops.append(("getitem_key", k))
        for k in KEYS:
            ops.append(("getattr", k))
        for k in ("a", "zz", "_data", "_x", "count"):
            ops.append(("setattr", k))
            ops.append(("delattr", k))
        for meth, args in (("count", (1,)), ("count", ("x",)), ("count", (None,)), ("index", ("x",)), ("index", (99,)), ("_asdict", ()), ("_tuple", ()),
                           ("tuple", ()), ("b", ())):
            ops.append(("call", meth, args))
        for v in (1, "x", None, 1.5, "a", (1, 2), True, 1.0):
            ops.append(("contains", v))
        for opname in ("eq", "ne", "lt", "le", "gt", "ge"):
            for okind in ("row", "tuple", "list", "none"):
                for odi in (0, 2, 3, 4):
                    ops.append(("cmp", opname, okind, odi))
        for k in ("a", "b", "zz", "alt0", "alt1", ("col", 0), ("col", 2), 0, 1, None, "", "count"):
            ops.append(("map", "getitem", k))
            ops.append(("map", "contains", k))
        for what in ("iter", "len", "keys", "dict", "repr", "eq", "get"):
            ops.append(("map", what))
        for k in ("a", "zz", "keys"):
            ops.append(("map", "getattr", k))
        for proto in (2, 3, 4, 5):
            ops.append(("pickle", proto))
        ops += [("copy", "copy"), ("copy", "deepcopy")]
        for p in ROW_PROCS:
            ops.append(("filter", p))
        for k in ("a", "zz", None):
            ops.append(("internals", k))
        return ops

    def execute(spec):
        _, m, di, p, cls, op = spec
        made, txt0 = OUT.run(mk_row, m, di, p, cls)
        if made is None:
            steps = ["ctor " + txt0]
            st = "ctor " + txt0
        else:
            r, txt = OUT.run(do, made, op)
            steps = [txt]
            st = canon(tuple(made._data))
        grp = op[0] if op[0] != "map" else "_mapping." + op[1]
        group = "%s.%s[proc=%s]" % ("BaseRow" if cls != "RowMapping" else "RowMapping", grp, "none" if p == "none" else "yes")
        desc = "%s(keys=%r%s%s, proc=%s, data=%s%r).%s" % (
            cls, list(ROW_METAS[m][0]), " +extra" if ROW_METAS[m][1] else "", " ambiguous=%r" % (ROW_METAS[m][2],) if ROW_METAS[m][2] else "", p,
            ROW_DATA[di][0], list(ROW_DATA[di][1])[: len(ROW_METAS[m][0])], "".join(map(str, op[:1])) + repr(tuple(op[1:])))
        nt = op[0] in ("getattr", "getitem_key", "slice", "map", "pickle", "cmp", "hash", "filter", "call") or p != "none"
        return group, desc, nt, st, steps

    if only is not None:
        return [(only,) + execute(only)]

    def gen():
        for m in shard[1]:
            ops = ops_for(m)
            for di in range(len(ROW_DATA)):
                for p in ROW_PROCS:
                    if p != "none" and di not in (0, 1, 6):
                        continue
                    for cls in ("Row", "SubRow", "RowMapping"):
                        if cls != "Row" and (p not in ("none", "mixed") or di not in (0, 1)):
                            continue
                        for op in ops:
                            yield ("row", m, di, p, cls, op)

    return ((spec,) + execute(spec) for spec in gen())


# =====================================================================
#                      WORKER: Result histories
# =====================================================================

RES_ROWS = ((1, "x", None), (2, "y", 1.5), (1, "z", 2.0), (None, "x", None))
RES_FILTERS = (
    (),
    (("unique",),),
    (("unique_strat",),),
    (("columns", (1, 0)),),
    (("columns", ("c",)),),
    (("columns", (0,)),),
    (("scalars", 0),),
    (("scalars", "b"),),
    (("mappings",),),
    (("yield_per", 1),),
    (("yield_per", 2),),
    (("unique",), ("scalars", 0)),
    (("unique",), ("columns", (0, 1))),
    (("unique",), ("mappings",)),
    (("columns", (2, 0)), ("mappings",)),
    (("columns", (1, 2)), ("scalars", 1)),
    (("yield_per", 2), ("unique",)),
    (("columns", (0, 0, 2)), ("unique",)),
    (("tuples",),),
)
RES_OPS = (
    ("fetchone",), ("fetchmany", 1), ("fetchmany", 2), ("fetchmany", None), ("all",), ("first",), ("one",), ("next",),
    ("fetchall",), ("one_or_none",), ("scalar",), ("scalar_one",), ("scalar_one_or_none",), ("iter",), ("partitions", 2), ("partitions", None),
    ("freeze",), ("close",), ("keys",), ("raw_all_tuples",), ("closed",), ("getter",),
)
RES_CORE = RES_OPS[:8]
RES_SECOND = RES_OPS[:8] + (("one_or_none",), ("scalar",), ("iter",), ("partitions", 2), ("freeze",), ("close",))


def _row_lists(tier):
    out = []
    if tier == "quick":
        for k in range(3):
            out.extend(itertools.product(range(3), repeat=k))
        out += [(3,), (0, 1, 0), (0, 2, 1), (3, 0, 0), (1, 1, 1)]
    else:
        for k in range(3):
            out.extend(itertools.product(range(len(RES_ROWS)), repeat=k))
        out.extend(itertools.product(range(3), repeat=3))
        out += [(3, 0, 0), (0, 1, 0, 2), (0, 0, 1, 1)]
    return out


def run_result(shard, tier, only):
    import decimal

    from sqlalchemy.engine import result as R
    from sqlalchemy.engine.row import Row
    from sqlalchemy.engine.row import RowMapping
    from sqlalchemy.engine._row_cy import BaseRow

    _ROW_TYPES[0], _ROW_TYPES[1] = BaseRow, RowMapping
    src = shard[1]
    state = {}

    def cursor_setup():
        import datetime

        import sqlalchemy as sa

        eng = sa.create_engine("sqlite://")
        md = sa.MetaData()
        t = sa.Table(
            "t", md, sa.Column("lst", sa.Integer), sa.Column("pos", sa.Integer), sa.Column("a", sa.Numeric(10, 2)), sa.Column("b", sa.String),
            sa.Column("c", sa.Boolean(create_constraint=False)), sa.Column("d", sa.DateTime), sa.Column("e", sa.Date), sa.Column("f", sa.Time),
            sa.Column("g", sa.Float(asdecimal=True)),
        )
        conn = eng.connect()
        md.create_all(conn)
        vals = (
            (decimal.Decimal("1.00"), "x", None, datetime.datetime(2021, 3, 4, 5, 6, 7), datetime.date(2021, 3, 4), datetime.time(5, 6, 7), None),
            (decimal.Decimal("2.50"), "y", True, None, None, None, 1.5),
            (decimal.Decimal("1.00"), "z", False, datetime.datetime(2021, 3, 4, 5, 6, 7, 123456), datetime.date(1999, 12, 31), datetime.time(23, 59), 2.25),
            (None, "x", None, None, None, None, None),
        )
        state.update(conn=conn, t=t, sa=sa, vals=vals, lists={})

    def cursor_result(rows):
        if "conn" not in state:
            cursor_setup()
        sa, conn, t = state["sa"], state["conn"], state["t"]
        lid = state["lists"].get(rows)
        if lid is None:
            lid = len(state["lists"]) + 1
            state["lists"][rows] = lid
            if rows:
                conn.execute(t.insert(), [dict(lst=lid, pos=i, **dict(zip("abcdefg", state["vals"][r]))) for i, r in enumerate(rows)])
        return conn.execute(sa.select(t.c.a, t.c.b, t.c.c, t.c.d, t.c.e, t.c.f, t.c.g).where(t.c.lst == lid).order_by(t.c.pos))

    def strat(row):
        return row[0] if isinstance(row, (tuple, BaseRow)) else row

    def build(rows, procs, log):
        keys = ["a", "b", "c"]
        data = [RES_ROWS[i] for i in rows]
        pr = None
        if procs == "mixed":
            pr = [_p_neg, _p_up, None]
        elif procs == "allnone":
            pr = [None, None, None]
        elif procs == "raising":
            pr = [None, _p_raise, None]
        if src == "cursor":
            return cursor_result(rows)
        if src == "scalar":
            meta = R.SimpleResultMetaData(["a"], _processors=None, _create_unique_filters=(lambda result: [lambda v: v]) if procs == "mixed" else None)
            return R.IteratorResult(meta, iter([d[0] for d in data]), _source_supports_scalars=True)
        meta = R.SimpleResultMetaData(keys, _processors=pr)
        if src == "iter":
            return R.IteratorResult(meta, iter(data))
        if src == "list":
            return R.IteratorResult(meta, iter([list(d) for d in data]))
        if src == "logfn":
            res = R.IteratorResult(meta, iter(data))

            def logrow(row):
                log.append(canon(row))
                return row

            res._row_logging_fn = logrow
            return res
        if src == "chunked":
            it = iter(data)

            def chunks(size):
                while True:
                    chunk = list(itertools.islice(it, 0, size if size else None))
                    if not chunk:
                        break
                    yield chunk

            return R.ChunkedIteratorResult(meta, chunks, dynamic_yield_per=(procs != "none"))
        if src == "frozen":
            fr = R.IteratorResult(meta, iter(data)).freeze()
            return fr()
        if src == "merged":
            half = len(data) // 2
            r1 = R.IteratorResult(meta, iter(data[:half]))
            r2 = R.IteratorResult(meta, iter(data[half:]))
            return r1.merge(r2)
        raise AssertionError(src)

    def apply_filter(res, f):
        n = f[0]
        if n == "unique":
            return res.unique()
        if n == "unique_strat":
            return res.unique(strat)
        if n == "columns":
            return res.columns(*f[1])
        if n == "scalars":
            return res.scalars(f[1])
        if n == "mappings":
            return res.mappings()
        if n == "yield_per":
            return res.yield_per(f[1])
        if n == "tuples":
            return res.tuples()

    def apply_op(res, op):
        n = op[0]
        if n == "fetchmany":
            return res.fetchmany(op[1])
        if n == "next":
            return next(res)
        if n == "iter":
            return list(res)
        if n == "partitions":
            return [list(p) for p in res.partitions(op[1])]
        if n == "freeze":
            fr = res.freeze()
            return (fr().all(), fr().all())
        if n == "keys":
            return list(res.keys())
        if n == "raw_all_tuples":
            return res._raw_all_tuples()
        if n == "closed":
            return (res.closed, res._soft_closed)
        if n == "getter":
            return (res._getter("b")(("p", "q", "r")), res._tuple_getter(["c", "a"])(("p", "q", "r")))
        return getattr(res, n)()

    def execute(spec):
        _, rows, procs, filters, hist = spec
        log = []
        steps = []
        res, txt = OUT.run(build, rows, procs, log)
        if res is None:
            steps.append("build " + txt)
        else:
            cur = res
            for f in filters:
                cur, txt = OUT.run(apply_filter, cur, f)
                if cur is None:
                    steps.append("filter %s %s" % (f[0], txt))
                    break
            if cur is not None:
                for op in hist:
                    r, txt = OUT.run(apply_op, cur, op)
                    steps.append(txt)
                _, tail = OUT.run(lambda: (res.closed, res._soft_closed))
                steps[-1] += " | closed " + tail + ((" log " + ";".join(log)) if src == "logfn" else "")
        if src == "cursor" and res is not None:
            try:
                res.close()
            except Exception:  # noqa
                pass
        op = hist[-1]
        group = "Result[%s].%s[%s]" % (src, op[0], "+".join(f[0] for f in filters) or "plain")
        desc = "%s rows=%r proc=%s%s: %s" % (src, [RES_ROWS[i] for i in rows] if src != "scalar" else [RES_ROWS[i][0] for i in rows], procs,
                                             "".join("." + f[0] + repr(tuple(f[1:])) for f in filters), " ; ".join(o[0] + repr(tuple(o[1:])) for o in hist))
        nt = len(rows) > 0 and (bool(filters) or procs != "none" or src in ("cursor", "scalar", "list", "logfn"))
        return group, desc, nt, steps[-1], steps

    if only is not None:
        try:
            return [(only,) + execute(only)]
        finally:
            if "conn" in state:
                state["conn"].close()

    def gen():
        part, nparts = shard[2], shard[3]
        rowlists = _row_lists(tier)
        procs_all = ("none", "mixed") if src in ("scalar", "chunked") else (("none",) if src == "cursor" else ("none", "mixed", "allnone", "raising"))
        hists = [(o,) for o in RES_OPS]
        triples = []
        if tier == "quick":
            if src in RESULT_FULL and src != "logfn":
                hists += [(a, b) for a in RES_CORE for b in RES_SECOND]
        else:
            if src in RESULT_FULL and src != "logfn":
                hists += [(a, b) for a in RES_OPS for b in RES_OPS]
            else:
                hists += [(a, b) for a in RES_CORE for b in RES_SECOND]
            if src in ("iter", "scalar"):
                triples = [(a, b, c) for a in RES_CORE for b in RES_CORE for c in RES_CORE]
        eligible = [
            f for f in RES_FILTERS
            if not (src == "scalar" and any(x[0] in ("columns", "mappings") or (x[0] == "scalars" and x[1] != 0) for x in f))
        ]
        for fi, filters in enumerate(eligible):
            if fi % nparts != part:
                continue
            for procs in procs_all:
                for rows in rowlists:
                    if procs in ("allnone", "raising") and len(rows) > 2:
                        continue
                    for hist in hists:
                        if procs in ("allnone", "raising") and len(hist) > 1:
                            continue
                        yield ("res", tuple(rows), procs, filters, hist)
                    if len(rows) == 2 or rows == (0, 1, 0):
                        for hist in triples:
                            yield ("res", tuple(rows), procs, filters, hist)

    def run():
        try:
            for spec in gen():
                yield (spec,) + execute(spec)
        finally:
            if "conn" in state:
                state["conn"].close()

    return run()


# =====================================================================
#                      WORKER: processors
# =====================================================================

STAMPS = dict(
    date=("2021-03-04", "20210304", "2021-W09-4", "0001-01-01", "9999-12-31"),
    time=("05:06:07", "05:06:07.123456", "05:06", "05", "050607", "05:06:07+01:00", "05:06:07.123", "T05:06:07", "23:59:59.999999Z"),
    datetime=("2021-03-04 05:06:07", "2021-03-04T05:06:07.123456", "2021-03-04", "2021-03-04 05:06:07+01:00", "2021-03-04 05:06", "20210304T050607",
              "2021-03-04 05:06:07.1"),
)
MUT_ALPHABET = "0123459-:T .Z+,aW"


def _mutants(s):
    seen = {s}
    yield s
    for i in range(len(s)):
        for ch in MUT_ALPHABET:
            m = s[:i] + ch + s[i + 1:]
            if m not in seen:
                seen.add(m)
                yield m
        m = s[:i] + s[i + 1:]
        if m not in seen:
            seen.add(m)
            yield m
    for ch in MUT_ALPHABET:
        for m in (s + ch, ch + s):
            if m not in seen:
                seen.add(m)
                yield m


def run_proc(shard, tier, only):
    import datetime
    import decimal
    import fractions

    from sqlalchemy.engine import _processors_cy as P

    which = shard[1]

    class S:
        def __str__(self):
            return "S-str"

        def __float__(self):
            return 2.5

        def __bool__(self):
            return False

        def __repr__(self):
            return "S()"

    class BadBool:
        def __bool__(self):
            raise RuntimeError("no truth")

    class MyStr(str):
        pass

    SIMPLE = (None, 0, 1, 2, -1, 0.0, 1.5, "", "a", "1.5", " 1 ", "abc", "nan", "1e400", "1_0", b"1", b"", [], [0], (), True, False,
              decimal.Decimal("1.10"), fractions.Fraction(1, 3), S(), BadBool(), MyStr("7"), 10 ** 30, float("inf"), float("nan"), bytearray(b"2"))
    DEC_VALUES = (None, 0, 1, -1, 1.5, 2.675, 0.125, 1e-7, 1e22, 123456789.123456789, float("nan"), float("inf"), -0.0, decimal.Decimal("1.005"),
                  decimal.Decimal("-2.5"), decimal.Decimal("NaN"), "1.5", True, 10 ** 30, fractions.Fraction(1, 3), S(), b"1", 5e-324, 0.5, 1.45, -1.45,
                  2.5, 0.05, 999999.9999995)
    DEC_TYPES = dict(Decimal=decimal.Decimal, str=str, float=float)
    NONSTR = (None, 5, b"2021-03-04", 1.5, datetime.date(2021, 3, 4), MyStr("2021-03-04"), MyStr("05:06:07"), MyStr("2021-03-04 05:06:07"), ("2021-03-04",))

    def execute(spec):
        kind = spec[0]
        if kind == "simple":
            _, fn, i = spec
            r, txt = OUT.run(getattr(P, fn), SIMPLE[i])
            return "processors.%s" % fn, "%s(%r)" % (fn, SIMPLE[i]), SIMPLE[i] is not None, "-", [txt]
        if kind == "stamp":
            _, fn, s = spec
            r, txt = OUT.run(getattr(P, fn), s)
            return "processors.%s" % fn, "%s(%r)" % (fn, s), True, "-", [txt]
        if kind == "nonstr":
            _, fn, i = spec
            r, txt = OUT.run(getattr(P, fn), NONSTR[i])
            return "processors.%s[non-str]" % fn, "%s(%r)" % (fn, NONSTR[i]), True, "-", [txt]
        if kind == "dec":
            _, tname, scale, i = spec
            f, txt = OUT.run(P.to_decimal_processor_factory, DEC_TYPES[tname], scale)
            if f is not None:
                r, txt = OUT.run(f, DEC_VALUES[i])
                r2, txt2 = OUT.run(f, DEC_VALUES[i])  # the factory is reusable
                txt += " again:" + txt2
            return "processors.to_decimal_processor_factory[%s]" % tname, "to_decimal_processor_factory(%s, %d)(%r)" % (tname, scale, DEC_VALUES[i]), \
                DEC_VALUES[i] is not None, "-", [txt]
        if kind == "decmeta":
            _, what = spec
            f = P.to_decimal_processor_factory(decimal.Decimal, 2)
            fn = dict(callable=lambda: callable(f), name=lambda: type(f).__name__, setattr=lambda: setattr(f, "zz", 1),
                      two=lambda: (P.to_decimal_processor_factory(decimal.Decimal, 1)(1.25), f(1.25)),
                      kw=lambda: P.to_decimal_processor_factory(type_=decimal.Decimal, scale=3)(1.0005),
                      badscale=lambda: P.to_decimal_processor_factory(decimal.Decimal, -1)(1.5),
                      noargs=lambda: P.to_decimal_processor_factory(), iscompiled=lambda: isinstance(P._is_compiled(), bool))[what]
            r, txt = OUT.run(fn)
            return "processors.to_decimal_processor_factory[meta:%s]" % what, "to_decimal_processor_factory meta %s" % what, True, "-", [txt]
        raise AssertionError(spec)

    if only is not None:
        return [(only,) + execute(only)]

    def gen():
        if which == "simple":
            for fn in ("int_to_boolean", "to_str", "to_float"):
                for i in range(len(SIMPLE)):
                    yield ("simple", fn, i)
            for fn in ("str_to_date", "str_to_time", "str_to_datetime"):
                for i in range(len(NONSTR)):
                    yield ("nonstr", fn, i)
        elif which in ("date", "time", "datetime"):
            fn = "str_to_" + which
            seen = set()
            for fam in (which,) + tuple(k for k in ("date", "time", "datetime") if k != which):
                for base in STAMPS[fam]:
                    for m in (_mutants(base) if fam == which or tier == "thorough" else [base]):
                        if m not in seen:
                            seen.add(m)
                            yield ("stamp", fn, m)
        elif which == "decimal":
            for what in ("callable", "name", "setattr", "two", "kw", "badscale", "noargs", "iscompiled"):
                yield ("decmeta", what)
            for tname in ("Decimal", "str", "float"):
                for scale in range(7):
                    for i in range(len(DEC_VALUES)):
                        yield ("dec", tname, scale, i)

    return ((spec,) + execute(spec) for spec in gen())


# =====================================================================
#                      WORKER: distill / tuplegetter
# =====================================================================

ATOMS = ("None", "{}", "{'a':1}", "imm{}", "imm{'a':1}", "mproxy{'a':1}", "usermap{'a':1}", "()", "(1,)", "(1,2)", "[]", "[1]", "'s'", "1", "odict{'b':2}",
         "row(1,2)", "rowmapping")


def run_distill(shard, tier, only):
    import collections
    import types

    from sqlalchemy.engine import _util_cy as U
    from sqlalchemy.engine.result import SimpleResultMetaData
    from sqlalchemy.engine.row import Row
    from sqlalchemy.engine.row import RowMapping
    from sqlalchemy.engine._row_cy import BaseRow
    from sqlalchemy.util import immutabledict

    _ROW_TYPES[0], _ROW_TYPES[1] = BaseRow, RowMapping

    class UserMap(collections.abc.Mapping):
        def __init__(self, d):
            self.d = dict(d)

        def __getitem__(self, k):
            return self.d[k]

        def __iter__(self):
            return iter(self.d)

        def __len__(self):
            return len(self.d)

        def __repr__(self):
            return "UserMap(%r)" % (self.d,)

    meta = SimpleResultMetaData(["a", "b"])

    def atom(i):
        return [
            lambda: None, lambda: {}, lambda: {"a": 1}, lambda: immutabledict(), lambda: immutabledict({"a": 1}), lambda: types.MappingProxyType({"a": 1}),
            lambda: UserMap({"a": 1}), lambda: (), lambda: (1,), lambda: (1, 2), lambda: [], lambda: [1], lambda: "s", lambda: 1,
            lambda: collections.OrderedDict(b=2), lambda: Row(meta, None, meta._key_to_index, (1, 2)), lambda: RowMapping(meta, None, meta._key_to_index, (1, 2)),
        ][i]()

    def mk(shape):
        if shape[0] == "atom":
            return atom(shape[1])
        seq = [mk(s) for s in shape[2]]
        if shape[1] == "list":
            return seq
        if shape[1] == "tuple":
            return tuple(seq)
        if shape[1] == "listsub":
            class L(list):
                pass
            return L(seq)
        if shape[1] == "deque":
            return collections.deque(seq)

    def show(shape):
        if shape[0] == "atom":
            return ATOMS[shape[1]]
        return shape[1] + "[" + ", ".join(show(s) for s in shape[2]) + "]"

    def execute(spec):
        _, fn, shape = spec
        arg = mk(shape)
        r, txt = OUT.run(getattr(U, fn), arg)
        if r is not None:
            txt += " is-arg" if r is arg else (" wraps-arg" if isinstance(r, list) and len(r) == 1 and r[0] is arg else " new")
        return "engine._util_cy.%s[%s]" % (fn, shape[0] if shape[0] == "atom" else shape[1]), "%s(%s)" % (fn, show(shape)), shape != ("atom", 0), "-", [txt]

    if only is not None:
        return [(only,) + execute(only)]

    def gen():
        na = len(ATOMS)
        shapes = [("atom", i) for i in range(na)]
        for cont in ("list", "tuple", "listsub", "deque"):
            shapes.append(("seq", cont, ()))
            for i in range(na):
                shapes.append(("seq", cont, (("atom", i),)))
            for i in range(na):
                for j in range(na):
                    shapes.append(("seq", cont, (("atom", i), ("atom", j))))
        # depth 2: a container inside a container
        for outer in ("list", "tuple"):
            for inner in ("list", "tuple"):
                for i in (None, 0, 2, 8, 13):
                    in_shape = ("seq", inner, () if i is None else (("atom", i),))
                    shapes.append(("seq", outer, (in_shape,)))
                    shapes.append(("seq", outer, (in_shape, ("atom", 2))))
                    shapes.append(("seq", outer, (("atom", 2), in_shape)))
        for fn in ("_distill_params_20", "_distill_raw_params"):
            for sh in shapes:
                yield ("distill", fn, sh)

    return ((spec,) + execute(spec) for spec in gen())


def run_tuplegetter(shard, tier, only):
    from sqlalchemy.engine import _util_cy as U
    from sqlalchemy.engine.result import SimpleResultMetaData
    from sqlalchemy.engine.row import Row
    from sqlalchemy.engine.row import RowMapping
    from sqlalchemy.engine._row_cy import BaseRow

    _ROW_TYPES[0], _ROW_TYPES[1] = BaseRow, RowMapping
    VALS = ("p", "q", "r", "s")

    def execute(spec):
        _, idxs, n, kind = spec
        g, txt = OUT.run(U.tuplegetter, *idxs)
        if g is not None:
            data = VALS[:n]
            if kind == "list":
                data = list(data)
            elif kind == "row":
                meta = SimpleResultMetaData(["k%d" % i for i in range(n)])
                data = Row(meta, None, meta._key_to_index, data)
            elif kind == "str":
                data = "".join(data)
            r, txt = OUT.run(g, data)
            txt = type(g).__name__ + " -> " + txt
        contiguous = all(b == a + 1 for a, b in zip(idxs, idxs[1:]))
        return "engine._util_cy.tuplegetter[%s]" % ("contiguous" if contiguous else "scattered"), "tuplegetter%r(%s of %d)" % (tuple(idxs), kind, n), \
            len(idxs) > 1, "-", [txt]

    if only is not None:
        return [(only,) + execute(only)]

    def gen():
        dom = range(4) if tier == "quick" else range(-2, 4)
        yield ("tg", (), 2, "tuple")
        for k in (1, 2, 3):
            for idxs in itertools.product(dom, repeat=k):
                for n in range(5):
                    for kind in ("tuple", "list", "row", "str"):
                        yield ("tg", tuple(idxs), n, kind)
        for idxs in ((True,), (0, True)):
            yield ("tg", idxs, 3, "tuple")

    return ((spec,) + execute(spec) for spec in gen())


# =====================================================================
#                      WORKER: anon_map / prefix_anon_map
# =====================================================================

ANON_OPS = (("getitem", "a"), ("getitem", "b"), ("getitem", 5), ("get_anon", 0), ("get_anon", 1), ("contains", "a"), ("contains_obj", 0), ("get", "a"),
            ("len",), ("setitem", "a", True), ("setitem", "z", 7), ("getitem", "z"), ("pop", "a"), ("index",))
PREFIX_OPS = (("getitem", "1 a"), ("getitem", "2 a"), ("getitem", "3 b"), ("getitem", "4 a b"), ("getitem", "nospace"), ("getitem", "a"), ("get", "1 a"),
              ("contains", "a"), ("len",), ("setitem", "a", 5), ("getitem", "5 "), ("getitem", " a"), ("getitem", "6 a_1"), ("getitem", "a_1"))


def run_anon(shard, tier, only):
    from sqlalchemy.sql import _util_cy as SU

    which = shard[1]

    class Obj:
        def __init__(self, tag):
            self.tag = tag

    OBJS = [Obj("o0"), Obj("o1")]
    IDS = {id(o): "id(%s)" % o.tag for o in OBJS}

    def dump(m):
        return "{" + ",".join("%s:%s" % (IDS.get(k, repr(k)) if isinstance(k, int) and not isinstance(k, bool) else repr(k), canon(v)) for k, v in dict.items(m)) + "}"

    def apply(m, op):
        n = op[0]
        if n == "getitem":
            return m[op[1]]
        if n == "get_anon":
            return m.get_anon(OBJS[op[1]])
        if n == "contains":
            return op[1] in m
        if n == "contains_obj":
            return id(OBJS[op[1]]) in m
        if n == "get":
            return m.get(op[1], "dflt")
        if n == "len":
            return len(m)
        if n == "setitem":
            m[op[1]] = op[2]
            return None
        if n == "pop":
            return m.pop(op[1], "dflt")
        if n == "index":
            # the counter is observable only through the next allocation
            return type(m).__name__

    def execute(spec):
        _, cls, hist = spec
        m = getattr(SU, cls)()
        steps = []
        for op in hist:
            r, txt = OUT.run(apply, m, op)
            steps.append(txt + " | " + dump(m))
        op = hist[-1]
        return "sql._util_cy.%s.%s" % (cls, op[0]), "%s()" % cls + "".join(".%s%r" % (o[0], tuple(o[1:])) for o in hist), \
            len(hist) > 1 and any(o[0] in ("getitem", "get_anon") for o in hist[:-1]), dump(m), steps

    if only is not None:
        return [(only,) + execute(only)]

    def gen():
        ops = ANON_OPS if which == "anon" else PREFIX_OPS
        cls = "anon_map" if which == "anon" else "prefix_anon_map"
        depth = 3 if tier == "quick" else 4
        for k in range(1, depth + 1):
            for hist in itertools.product(ops, repeat=k):
                yield ("anon", cls, tuple(hist))

    return ((spec,) + execute(spec) for spec in gen())


# =====================================================================
#                      WORKER: main
# =====================================================================

def run_multi(shard, tier, only):
    if only is not None:
        _, sub, spec = only
        for row in RUNNERS[sub[0]](sub, tier, spec):
            yield (("@", sub, row[0]),) + tuple(row[1:])
        return
    for sub in shard[1]:
        for row in RUNNERS[sub[0]](sub, tier, None):
            yield (("@", sub, row[0]),) + tuple(row[1:])


RUNNERS = dict(oset=run_oset, iset=run_iset, misc=run_misc, row=run_row, result=run_result, proc=run_proc, distill=run_distill,
               tuplegetter=run_tuplegetter, anon=run_anon, multi=run_multi)


def worker_main(argv):
    import gc

    shard = ast.literal_eval(argv[0])
    tier = argv[1]
    only = None
    if len(argv) > 3 and argv[2] == "--spec":
        only = ast.literal_eval(argv[3])
    from sqlalchemy.util import _has_cython

    mods = {m.__name__: bool(m._is_compiled()) for m in _has_cython._all_cython_modules()}
    sys.stdout.write("#C55 %r\n" % (mods,))
    gc.disable()
    n = 0
    for spec, group, desc, nt, st, steps in RUNNERS[shard[0]](shard, tier, only):
        n += 1
        emit(group, spec, desc, nt, st, steps, sample=(n % 997 == 3))
        if n % 20000 == 0:
            gc.collect()
    sys.stdout.flush()


if __name__ == "__main__":
    if len(sys.argv) >= 4 and sys.argv[1] == "--worker":
        worker_main(sys.argv[2:])
    else:
        print(__doc__)
