"""C11 Row lookup by column expression returns that expression's value.

Engine I.  Three joined tables that share column names (alpha.x / bravo.x /
gamma.x, alpha.y / bravo.y); every cell of a joined row holds a different
number, and every expression of the pool has a value known from construction,
so a lookup that lands on the wrong column is visible as a wrong number.

Case = (label_length, label style, wrapper, ordered selection of pool
expressions).  Each case is built twice as *fresh* constructs and executed twice
on the same engine: the first execution compiles (cache miss), the second one
re-uses the cached Compiled and goes through
``CursorResultMetaData._adapt_to_context`` with its own label objects.

A second family ("perm" shards) covers a compiled-cache hit whose column objects
already sit in the cached key map at other positions: statements over 2-3 anonymous
aliases (or 2-3 same-structured anonymous subqueries) of one table have one cache key
whichever object plays which role; every ordered pair (for 2 objects and in the
thorough tier also every ordered triple) of role permutations is executed on an
emptied compiled cache, and for every execution row._mapping[col], mappings()[col],
result.columns(c1, c2) for every ordered pair of column objects, result.scalars(col)
and the unique string keys are compared with the positional truth known from
construction.

Oracle, per result row:

* positional truth: the row equals the tuple of expected values (known from
  construction) for one of the base rows;
* object keys: ``row._mapping[e]`` for every selected expression / every
  ``selected_columns`` entry of the executed statement equals the value at that
  expression's position - an exception is a violation too;
* inner expressions of a wrapped statement (subquery / CTE / textual): may raise,
  may return their own value, never another value;
* string keys: every string in ``result.keys()`` plus every name / key / label /
  table_column name of every selected expression plus a few fixed probes:
  - occurs once in ``keys()``      -> must return the value at that position
  - occurs twice or more in keys() -> must raise InvalidRequestError (ambiguous)
  - not a result key (secondary name): NoSuchColumnError, InvalidRequestError,
    or the value of a position whose expression bears that name, provided all
    positions bearing it hold that same value - never another column's value.

Root causes found on the unchanged tree carry the constant signatures G1..G4.

Mutations caught (private copy, each gives VIOLATION lines with new signatures):
  M1 cursor.py CursorResultMetaData.__init__: duplicate detection disabled (``if False and len(by_key) != ...``)
        -> plain/none select[alpha.x, bravo.x]: row._mapping['x'] returns bravo.x
  M2 cursor.py _merge_textual_cols_by_position: ``result_columns[idx - 1]``
        -> text_pos: row._mapping[alpha.c.x] returns bravo.x's value
  M3 cursor.py _adapt_to_context: ``enumerate(invoked_statement._all_selected_columns, 1)``
        -> only the cache-hit execution: row._mapping[<Label>] NoSuchColumnError / wrong column
  M4 compiler.py _truncated_identifier: counter not advanced (two truncated labels both ``_1``)
        -> label_length=6 tpc: row._mapping['_1'] returns the last column
  M6 compiler.py visit_label: label object left out of the result-map targets
        -> row._mapping[<Label>] NoSuchColumnError
  M7 cursor.py _adapt_to_context: merge precedence swapped (``{new: rec} | self._keymap``)
        -> perm family only: executions [[0, 1], [1, 0]]: row._mapping[<column 0>] returns column 1's value
  M8 cursor.py _adapt_to_context: invoked-statement columns already present in the cached keymap are skipped
        -> perm family only, same signature class
  (M5 cursor.py _create_description_match_map keeping only the first column's objects on a name
   conflict was NOT caught by the first version; it led to the "mismatch" statement form, which then
   exposed G4 on the unchanged tree; M5 itself turns a wrong value into NoSuchColumnError and is not a
   property violation.)
"""
import itertools
import re
import warnings

import sqlalchemy as sa
from sqlalchemy import exc
from sqlalchemy.sql.selectable import LABEL_STYLE_DISAMBIGUATE_ONLY
from sqlalchemy.sql.selectable import LABEL_STYLE_NONE
from sqlalchemy.sql.selectable import LABEL_STYLE_TABLENAME_PLUS_COL

ID = "C11"
LEVEL = "exploration"
META = dict(
    engine="I",
    technique="exhaustive small-scope enumeration of SELECT column lists over name-colliding joined tables, executed on SQLite, every key lookup checked against values known from construction",
    design_ref="DESIGN.md §5 C11",
    level_text="Every ordered selection (with repetition) of <=3 (quick; thorough: <=4 at the default label_length) expressions from a pool of 12 (same-named columns of "
    "three joined tables, labels that collide with column names, with table_column names and with auto-generated de-duplication labels, an "
    "80-character label, an unnamed literal_column, a correlated scalar subquery, the same column twice) x 3 label styles x label_length "
    "None/6/10 x 8 statement forms (plain select, select from subquery, from CTE, UNION ALL, select with a textual element that expands to two columns so that columns are matched by name, text().columns(positional), text().columns(named), "
    "raw text) is executed twice from freshly built constructs (compiled-cache miss, then hit through _adapt_to_context). For every row: "
    "positional values equal the values known from construction; row._mapping[e] for every selected expression object; the inner expressions "
    "of wrapped statements; and every string that is a result key, a cursor.description name, a name/key/label/table_column name of a "
    "selected expression, or one of 14 fixed probes. All cells of a row are pairwise different numbers, so any wrong column is visible. "
    "Cache hits whose column objects occur in the cached key map at other positions are covered by the permutation family (anonymous aliases / "
    "subqueries in swapped roles, all ordered pairs / triples of role permutations on one compiled cache).",
    level_note="Trusted: the 60-line oracle in check_case (positions by keys(), by cursor.description and by the names each expression bears) and "
    "SQLite. Conservative errors are accepted (an 'ambiguous' error when several selected expressions bear the name or keys() has duplicates; "
    "NoSuchColumnError for names that are not result keys); what is never accepted is a value that belongs to another column, an exception "
    "for a selected expression object, or an error for a key that is unique in keys(). Statements SQLAlchemy itself refuses "
    "(InvalidRequestError / CompileError at compile time) and derived tables with duplicate column names are counted, not judged. Only the "
    "SQLite dialect executes.",
    rule="case = (label_length, label style, statement form, selection); evaluated on 2 rows x 2 executions; non-trivial = at least two selected "
    "expressions bear a common name (collision exercised)",
    assumptions=["all cell values of a joined row are pairwise distinct (by construction)", "SQLite returns the columns in SELECT-list order"],
    bounds=dict(quick="all selections of <=3 of 12 expressions (1884) plus all selections of 4 of a 5-expression sub-pool (625) x 3 styles x label_length None/6 x 8 forms; cache-hit permutation family: 2 kinds x 2-3 anonymous FROM objects x 3 styles, all ordered pairs of role permutations (+ all triples for 2 objects)",
                thorough="all selections of <=4 of 12 expressions (22620) x 3 styles x 8 forms at label_length None; <=3 plus the 4-of-5 sub-pool (2509) at label_length 6 and 10; cache-hit permutation family: all ordered pairs and triples of role permutations, label_length None/6/10"),
)

# ------------------------------------------------------------------ world

metadata = sa.MetaData()
alpha = sa.Table("alpha", metadata, sa.Column("id", sa.Integer, primary_key=True), sa.Column("x", sa.Integer), sa.Column("y", sa.Integer))
bravo = sa.Table("bravo", metadata, sa.Column("id", sa.Integer, primary_key=True), sa.Column("aid", sa.Integer), sa.Column("x", sa.Integer), sa.Column("y", sa.Integer))
gamma = sa.Table("gamma", metadata, sa.Column("id", sa.Integer, primary_key=True), sa.Column("bid", sa.Integer), sa.Column("x", sa.Integer))
L80 = "a_label_that_is_exactly_eighty_characters_long_to_exercise_identifier_truncation"
assert len(L80) == 80
KS = (1, 2)

STYLES = {"none": LABEL_STYLE_NONE, "tpc": LABEL_STYLE_TABLENAME_PLUS_COL, "dis": LABEL_STYLE_DISAMBIGUATE_ONLY}
LABEL_LENGTHS = (None, 6, 10)
WRAPPERS = ("plain", "subquery", "cte", "union", "mismatch", "text_pos", "text_named", "text_raw")

# pool entry: (short name, builder() -> fresh expression, value(k), names borne by the expression)
POOL = [
    ("alpha.x", lambda: alpha.c.x, lambda k: 100 * k + 1, ("x", "alpha_x")),
    ("bravo.x", lambda: bravo.c.x, lambda k: 100 * k + 21, ("x", "bravo_x")),
    ("gamma.x", lambda: gamma.c.x, lambda k: 100 * k + 31, ("x", "gamma_x")),
    ("alpha.y", lambda: alpha.c.y, lambda k: 100 * k + 2, ("y", "alpha_y")),
    ("bravo.y AS x", lambda: bravo.c.y.label("x"), lambda k: 100 * k + 22, ("x", "y", "bravo_y")),
    ("alpha.x+5000 AS y", lambda: (alpha.c.x + 5000).label("y"), lambda k: 100 * k + 5001, ("y",)),
    ("bravo.id AS L80", lambda: bravo.c.id.label(L80), lambda k: 10 + k, (L80, "id", "bravo_id")),
    ("literal_column", lambda: sa.literal_column("gamma.id + 7000", sa.Integer), lambda k: 7020 + k, ("gamma.id + 7000",)),
    ("scalar_subquery", lambda: sa.select(gamma.c.x + 8000).where(gamma.c.bid == bravo.c.id).correlate(bravo).scalar_subquery(), lambda k: 100 * k + 8031, ()),
    ("alpha.x(again)", lambda: alpha.c.x, lambda k: 100 * k + 1, ("x", "alpha_x")),
    ("bravo.y AS alpha_x", lambda: bravo.c.y.label("alpha_x"), lambda k: 100 * k + 22, ("alpha_x", "y", "bravo_y")),
    ("alpha.y AS x_1", lambda: alpha.c.y.label("x_1"), lambda k: 100 * k + 2, ("x_1", "y", "alpha_y")),
]
SAME_OBJECT = {9: 0}  # pool 9 is the very same Column object as pool 0
FIXED_PROBES = ("x", "y", "id", "x_1", "x_2", "y_1", "alpha_x", "bravo_x", "gamma_x", "alpha_y", "bravo_y", "sq_x", "sq_alpha_x", "x__1")

# root causes with a constant signature (see the report / known_findings.json)
G1 = ("raw text() statement whose cursor.description repeats a column name: row._mapping[name] silently returns the "
      "last such column instead of raising 'Ambiguous column name' (CursorResultMetaData._merge_cols_by_none path)")
G2 = ("text().columns(c1, c2) with two columns of the same .name (alpha.x, bravo.x) rendered under other labels: "
      "row._mapping['x'] silently returns the last of them instead of raising 'Ambiguous column name'")
G3 = ("explicit label equal to an auto-generated de-duplication label (select(alpha.x, bravo.x, alpha.y.label('x_1')) renders "
      "two columns AS x_1): row._mapping['x_1'] returns the explicitly labelled column instead of raising 'Ambiguous column name'")

G4 = ("columns matched by name (cursor.description longer than the compiled column list, e.g. a text() element holding two "
      "columns) with a duplicated name: when the number of distinct description names equals the number of compiled columns the "
      "duplicate goes unnoticed and row._mapping[alpha.c.x] / row._mapping['x'] return the last same-named column's value (bravo.x)")

G5 = ("an anonymous bind parameter named after the same column consumes the de-duplication counter "
      "(select(a.id, (a.id + 100).label('w'), b.id, c.id) renders b.id AS id_2, c.id AS id_3): row._mapping['id_2'], row.id_2 and "
      "mappings() return c.id's value under the key 'id_2' that result.keys() assigns to b.id; b.id's value is unreachable by name")

_AUTO = re.compile(r"^.*_\d+$")
_ENGINES = {}


def engine_for(ll):
    e = _ENGINES.get(ll)
    if e is None:
        e = sa.create_engine("sqlite://", label_length=ll) if ll else sa.create_engine("sqlite://")
        c = e.connect()
        metadata.create_all(c)
        for k in KS:
            c.execute(alpha.insert(), dict(id=k, x=100 * k + 1, y=100 * k + 2))
            c.execute(bravo.insert(), dict(id=10 + k, aid=k, x=100 * k + 21, y=100 * k + 22))
            c.execute(gamma.insert(), dict(id=20 + k, bid=10 + k, x=100 * k + 31))
        for k in (1, 2, 3):
            c.execute(sa.text("insert into node (id, v, w) values (:id, :v, :w)"), dict(id=k, v=1000 * k + 1, w=1000 * k + 2))
        c.commit()
        _ENGINES[ll] = e = (e, c)
    return e


def joined():
    return alpha.join(bravo, bravo.c.aid == alpha.c.id).join(gamma, gamma.c.bid == bravo.c.id)


def build_exprs(sel, label_unnamed=False):
    memo = {}
    out = []
    for i in sel:
        j = SAME_OBJECT.get(i, i)
        if j not in memo:
            e = POOL[j][1]()
            if label_unnamed and j in (7, 8):
                # a derived table needs a name for every column
                e = e.label("lc" if j == 7 else "ssq")
            memo[j] = e
        out.append(memo[j])
    return out


class Built:
    """one executable statement plus what the oracle needs to know about it"""

    __slots__ = ("stmt", "params", "aligned", "inner", "positional_exact", "nrows", "extra")


def build(sel, style, wrapper, conn):
    """-> Built or None when the wrapper does not apply to this selection"""
    exprs = build_exprs(sel)
    ls = STYLES[style]
    b = Built()
    b.params = {}
    b.inner = []
    b.positional_exact = True
    b.nrows = len(KS)
    b.extra = ()
    base = sa.select(*exprs).select_from(joined()).order_by(alpha.c.id)
    if wrapper == "plain":
        b.stmt = base.set_label_style(ls)
        b.aligned = list(exprs)
        return b
    if wrapper in ("subquery", "cte"):
        # the inner select needs distinct column names to be a valid derived table
        exprs = build_exprs(sel, label_unnamed=True)
        inner = sa.select(*exprs).select_from(joined()).set_label_style(LABEL_STYLE_TABLENAME_PLUS_COL if style == "tpc" else LABEL_STYLE_DISAMBIGUATE_ONLY)
        ikeys = list(conn.execute(inner.limit(0)).keys())
        if len(set(ikeys)) != len(ikeys):
            return None  # not a valid derived table (duplicate column names in its SELECT list)
        sub = inner.subquery("sq") if wrapper == "subquery" else inner.cte("sq")
        b.stmt = sa.select(sub).set_label_style(ls)
        b.aligned = None  # filled from selected_columns when the lengths agree
        b.inner = list(zip(sel, exprs))
        b.positional_exact = False
        return b
    if wrapper == "mismatch":
        # a textual element that expands to two columns: cursor.description is longer than the compiled
        # column list, so columns are matched by name (CursorResultMetaData._merge_cols_by_name)
        b.stmt = sa.select(*exprs, sa.text("gamma.id + 9000, gamma.id + 9500")).select_from(joined()).order_by(alpha.c.id).set_label_style(ls)
        b.aligned = list(exprs) + [None, None]
        b.extra = (lambda k: 9020 + k, lambda k: 9520 + k)
        return b
    if wrapper == "union":
        s1 = sa.select(*exprs).select_from(joined()).where(alpha.c.id == 1).set_label_style(ls)
        s2 = sa.select(*build_exprs(sel)).select_from(joined()).where(alpha.c.id == 2).set_label_style(ls)
        b.stmt = sa.union_all(s1, s2)
        b.aligned = list(exprs)
        return b
    # textual variants: the SQL text of the plain statement (rendered by a throw-away compile)
    sql = str(base.set_label_style(ls).compile(dialect=conn.dialect, compile_kwargs={"literal_binds": True}))
    if wrapper == "text_pos":
        if any(SAME_OBJECT.get(i, i) in (7, 8) for i in sel) or len({SAME_OBJECT.get(i, i) for i in sel}) != len(sel):
            return None  # text().columns() takes named column expressions, each once
        b.stmt = sa.text(sql).columns(*exprs)
        b.aligned = list(exprs)
        return b
    if wrapper == "text_named":
        b.stmt = sa.text(sql).columns(**{n: sa.Integer for n in ("x", "y", "alpha_x", "x_1")})
        b.aligned = [None] * len(exprs)
        return b
    if wrapper == "text_raw":
        b.stmt = sa.text(sql)
        b.aligned = [None] * len(exprs)
        return b
    raise AssertionError(wrapper)


def expected_row(sel, k):
    return tuple(POOL[i][2](k) for i in sel)


def names_of_obj(e):
    out = set()
    for attr in ("name", "key"):
        v = getattr(e, attr, None)
        if isinstance(v, str):
            out.add(str(v))
    t = getattr(e, "table", None)
    if t is not None and isinstance(getattr(t, "name", None), str) and isinstance(getattr(e, "name", None), str):
        out.add("%s_%s" % (t.name, e.name))
    return out


def _lookup(row, key):
    try:
        return ("val", row._mapping[key])
    except exc.NoSuchColumnError:
        return ("nosuch",)
    except exc.InvalidRequestError:
        return ("ambiguous",)
    except Exception as e:  # noqa: BLE001
        return ("exc", type(e).__name__, str(e)[:120])


def check_case(sel, style, wrapper, ll, rec=None):
    """-> list of (kind, detail); executes the case twice (cache miss, cache hit)"""
    eng, conn = engine_for(ll)
    problems = []
    for attempt in ("miss", "hit"):
        with warnings.catch_warnings():
            warnings.simplefilter("ignore")
            try:
                b = build(sel, style, wrapper, conn)
            except (exc.InvalidRequestError, exc.CompileError) as e:
                if rec is not None:
                    rec.count("statement_refused_%s" % type(e).__name__)
                return None
            if b is None:
                return None
            try:
                result = conn.execute(b.stmt, b.params)
                keys = list(result.keys())
                dnames = [d[0] for d in result.cursor.description]
                if rec is not None:
                    rec.count("executions_cache_hit" if result.context.cache_hit is conn.dialect.CACHE_HIT else "executions_cache_miss")
                rows = result.all()
            except (exc.InvalidRequestError, exc.CompileError) as e:
                # the statement itself is refused ("Label name ... is being renamed to an anonymous label
                # due to disambiguation which is not supported right now"): nothing to look up
                if rec is not None:
                    rec.count("statement_refused_%s" % type(e).__name__)
                return None
            except Exception as e:  # noqa: BLE001
                problems.append(("execute", "%s: execution failed: %s: %s" % (attempt, type(e).__name__, str(e)[:200])))
                return problems
        ncols = len(sel) + len(b.extra)
        if len(rows) != b.nrows or any(len(r) != ncols for r in rows) or len(keys) != ncols:
            problems.append(("shape", "%s: %d rows x %s cols, keys %r; expected %d x %d" % (attempt, len(rows), [len(r) for r in rows], keys, b.nrows, ncols)))
            return problems
        aligned = b.aligned
        if aligned is None:
            sc = list(b.stmt.selected_columns)
            aligned = sc if len(sc) == ncols else [None] * ncols
            if rec is not None and len(sc) != ncols:
                rec.count("wrapped_statements_with_deduplicated_selected_columns")
        exp_rows = [expected_row(sel, k) + tuple(f(k) for f in b.extra) for k in KS]
        for row in rows:
            tup = tuple(row)
            # positional truth
            if b.positional_exact:
                if tup not in exp_rows:
                    problems.append(("positional", "%s: row %r is not one of the expected rows %r" % (attempt, tup, exp_rows)))
                    continue
                exp = tup
            else:
                cand = [e for e in exp_rows if sorted(e) == sorted(tup)]
                if not cand and len(set(dnames)) < len(dnames):
                    # the derived table was rendered with two columns of one name (an explicit label x_1
                    # coinciding with a de-duplication label generated only in the nested compile): the
                    # database resolves sq.x_1 to the first - SQL generation (root cause G3), not row lookup
                    if rec is not None:
                        rec.count("derived_table_with_duplicate_column_names")
                    return None
                if not cand:
                    problems.append(("positional", "%s: row %r does not hold the expected values %r" % (attempt, tup, exp_rows)))
                    continue
                exp = cand[0]
            k = KS[exp_rows.index(exp)] if exp in exp_rows else None
            # ---- object keys, position aligned
            for i, e in enumerate(aligned):
                if e is None:
                    continue
                got = _lookup(row, e)
                if rec is not None:
                    rec.outcome(("obj", got[0]))
                if got in (("ambiguous",), ("nosuch",)) and sum(1 for x in aligned if x is e) > 1:
                    continue  # the same object selected twice: positionally ambiguous, raising is allowed
                if got in (("ambiguous",), ("nosuch",)) and wrapper == "mismatch" and dnames.count(dnames[i]) > 1:
                    continue  # matched by name and the name is not unique in cursor.description: raising is allowed
                if got != ("val", tup[i]):
                    g4o = wrapper == "mismatch" and got[0] == "val" and len(set(dnames)) < len(dnames) and len(set(dnames)) == len(sel) + 1
                    problems.append(("object-key", "%s: row._mapping[<%s at position %d>] -> %r, value at that position is %r (row %r, keys %r)"
                                     % (attempt, type(e).__name__, i, got, tup[i], tup, keys), G4 if g4o else None))
            # ---- text().columns(name=type): the declared columns are matched to cursor.description by name
            if wrapper == "text_named":
                for c in b.stmt.selected_columns:
                    Pd = [i for i in range(ncols) if dnames[i] == c.name]
                    got = _lookup(row, c)
                    if rec is not None:
                        rec.outcome(("named-obj", min(len(Pd), 2), got[0]))
                    vals = {tup[i] for i in Pd}
                    if got[0] == "exc" or (got[0] == "val" and (len(vals) != 1 or got[1] not in vals)) or (got[0] != "val" and len(Pd) == 1):
                        problems.append(("named-column-key", "%s: row._mapping[<declared column %r>] -> %r; cursor.description positions of that name %r hold %r (row %r)"
                                         % (attempt, c.name, got, Pd, [tup[i] for i in Pd], tup)))
            # ---- inner expressions of wrapped statements: own value or an exception
            for pi, e in b.inner:
                got = _lookup(row, e)
                if rec is not None:
                    rec.outcome(("inner", got[0]))
                if got[0] == "val" and got[1] != POOL[pi][2](k):
                    problems.append(("inner-object-key", "%s: row._mapping[<inner %s>] -> %r, that expression's value is %r (row %r)"
                                     % (attempt, POOL[pi][0], got[1], POOL[pi][2](k), tup)))
                elif got[0] == "exc":
                    problems.append(("inner-object-key", "%s: row._mapping[<inner %s>] raised %r" % (attempt, POOL[pi][0], got)))
            # ---- string keys
            # names borne by the columns of the executed statement (strict) and, for wrapped
            # statements, additionally by the inner expressions they derive from (loose)
            bearers, loose = {}, {}
            for i in range(ncols):
                names = {keys[i], dnames[i]}
                if aligned[i] is not None:
                    names |= names_of_obj(aligned[i])
                pool_names = set(POOL[sel[i]][3]) if i < len(sel) else set()
                if not b.inner and wrapper not in ("text_named", "text_raw"):
                    names |= pool_names
                for n in names:
                    bearers.setdefault(n, set()).add(i)
                for n in names | pool_names:
                    loose.setdefault(n, set()).add(i)
            dupkeys = len(set(keys)) < len(keys)
            # G4: matched by name, cursor.description has duplicate names, and the number of distinct
            # names happens to equal the number of compiled columns, which hides the duplicates
            g4 = wrapper == "mismatch" and len(set(dnames)) < len(dnames) and len(set(dnames)) == len(sel) + 1
            for s in sorted(set(loose) | set(FIXED_PROBES)):
                Pk = [i for i in range(ncols) if keys[i] == s]
                Pd = [i for i in range(ncols) if dnames[i] == s]
                B = sorted(bearers.get(s, ()))
                if not B:
                    B = sorted(loose.get(s, ()))
                got = _lookup(row, s)
                if rec is not None:
                    rec.outcome(("str", min(len(Pk), 2), min(len(Pd), 2), min(len(B), 2), got[0]))
                bad = None
                if got[0] == "exc":
                    bad = "raised %r" % (got,)
                elif got[0] == "val":
                    v = got[1]
                    where = [i for i in range(ncols) if tup[i] == v]
                    ok = (
                        (len(Pk) == 1 and Pk[0] in where)
                        or (len(Pd) == 1 and Pd[0] in where)
                        or (B and all(tup[i] == v for i in B))
                        or (Pk and all(tup[i] == v for i in Pk))
                        or not (B or Pk or Pd)
                    )
                    if not ok:
                        bad = ("returned %r = the value at position %r; keys() positions of this name %r, cursor.description positions %r, "
                               "positions whose expression bears the name %r with values %r: the name is ambiguous or belongs to another column"
                               % (v, where, Pk, Pd, B, [tup[i] for i in B]))
                elif got == ("nosuch",):
                    if len(Pk) == 1 and not dupkeys:
                        bad = "key is keys()[%d] and keys() has no duplicates, expected the value %r, got NoSuchColumnError" % (Pk[0], tup[Pk[0]])
                elif got == ("ambiguous",):
                    # names of the form name_N / name__N are also generated internally as de-duplication
                    # labels: an "ambiguous" answer for them is conservative, never a wrong value
                    if not (len(Pk) >= 2 or len(Pd) >= 2 or dupkeys or len(B) >= 2 or _AUTO.match(s)):
                        bad = "raised 'ambiguous' although a single selected expression bears that name (keys() positions %r)" % (Pk,)
                if bad:
                    known = None
                    if got[0] == "val":
                        if g4:
                            known = G4
                        elif (len(Pk) == 1 and not dupkeys and _AUTO.match(s) and wrapper in ("plain", "union", "subquery", "cte", "mismatch")
                              and any(tup[q] == got[1] and _AUTO.match(keys[q]) for q in range(ncols) if q != Pk[0])):
                            known = G5
                        elif wrapper == "text_raw" and len(Pd) >= 2:
                            known = G1
                        elif wrapper == "text_pos" and not Pk and len(B) >= 2:
                            known = G2
                        elif len(Pk) >= 2 and max(Pk) < len(sel) and any(POOL[sel[i]][0].endswith(" AS " + s) and tup[i] == got[1] for i in Pk) and any(
                                not POOL[sel[i]][0].endswith(" AS " + s) for i in Pk):
                            known = G3
                    problems.append(("string-key", "%s: row._mapping[%r]: %s (row %r, keys %r)" % (attempt, s, bad, tup, keys), known))
    return problems


SUBPOOL4 = (0, 1, 2, 3, 5)  # three same-named columns, a fourth name, an expression with an anonymous bind


# ------------------------------------------------------------------ cache hit with permuted column objects
#
# Statements over n anonymous aliases (or n same-structured anonymous subqueries) of one table have one
# cache key whichever alias object plays which role.  Executing stmt(perm1) and then stmt(perm2) on one
# compiled cache makes the second execution a cache hit for a *different* statement whose column objects
# already occur in the cached key map at *other* positions: CursorResultMetaData._adapt_to_context must
# let the invoked statement's columns win.

node = sa.Table("node", metadata, sa.Column("id", sa.Integer, primary_key=True), sa.Column("v", sa.Integer), sa.Column("w", sa.Integer))
NODE_ROWS = (1, 2, 3)
PERM_FAMILIES = ("alias", "subquery")


def _node_value(col, k):
    return {"id": k, "v": 1000 * k + 1, "w": 1000 * k + 2}[col]


def perm_froms(family, n):
    """n anonymous FROM objects over ``node``, made once per sequence and re-used in every statement"""
    if family == "alias":
        return [node.alias() for _ in range(n)]
    return [sa.select(node.c.id, node.c.v, node.c.w).where(node.c.id > 0).subquery() for _ in range(n)]


def perm_stmt(froms, perm, style):
    """role i (joined row with id i+1) is played by froms[perm[i]]; -> (statement, column objects, expected row)"""
    roles = [froms[j] for j in perm]
    n = len(roles)
    cols = [r.c.v for r in roles] + [roles[0].c.w, roles[-1].c.w]
    expected = tuple([_node_value("v", i + 1) for i in range(n)] + [_node_value("w", 1), _node_value("w", n)])
    j = roles[0]
    for a, b in zip(roles, roles[1:]):
        j = j.join(b, b.c.id == a.c.id + 1)
    stmt = sa.select(*cols).select_from(j).where(roles[0].c.id == 1).set_label_style(STYLES[style])
    return stmt, cols, expected


def check_perm_sequence(family, n, style, perms, ll=None, rec=None):
    """execute stmt(perms[0]), stmt(perms[1]), ... on an emptied compiled cache; every execution is checked,
    the 2nd.. ones are the cache hits with permuted column objects.  -> list of (kind, detail)"""
    eng, conn = engine_for(ll)
    eng.clear_compiled_cache()
    froms = perm_froms(family, n)
    problems = []
    for step, perm in enumerate(perms):
        stmt, cols, expected = perm_stmt(froms, perm, style)
        tag = "execution %d (roles played by froms%s)" % (step + 1, list(perm))

        def run():
            return conn.execute(stmt)

        with warnings.catch_warnings():
            warnings.simplefilter("ignore")
            r = run()
            hit = r.context.cache_hit is conn.dialect.CACHE_HIT
            keys = list(r.keys())
            rows = r.all()
            if rec is not None:
                rec.count("perm_executions_cache_hit" if hit else "perm_executions_cache_miss")
            if step > 0 and not hit:
                problems.append(("perm-cache", "%s: expected a compiled cache hit (same cache key), got a miss" % tag))
            if len(rows) != 1 or tuple(rows[0]) != expected:
                problems.append(("perm-positional", "%s: rows %r, expected [%r]" % (tag, [tuple(x) for x in rows], expected)))
                continue
            row = rows[0]
            distinct = []
            for i, c in enumerate(cols):
                got = _lookup(row, c)
                if rec is not None:
                    rec.outcome(("perm-obj", hit, got[0]))
                if got != ("val", expected[i]):
                    problems.append(("perm-object-key", "%s: row._mapping[<column %d of the executed statement>] -> %r, value at that position is %r (row %r, keys %r)"
                                     % (tag, i, got, expected[i], tuple(row), keys)))
                if not any(c is d for d, _ in distinct):
                    distinct.append((c, i))
            # mappings(): the same lookups through RowMapping
            m = run().mappings().all()[0]
            for i, c in enumerate(cols):
                try:
                    got = ("val", m[c])
                except Exception as e:  # noqa: BLE001
                    got = ("exc", type(e).__name__)
                if got != ("val", expected[i]):
                    problems.append(("perm-mappings", "%s: mappings()[<column %d>] -> %r, expected %r" % (tag, i, got, expected[i])))
            # columns(): every ordered pair of distinct column objects, and scalars(col)
            for (c1, i1), (c2, i2) in itertools.permutations(distinct, 2):
                try:
                    got = [tuple(x) for x in run().columns(c1, c2).all()]
                except Exception as e:  # noqa: BLE001
                    got = type(e).__name__
                if rec is not None:
                    rec.outcome(("perm-columns", hit, got == [(expected[i1], expected[i2])]))
                if got != [(expected[i1], expected[i2])]:
                    problems.append(("perm-columns", "%s: result.columns(<column %d>, <column %d>).all() -> %r, expected [%r]"
                                     % (tag, i1, i2, got, (expected[i1], expected[i2]))))
            for c, i in distinct:
                try:
                    got = run().scalars(c).all()
                except Exception as e:  # noqa: BLE001
                    got = type(e).__name__
                if got != [expected[i]]:
                    problems.append(("perm-scalars", "%s: result.scalars(<column %d>).all() -> %r, expected [%r]" % (tag, i, got, expected[i])))
            for i, k in enumerate(keys):
                if keys.count(k) == 1 and _lookup(row, k) != ("val", expected[i]):
                    problems.append(("perm-string-key", "%s: row._mapping[%r] -> %r, expected %r" % (tag, k, _lookup(row, k), expected[i])))
    return problems


def perm_sequences(n, tier):
    perms = list(itertools.permutations(range(n)))
    yield from itertools.product(perms, repeat=2)
    if n == 2 or tier == "thorough":
        yield from itertools.product(perms, repeat=3)


def run_perm_shard(shard, tier, rec):
    _, family, n, style, ll = shard
    for seq in perm_sequences(n, tier):
        res = check_perm_sequence(family, n, style, seq, ll, rec)
        rec.case(("perm", family, n, style, ll, seq), nontrivial=len(set(seq)) > 1)
        if len(set(seq)) > 1:
            rec.sample(dict(family="permuted " + family, n=n, style=style, sequence=[list(x) for x in seq]), limit=1)
        for kind, detail in res:
            rec.violation("%s: %d anonymous %s objects, style=%s label_length=%s, executions %s: %s" % (kind, n, family, style, ll, [list(x) for x in seq], detail),
                          detail, dict(perm=True, family=family, n=n, style=style, ll=ll, seq=[list(x) for x in seq]), kind=(kind, detail.split(":")[0]))



def selections(maxlen, npool):
    for n in range(1, maxlen + 1):
        yield from itertools.product(range(npool), repeat=n)
    if maxlen < 4:
        yield from itertools.product(SUBPOOL4, repeat=4)


def is_nontrivial(sel):
    names = [set(POOL[i][3]) for i in sel]
    return any(names[i] & names[j] for i in range(len(sel)) for j in range(i + 1, len(sel)))


def desc(sel):
    return "[" + ", ".join(POOL[i][0] for i in sel) + "]"


def shards(tier, seed):
    out = []
    for ll in (LABEL_LENGTHS if tier == "thorough" else LABEL_LENGTHS[:2]):
        for style in STYLES:
            for w in WRAPPERS:
                parts = 8 if (tier == "thorough" and ll is None) else 1
                for p in range(parts):
                    out.append((ll, style, w, p, parts))
    for family in PERM_FAMILIES:
        for n in (2, 3):
            for style in STYLES:
                for ll in ((None,) if tier == "quick" else LABEL_LENGTHS):
                    out.append(("perm", family, n, style, ll))
    return out


def run_shard(shard, tier, rec):
    if shard[0] == "perm":
        return run_perm_shard(shard, tier, rec)
    ll, style, wrapper, p, parts = shard
    maxlen = 4 if (tier == "thorough" and ll is None) else 3
    for idx, sel in enumerate(selections(maxlen, len(POOL))):
        if idx % parts != p:
            continue
        res = check_case(sel, style, wrapper, ll, rec)
        if res is None:
            rec.count("wrapper_not_applicable")
            continue
        nt = is_nontrivial(sel)
        rec.case((ll, style, wrapper, sel), nontrivial=nt)
        if nt and len(sel) >= 3 and idx % 97 == 5:
            rec.sample(dict(label_length=ll, style=style, wrapper=wrapper, select=desc(sel)), limit=2)
        for pr in res:
            kind, detail = pr[0], pr[1]
            known = pr[2] if len(pr) > 2 else None
            case = dict(sel=list(sel), style=style, wrapper=wrapper, ll=ll)
            if known:
                rec.violation(known, "minimal case in this shard: wrapper=%s style=%s label_length=%s select%s: %s" % (wrapper, style, ll, desc(sel), detail), case, kind=known)
            else:
                rec.violation("%s: wrapper=%s style=%s label_length=%s select%s: %s" % (kind, wrapper, style, ll, desc(sel), detail),
                              detail, case, kind=(kind, detail.split(":")[0]))


def replay(case):
    if case.get("perm"):
        seq = [tuple(x) for x in case["seq"]]
        res = check_perm_sequence(case["family"], case["n"], case["style"], seq, case["ll"])
        return [("%s: %d anonymous %s objects, style=%s label_length=%s, executions %s: %s" % (k, case["n"], case["family"], case["style"], case["ll"], [list(x) for x in seq], d), d)
                for k, d in res]
    sel = tuple(case["sel"])
    res = check_case(sel, case["style"], case["wrapper"], case["ll"]) or []
    out = []
    for pr in res:
        k, d = pr[0], pr[1]
        known = pr[2] if len(pr) > 2 else None
        out.append((known or "%s: wrapper=%s style=%s label_length=%s select%s: %s" % (k, case["wrapper"], case["style"], case["ll"], desc(sel), d), d))
    return out
