"""C18 LIMIT/OFFSET and their dialect emulations return exactly the requested slice.

Engine I: every (shape, limit form/value, offset form/value[, fetch options])
of a small ordered-query family is evaluated over worlds of 0..6 rows.

Routes / oracles (all behavioural, no expected SQL strings):

* ``sqlite``  - the statement is executed through a real SQLite engine (shared
  compiled cache, so successive limit values reuse one compiled form); rows
  must equal ``model_slice(rows of the same statement without limit/offset)``.
* ``E`` - the statement is compiled by postgresql / mysql / mariadb / mssql
  (2012+ and legacy ROW_NUMBER mode) / oracle; whenever SQLite accepts the
  emitted string verbatim (MySQL ``LIMIT a, b``, PG ``LIMIT x OFFSET y``,
  MSSQL's ROW_NUMBER() wrapper at any nesting) it is executed and must return
  the slice.
* ``P`` - the emitted string is tokenised and its row limiting clause is parsed
  by that backend's clause grammar (vf.worlds.stmtfam.GRAMMAR: ``TOP``,
  ``LIMIT [ALL]``, ``LIMIT a, b``, ``OFFSET n ROWS FETCH FIRST m [PERCENT]
  ROWS ONLY | WITH TIES``); expressions are evaluated (by SQLite) with the
  compiled parameters and the reference slice for the *parsed* clause must
  equal the reference slice for the *requested* clause on every world.  A
  string that is not a sentence of the grammar is a violation.  The grammar
  + slice model is bound to a real backend: wherever E executed, P's predicted
  rows are also compared with the rows SQLite returned (counter
  ``model_validated_against_sqlite``).
* ``S`` - Oracle's legacy ROWNUM wrapper: ``translate_select_structure()`` is
  called on a real OracleCompiler and the returned *structure* is interpreted
  with Oracle's ROWNUM semantics (candidate number = rows passed so far + 1),
  the inner SELECT and the bound expressions being executed by SQLite.
  MSSQL's ``translate_select_structure()`` output is likewise re-compiled for
  SQLite and executed (route ``T``).
* ``compose`` - ``slice(a, b)`` with open ends (``Select.slice``, ``Query.slice``,
  ``Query[a:]`` / ``[:b]`` / ``[a:b]``, select(T)+joinedload) applied on top of an
  existing ``limit(l)`` / ``offset(k)`` / both (int, bind, expression), optionally
  followed by ``limit()`` / ``offset()``.  Expected rows: the documented
  composition (start is added to the existing OFFSET; a stop replaces an
  existing LIMIT, an open stop keeps it - _make_slice comments and
  test/orm/test_query.py SliceTest); where the docstrings leave the interplay
  with an existing LIMIT open the pure window composition rows[k:][:l][a:b] is
  accepted too (counted in compose_limit_interplay_left_open_by_docs).
* ``orm`` - Session.execute / Query with limit, offset, slice, ``[a:b]``,
  ``first()`` and joinedload / selectinload / subqueryload collections: the
  entities are the slice of the parent list and every collection is complete.

A case for which no route could decide is a violation ("unverifiable"), so a
rendering change cannot make the check silently vacuous.

Genuine defects found on the unchanged tree (kept as violations with stable
signatures, reported for known_findings.json):
  * mssql (any version): LIMIT on a compound select (UNION ...) is dropped
    silently (TOP is only rendered for plain SELECT, _use_top() still says TOP)
  * mssql: OFFSET <expression / bindparam> inside a subquery raises CompileError
    (order_by_clause() reads ``select._offset`` instead of ``_offset_clause``)
  * mssql legacy (ROW_NUMBER mode): compound selects lose LIMIT/OFFSET;
    SELECT DISTINCT + OFFSET returns duplicates (ROW_NUMBER defeats DISTINCT)
  * oracle legacy (ROWNUM mode): compound selects lose LIMIT/OFFSET

Mutations caught (each one seeded alone in a scratch copy, VIOLATION obtained):
  M1 dialects/mssql/base.py translate_select_structure ``mssql_rn > offset`` -> ``>=``  (route E/T)
  M2 dialects/mssql/base.py ``mssql_rn <= (limit + offset)`` -> ``<= limit``  (E)
  M3 dialects/mysql/base.py limit_clause ``LIMIT offset, limit`` argument order swapped  (E and P)
  M4 dialects/sqlite/base.py limit_clause: ``LIMIT -1`` sentinel for OFFSET-without-LIMIT dropped  (sqlite)
  M5 dialects/oracle/base.py ``ora_rn > offset`` -> ``>=``  (S)
  M6 dialects/oracle/base.py ``max_row = max_row + offset_clause`` dropped  (S)
  M7 sql/compiler.py fetch_clause ``require_offset`` ignored (MSSQL FETCH without OFFSET)  (P: grammar)
  M8 sql/util.py _make_slice ``stop - start`` -> ``stop``  (sqlite slice + ORM Query.slice / [a:b])
  M9 orm/context.py _should_nest_selectable: offset-only no longer nests the joined eager load  (orm)
  M10 dialects/postgresql/base.py limit_clause: ``LIMIT ALL`` for OFFSET-only replaced by ``LIMIT 0``  (E and P)
  M11 dialects/mssql/base.py _use_top ignores a present OFFSET (TOP n with offset dropped)  (P)
  composition family (slice on top of an existing limit/offset), sql/util.py _make_slice, one per branch:
  B1 both ends: ``offset_clause + start`` -> ``start`` (existing int and expression offset dropped)
  B2 both ends: ``stop - start`` -> ``stop``
  B3 stop only: existing offset reset to None
  B4 start only: ``offset_clause + start`` -> ``start``
  B5 both ends: guard ``start != 0`` -> ``start != 1``
  B6 start only: existing limit dropped
  B7 start only: off by one only when the existing offset is a SQL expression
"""
from __future__ import annotations

import itertools
import operator

from sqlalchemy import create_engine
from sqlalchemy import exc as sa_exc
from sqlalchemy import select
from sqlalchemy.dialects import mssql
from sqlalchemy.dialects import mysql
from sqlalchemy.dialects import oracle
from sqlalchemy.dialects import postgresql
from sqlalchemy.orm import joinedload
from sqlalchemy.orm import registry
from sqlalchemy.orm import relationship
from sqlalchemy.orm import selectinload
from sqlalchemy.orm import Session
from sqlalchemy.orm import subqueryload
from sqlalchemy.sql import operators as sa_ops

from ..worlds import stmtfam as F

ID = "C18"
LEVEL = "exploration"
META = dict(
    engine="I",
    technique="exhaustive small-scope enumeration of (query shape x limit/offset/fetch form and value x row count), "
    "executed on SQLite; foreign renderings executed on SQLite where accepted, else parsed by a reference clause grammar; "
    "ROWNUM / ROW_NUMBER emulations interpreted or re-executed from the translated structure",
    design_ref="DESIGN.md §5 C18",
    level_text="Every combination of limit in {None,0,1,2,7} and offset in {None,0,1,3,7}, each written as plain int, "
    "bindparam, SQL expression, literal_execute bind or literal column, on 14 ordered query shapes (plain, NULLs+desc, "
    "inner/outer join, FROM-subquery inside/outside, CTE, IN-subquery, DISTINCT, GROUP BY/HAVING, UNION ALL, nested "
    "limits, extra binds) and ORM loading strategies, over tables of 0..6 rows, is executed on SQLite and compared with "
    "the Python slice of the unlimited ordered result. The same statements are compiled for postgresql, mysql, mariadb, "
    "mssql (OFFSET/FETCH, TOP, legacy ROW_NUMBER) and oracle (FETCH, legacy ROWNUM): executed on SQLite when the "
    "string is valid there, parsed by the backend's clause grammar otherwise, and the ROWNUM wrapper is interpreted "
    "from the translated structure. Complete for the stated value/shape sets.",
    level_note="Trusted: model_slice (25 lines), the clause grammar/tokenizer in vf.worlds.stmtfam (validated against "
    "SQLite wherever a foreign string is executable), Oracle ROWNUM semantics in _rownum_filter. PostgreSQL / MySQL / "
    "MSSQL / Oracle servers are not available: their renderings are judged by execution on SQLite when SQLite shares "
    "the syntax and otherwise against the grammar; Oracle legacy ROWNUM is interpreted only where the limited SELECT is "
    "the outermost one.",
    rule="case = (route/dialect, shape, limit form+value, offset form+value, fetch options, row count); non-trivial = "
    "the requested slice differs from the unlimited result on that world (the clause actually cut rows) or the case is "
    "a grammar-level case with a limiting clause present",
    assumptions=[
        "ORDER BY is a total order except in the WITH TIES shape",
        "SQLite 3.40 is the executing backend; foreign dialects are represented by their emitted SQL",
        "integer limit/offset values >= 0",
    ],
    bounds=dict(
        quick="limit {None,0,1,2,7} x offset {None,0,1,3,7}; forms int/bind/expr in all pairs, litexec/litcol paired with int; "
        "14 shapes x rows 0..6 on SQLite; 8 dialect variants on 6- and 3-row worlds; fetch(ties,percent) grammar level on 4 shapes x 7 variants; slice(a,b); ORM 8 kinds; composition: 34 pre-existing limit/offset states x 11 slices (open ends) x 3 follow-ups on 6 routes, rows 0/3/6",
        thorough="all 5x5 form pairs; slice(a,b) for all a<=b<=7; 8 dialect variants executed on all 7 worlds; fetch with every form; composition on all 7 worlds",
    ),
)

LIMITS = (None, 0, 1, 2, 7)
OFFSETS = (None, 0, 1, 3, 7)
NROWS = (0, 1, 2, 3, 4, 5, 6)

SQLITE_SHAPES = [s for s in F.LIM_SHAPES if s != "tieorder"]
ORM_KINDS = ("orm_plain", "orm_joined", "orm_selectin", "orm_subquery", "query", "query_joined", "query_getitem", "query_first")

VARIANTS = ("postgresql", "mysql", "mariadb", "mssql_2012", "mssql_legacy", "oracle_12c", "oracle_legacy", "oracle_legacy_opt")


def make_dialect(variant):
    if variant == "postgresql":
        return postgresql.dialect(paramstyle="named"), "postgresql"
    if variant == "mysql":
        return mysql.dialect(paramstyle="named"), "mysql"
    if variant == "mariadb":
        from sqlalchemy.dialects.mysql.mariadb import MariaDBDialect

        return MariaDBDialect(paramstyle="named"), "mariadb"
    if variant == "mssql_2012":
        d = mssql.dialect(paramstyle="named")
        d._supports_offset_fetch = True
        return d, "mssql"
    if variant == "mssql_legacy":
        d = mssql.dialect(paramstyle="named")
        d._supports_offset_fetch = False
        return d, "mssql"
    if variant == "oracle_12c":
        d = oracle.dialect(paramstyle="named")
        d._supports_offset_fetch = True
        return d, "oracle"
    if variant in ("oracle_legacy", "oracle_legacy_opt"):
        d = oracle.dialect(paramstyle="named", optimize_limits=variant.endswith("opt"))
        d._supports_offset_fetch = False
        return d, "oracle"
    raise AssertionError(variant)


# ------------------------------------------------------------------ cases


def lim_cases(tier, fetch=False):
    """simplest first: number of non-None parts, then form complexity"""
    forms = F.LIM_FORMS
    out = []
    for l, o in itertools.product(LIMITS, OFFSETS):
        lfs = forms if l is not None else ("int",)
        ofs = forms if o is not None else ("int",)
        for lf in lfs:
            for of in ofs:
                if tier == "quick":
                    rare = ("litexec", "litcol")
                    if (lf in rare and of != "int" and o is not None) or (of in rare and lf != "int" and l is not None):
                        continue
                out.append(dict(lf=lf, l=l, of=of, o=o))
    rank = {f: i for i, f in enumerate(forms)}
    out.sort(key=lambda c: ((c["l"] is not None) + (c["o"] is not None), rank[c["lf"]] + rank[c["of"]], c["l"] or 0, c["o"] or 0))
    return out


def fetch_cases(tier):
    out = []
    forms = ("int", "bind", "expr") if tier == "quick" else F.LIM_FORMS
    for ties, percent in ((False, False), (True, False), (False, True), (True, True)):
        for l in (0, 1, 2, 7, 50):
            for o in OFFSETS:
                for lf in forms:
                    for of in (("int",) if o is None else (("int", "bind") if tier == "quick" else forms)):
                        out.append(dict(lf=lf, l=l, of=of, o=o, fetch=(ties, percent)))
    return out


def slice_cases(tier):
    hi = 4 if tier == "quick" else 7
    vals = [0, 1, 2, 3, 7] if tier == "quick" else list(range(0, 8))
    return [dict(slice=(a, b), lf="int", l=None, of="int", o=None) for a in vals for b in vals if a <= b and b <= max(hi, 7)]


def lim_key(c):
    if c.get("slice") is not None:
        return "slice(%d,%d)" % tuple(c["slice"])
    s = "limit=%s:%s offset=%s:%s" % (c["lf"] if c["l"] is not None else "-", c["l"], c["of"] if c["o"] is not None else "-", c["o"])
    if c.get("fetch"):
        s = "fetch(ties=%s,percent=%s) " % tuple(c["fetch"]) + s
    return s


def requested(c):
    """(limit, offset, ties, percent) the case asks for"""
    if c.get("slice") is not None:
        a, b = c["slice"]
        return b - a, (a or None), False, False
    ties, percent = c.get("fetch") or (False, False)
    return c["l"], c["o"], ties, percent


# ------------------------------------------------------------------ world


class World:
    """SQLite engines for n = 0..6 rows (one engine each, compiled cache on)"""

    def __init__(self, nrows=NROWS):
        self.md, self.t, self.u = F.lim_metadata()
        self.engines = {}
        self.conns = {}
        for n in nrows:
            e = create_engine("sqlite://")
            self.md.create_all(e)
            tr, ur = F.lim_rows(n)
            with e.begin() as c:
                if tr:
                    c.execute(self.t.insert(), tr)
                if ur:
                    c.execute(self.u.insert(), ur)
            self.engines[n] = e
            self.conns[n] = e.connect()
        self._full = {}

    def full(self, shape, n):
        k = (shape, n)
        if k not in self._full:
            stmt, p = F.build_lim(shape, F.NOLIM, self.t, self.u)
            self._full[k] = [tuple(r) for r in self.conns[n].execute(stmt, dict(p, w=10) if shape == "where_bind" else p)]
        return self._full[k]

    def close(self):
        for c in self.conns.values():
            c.close()
        for e in self.engines.values():
            e.dispose()


def _sortkey(row):
    return tuple((x is None, x if x is not None else 0) for x in row)


def tiekey_for(shape):
    if shape == "tieorder":
        return lambda r: r[0]
    return None  # total orders: no ties possible


def expect_rows(world, shape, n, c):
    lim, off, ties, percent = requested(c)
    return F.model_slice(world.full(shape, n), lim, off, ties, percent, tiekey_for(shape))


# ------------------------------------------------------------------ route: sqlite


def check_sqlite(world, shape, c, n):
    """-> list of (kind, detail), nontrivial"""
    full = world.full(shape, n)
    exp = expect_rows(world, shape, n, c)
    stmt, p = F.build_lim(shape, c, world.t, world.u)
    try:
        got = [tuple(r) for r in world.conns[n].execute(stmt, p)]
    except sa_exc.SQLAlchemyError as e:
        world.conns[n].rollback()
        return [("sqlite-error", "%s: %s" % (type(e).__name__, str(e).splitlines()[0][:200]))], False
    if got != exp:
        return [("sqlite-slice", "rows=%d got %r expected %r (unlimited %r)" % (n, got, exp, full))], True
    return [], exp != full


# ------------------------------------------------------------------ route: foreign dialects


def allowed_compile_error(variant, c, shape):
    """documented refusals: MSSQL cannot express PERCENT / WITH TIES unless TOP is usable"""
    if variant.startswith("mssql") and c.get("fetch") and (c["fetch"][0] or c["fetch"][1]):
        return c["o"] is not None or c["lf"] != "int"
    if variant in ("mssql_legacy", "oracle_legacy", "oracle_legacy_opt") and F.LIM_SHAPES[shape].get("compound"):
        return True  # an explicit refusal is fine (today the clause is dropped silently instead: see findings)
    return False


_CMP = {sa_ops.le: operator.le, sa_ops.lt: operator.lt, sa_ops.gt: operator.gt, sa_ops.ge: operator.ge, sa_ops.eq: operator.eq, sa_ops.ne: operator.ne}


class ShapeErr(Exception):
    pass


def _rownum_filter(rows, op, k):
    """Oracle: ROWNUM of a candidate row is (rows already passed)+1"""
    out = []
    for r in rows:
        if op(len(out) + 1, k):
            out.append(r)
    return out


def oracle_structure_rows(dialect, stmt, params, conn):
    """interpret OracleCompiler.translate_select_structure(stmt)"""
    comp = dialect.statement_compiler(dialect, None)
    x = comp.translate_select_structure(stmt)
    if x is stmt:
        return None

    def val(expr):
        return conn.execute(select(expr), params).scalar()

    def is_litcol(e, name):
        return getattr(e, "is_literal", False) and getattr(e, "name", None) == name

    def limitselect_rows(ls):
        froms = ls.get_final_froms()
        if len(froms) != 1 or not hasattr(froms[0], "element"):
            raise ShapeErr("limit wrapper FROM is not one subquery")
        inner = froms[0].element
        rows = [tuple(r) for r in conn.execute(inner.limit(None).offset(None), params)]
        w = ls.whereclause
        if w is not None:
            if not is_litcol(w.left, "ROWNUM") or w.operator not in _CMP:
                raise ShapeErr("unexpected ROWNUM criterion %s" % w)
            rows = _rownum_filter(rows, _CMP[w.operator], val(w.right))
        return rows

    w = x.whereclause
    if w is not None and is_litcol(getattr(w, "left", None), "ora_rn"):
        froms = x.get_final_froms()
        if len(froms) != 1 or not hasattr(froms[0], "element"):
            raise ShapeErr("offset wrapper FROM is not one subquery")
        ls = froms[0].element
        labels = [getattr(col, "name", None) for col in ls.selected_columns]
        if "ora_rn" not in labels:
            raise ShapeErr("no ora_rn column in the ROWNUM wrapper")
        if not is_litcol(getattr(list(ls.selected_columns)[labels.index("ora_rn")], "element", None), "ROWNUM"):
            raise ShapeErr("ora_rn is not ROWNUM")
        rows = limitselect_rows(ls)
        k = val(w.right)
        if w.operator not in _CMP:
            raise ShapeErr("unexpected ora_rn criterion %s" % w)
        op = _CMP[w.operator]
        return [r for i, r in enumerate(rows) if op(i + 1, k)]
    return limitselect_rows(x)


def check_foreign(world, variant, dialect, backend, shape, c, ns, counts):
    """-> list of (kind, detail), nontrivial"""
    probs = []
    meta = F.LIM_SHAPES[shape]
    stmt, p = F.build_lim(shape, c, world.t, world.u)
    try:
        comp = stmt.compile(dialect=dialect)
        # same step the execution context performs: literal_execute / expanding binds rendered with the execution parameters
        es = comp.construct_expanded_state(p)
    except sa_exc.CompileError as e:
        if allowed_compile_error(variant, c, shape):
            counts("compile_refused_documented")
            return [], False
        return [("compile-error", "%s" % (str(e)[:200],))], False
    sql = es.statement
    cparams = dict(es.parameters)
    lim, off, ties, percent = requested(c)
    has_req = lim is not None or off is not None
    decided = False
    nontrivial = False
    n0 = ns[0]
    # ---- P: grammar
    parsed = None
    try:
        tree = F.nest(F.tokenize(sql))
        clauses = F.find_limit_clauses(tree, backend)
    except (F.TokErr, F.ClauseErr) as e:
        return [("grammar", "%s rendering is not a sentence of the %s clause grammar: %s; SQL: %s" % (variant, backend, e, sql))], True
    if meta.get("nested"):
        # inner fixed clause must be there too (any route); the outer one is ours
        mine = [cl for cl in clauses if cl["depth"] == 0]
    elif meta["top"]:
        mine = [cl for cl in clauses if cl["depth"] == 0]
    else:
        mine = [cl for cl in clauses if cl["depth"] > 0]
    if len(mine) > 1:
        return [("grammar", "more than one row limiting clause for one SELECT: %s" % sql)], True
    if mine:
        cl = mine[0]
        try:
            pl = None if cl["limit"] is None else F.eval_expr(cl["limit"], cparams, world.conns[n0])
            po = None if cl["offset"] is None else F.eval_expr(cl["offset"], cparams, world.conns[n0])
        except Exception as e:  # expression not evaluable by SQLite
            return [("grammar", "cannot evaluate clause expression in %s: %s" % (sql, e))], True
        parsed = (pl, po, cl["ties"], cl["percent"])
        for n in NROWS:
            full = world.full(shape, n)
            a = F.model_slice(full, pl, po, cl["ties"], cl["percent"], tiekey_for(shape), backend)
            b = F.model_slice(full, lim, off, ties, percent, tiekey_for(shape))
            if a != b:
                probs.append(("clause-slice", "%s renders %s = (limit %r, offset %r, ties %r, percent %r); on %d rows that selects %r, requested %r"
                              % (variant, sql.replace("\n", " "), pl, po, cl["ties"], cl["percent"], n, a, b)))
                break
        decided = True
        nontrivial = True
        counts("decided_by_grammar")
    elif not has_req:
        decided = True
    # ---- E: execute the foreign string on SQLite when it is valid there
    if not c.get("fetch") or c["fetch"] == (False, False):
        esql = sql.replace("::INTEGER", "") if backend == "postgresql" else sql
        for n in ns:
            try:
                cur = world.conns[n].exec_driver_sql(esql, cparams)
                got = [tuple(r) for r in cur]
            except sa_exc.DBAPIError:
                world.conns[n].rollback()
                counts("sqlite_rejects_foreign_sql")
                break
            exp = expect_rows(world, shape, n, c)
            depth0 = [it for it in tree if not isinstance(it, list)]
            ordered = any(a == ("word", "ORDER") for a in depth0)
            ok = got == exp if ordered else sorted(got, key=_sortkey) == sorted(exp, key=_sortkey)
            counts("executed_on_sqlite")
            decided = True
            if exp != world.full(shape, n):
                nontrivial = True
            if not ok:
                probs.append(("exec-slice", "%s SQL executed on SQLite (%d rows): %s params %r -> %r, expected %s %r"
                              % (variant, n, sql.replace("\n", " "), cparams, got, "ordered" if ordered else "multiset", exp)))
                break
            if parsed is not None:
                counts("model_validated_against_sqlite")
                a = F.model_slice(world.full(shape, n), parsed[0], parsed[1], parsed[2], parsed[3], tiekey_for(shape), backend)
                if (a if ordered else sorted(a, key=_sortkey)) != (got if ordered else sorted(got, key=_sortkey)):
                    probs.append(("model-binding", "reference grammar/slice model disagrees with SQLite on %s" % sql))
                    break
    # ---- T: MSSQL translated structure recompiled for SQLite (top-level shapes)
    if variant == "mssql_legacy" and meta["top"] and not meta.get("compound") and not c.get("fetch") and not probs:
        comp2 = dialect.statement_compiler(dialect, None)
        x = comp2.translate_select_structure(stmt)
        if x is not stmt:
            for n in ns:
                got = [tuple(r) for r in world.conns[n].execute(x, p)]
                exp = expect_rows(world, shape, n, c)
                counts("translated_structure_executed")
                if sorted(got, key=_sortkey) != sorted(exp, key=_sortkey):
                    probs.append(("structure-slice", "mssql translate_select_structure() recompiled for SQLite (%d rows) -> %r, expected set %r" % (n, got, exp)))
                    break
    # ---- S: Oracle ROWNUM wrapper interpreted
    if variant.startswith("oracle_legacy") and not c.get("fetch"):
        if meta["top"] and not meta.get("compound"):
            for n in ns:
                try:
                    got = oracle_structure_rows(dialect, stmt, p, world.conns[n])
                except ShapeErr as e:
                    probs.append(("oracle-structure", "ROWNUM wrapper has an unknown structure: %s" % e))
                    break
                if got is None:
                    if has_req:
                        probs.append(("oracle-structure", "no ROWNUM wrapper generated although limit/offset requested"))
                    break
                exp = expect_rows(world, shape, n, c)
                counts("rownum_structure_interpreted")
                decided = True
                if exp != world.full(shape, n):
                    nontrivial = True
                if got != exp:
                    probs.append(("rownum-slice", "oracle ROWNUM wrapper interpreted on %d rows -> %r, expected %r; SQL: %s" % (n, got, exp, sql.replace("\n", " "))))
                    break
        elif not meta["top"]:
            counts("oracle_legacy_nested_not_decided")
            decided = True  # stated scope limit
    if not decided and not probs:
        probs.append(("unverifiable", "%s: no limiting clause found by the %s grammar and SQLite cannot execute: %s" % (variant, backend, sql.replace("\n", " "))))
    return probs, nontrivial


# ------------------------------------------------------------------ route: ORM

_ORM = {}


def orm_classes():
    if _ORM:
        return _ORM["T"], _ORM["U"], _ORM["md"]
    md, t, u = F.lim_metadata()
    reg = registry()

    class T:
        pass

    class U:
        pass

    reg.map_imperatively(U, u)
    reg.map_imperatively(T, t, properties=dict(us=relationship(U, order_by=u.c.id)))
    _ORM.update(T=T, U=U, md=md)
    return T, U, md


class OrmWorld:
    def __init__(self):
        T, U, md = orm_classes()
        self.T, self.U = T, U
        self.engines = {}
        for n in NROWS:
            e = create_engine("sqlite://")
            md.create_all(e)
            tr, ur = F.lim_rows(n)
            with e.begin() as c:
                if tr:
                    c.execute(md.tables["t"].insert(), tr)
                if ur:
                    c.execute(md.tables["u"].insert(), ur)
            self.engines[n] = e
        self.full = {n: [(r["id"], tuple(x["id"] for x in F.lim_rows(n)[1] if x["tid"] == r["id"])) for r in F.lim_rows(n)[0]] for n in NROWS}


def _ent(objs):
    return [(o.id, tuple(x.id for x in o.us)) for o in objs]


def check_orm(ow, kind, c, n):
    T = ow.T
    full = ow.full[n]
    lim, off, ties, percent = requested(c)
    probs = []
    with Session(ow.engines[n]) as s:
        if kind.startswith("orm_"):
            stmt = select(T).order_by(T.id)
            opt = {"orm_joined": joinedload, "orm_selectin": selectinload, "orm_subquery": subqueryload}.get(kind)
            if opt is not None:
                stmt = stmt.options(opt(T.us))
            stmt, p = F.apply_lim(stmt, c)
            res = s.execute(stmt, p)
            if kind == "orm_joined":
                res = res.unique()
            got = _ent(res.scalars().all())
            exp = F.model_slice(full, lim, off)
        elif kind in ("query", "query_joined"):
            q = s.query(T).order_by(T.id)
            if kind == "query_joined":
                q = q.options(joinedload(T.us))
            if c.get("slice") is not None:
                q = q.slice(*c["slice"])
            else:
                if c["l"] is not None:
                    q = q.limit(c["l"])
                if c["o"] is not None:
                    q = q.offset(c["o"])
            got = _ent(q.all())
            exp = F.model_slice(full, lim, off)
        elif kind == "query_getitem":
            a, b = c["slice"]
            q = s.query(T).order_by(T.id)
            got = _ent(q[a:b])
            exp = full[a:b]
            try:
                one = q[a]
                one = _ent([one])[0]
            except IndexError:
                one = IndexError
            eone = full[a] if a < len(full) else IndexError
            if one != eone:
                probs.append(("orm-getitem", "Query[%d] on %d rows -> %r expected %r" % (a, n, one, eone)))
        elif kind == "query_first":
            q = s.query(T).options(joinedload(T.us)).order_by(T.id)
            if c["l"] is not None:
                q = q.limit(c["l"])
            if c["o"] is not None:
                q = q.offset(c["o"])
            f = q.first()
            got = _ent([f]) if f is not None else []
            exp = F.model_slice(full, lim, off)[:1]
        else:
            raise AssertionError(kind)
    if got != exp:
        probs.append(("orm-slice", "%s on %d rows -> %r expected %r" % (kind, n, got, exp)))
    return probs, exp != full



# ------------------------------------------------------------------ composition: slice on top of an existing window

COMPOSE_ROUTES = ("core_plain", "core_distinct", "core_subq", "orm_select_joined", "query_slice", "query_getitem")
PRE_L = (None, 2, 4)
PRE_K = (None, 0, 1, 3)
PRE_FORMS = ("int", "bind", "expr")
POSTS = (None, ("limit", 1), ("offset", 2))


def compose_cases(tier):
    """(pre-existing limit l / offset k in one form) x slice(a, b) with open ends x an optional later limit()/offset().
    simplest first"""
    pres = [(None, None, "int")]
    for f in PRE_FORMS:
        for l in PRE_L:
            for k in PRE_K:
                if l is None and k is None:
                    continue
                pres.append((l, k, f))
    slices = [(a, b) for a in (0, 1, 2) for b in (None, a + 1, a + 3)] + [(None, 1), (None, 3)]
    out = []
    for pre in pres:
        for sl in slices:
            for post in POSTS:
                out.append(dict(pre=pre, sl=sl, post=post))
    out.sort(key=lambda c: ((c["pre"][0] is not None) + (c["pre"][1] is not None) + (c["post"] is not None), PRE_FORMS.index(c["pre"][2])))
    return out


def compose_key(c):
    l, k, f = c["pre"]
    pre = "".join([".limit(%s:%s)" % (f, l) if l is not None else "", ".offset(%s:%s)" % (f, k) if k is not None else ""]) or "(fresh)"
    a, b = c["sl"]
    post = ".%s(%d)" % tuple(c["post"]) if c["post"] else ""
    return "%s.slice(%s, %s)%s" % (pre, a, b, post)


def compose_models(c):
    """-> (documented, window): two (limit, offset) pairs.
    documented = what _make_slice's comments and test/orm/test_query.py::SliceTest establish: the slice is relative to the
    existing OFFSET (start is added to it); a stop replaces an existing LIMIT by stop-start (or stop), an open stop keeps it.
    window = pure Python composition rows[k:][:l][a:b].  The docstrings leave the interplay with an existing LIMIT open,
    so both are accepted where they differ (README rule 2); limit()/offset() afterwards set their clause."""
    l, k, _ = c["pre"]
    a, b = c["sl"]
    k0, a0 = k or 0, a or 0
    off = k0 + a0 if a is not None else k
    if b is not None:
        lim = b - a0
    else:
        lim = l
    wl = None
    if l is not None:
        wl = max(l - a0, 0)
    if b is not None:
        wl = (b - a0) if wl is None else min(wl, b - a0)
    woff = k0 + a0
    docd, wind = [lim, off], [wl, woff]
    if c["post"]:
        which, v = c["post"]
        for m in (docd, wind):
            m[0 if which == "limit" else 1] = v
    return tuple(docd), tuple(wind)


def _pre_apply(obj, c):
    l, k, f = c["pre"]
    params = {}
    if l is not None:
        v, p = F.lim_value(f, l, "pl")
        params.update(p)
        obj = obj.limit(v)
    if k is not None:
        v, p = F.lim_value(f, k, "pk")
        params.update(p)
        obj = obj.offset(v)
    return obj, params


def _post_apply(obj, c):
    if c["post"]:
        which, v = c["post"]
        obj = obj.limit(v) if which == "limit" else obj.offset(v)
    return obj


def check_compose(world, ow, route, c, n):
    """-> (problems, nontrivial)"""
    a, b = c["sl"]
    (dl, do), (wl, wo) = compose_models(c)
    if route.startswith("core"):
        t, u = world.t, world.u
        if route == "core_plain":
            base = select(t.c.id, t.c.g).order_by(t.c.id)
            full = world.full("plain", n)
        elif route == "core_distinct":
            base = select(t.c.g).distinct().order_by(t.c.g)
            full = world.full("distinct", n)
        else:
            base = select(t.c.id, t.c.g).order_by(t.c.id)
            full = world.full("plain", n)
        stmt, params = _pre_apply(base, c)
        stmt = _post_apply(stmt.slice(a, b), c)
        if route == "core_subq":
            sub = stmt.subquery("sq")
            stmt = select(sub.c.id, sub.c.g).order_by(sub.c.id)
        try:
            got = [tuple(r) for r in world.conns[n].execute(stmt, params)]
        except sa_exc.SQLAlchemyError as e:
            world.conns[n].rollback()
            return [("compose-error", "%s: %s" % (type(e).__name__, str(e).splitlines()[0][:200]))], False
    else:
        T = ow.T
        full = ow.full[n]
        with Session(ow.engines[n]) as s:
            try:
                if route == "orm_select_joined":
                    stmt, params = _pre_apply(select(T).options(joinedload(T.us)).order_by(T.id), c)
                    stmt = _post_apply(stmt.slice(a, b), c)
                    got = _ent(s.execute(stmt, params).unique().scalars().all())
                else:
                    q, params = _pre_apply(s.query(T).options(joinedload(T.us)).order_by(T.id), c)
                    if params:
                        q = q.params(**params)
                    if route == "query_slice":
                        got = _ent(_post_apply(q.slice(a, b), c).all())
                    else:
                        if c["post"]:
                            return [], False  # Query[a:b] executes at once: nothing can follow
                        got = _ent(q[a:b])
            except sa_exc.SQLAlchemyError as e:
                return [("compose-error", "%s: %s" % (type(e).__name__, str(e).splitlines()[0][:200]))], False
    exp_d = F.model_slice(full, dl, do)
    exp_w = F.model_slice(full, wl, wo)
    if got != exp_d and got != exp_w:
        return [("compose-slice", "%s on %d rows -> %r; documented composition (LIMIT %r OFFSET %r) gives %r, window composition rows[k:][:l][a:b] gives %r"
                 % (compose_key(c), n, got, dl, do, exp_d, exp_w))], True
    return [], (exp_d != full and (c["pre"][0] is not None or c["pre"][1] is not None))


def compose_sig(route, kind, c):
    l, k, f = c["pre"]
    a, b = c["sl"]
    return "C18 %s %s: slice(%s, %s) on %s limit / %s offset%s" % (
        route, kind, "start" if a is not None else "None", "stop" if b is not None else "None",
        _cls(f, l), _cls(f, k), " then .%s()" % c["post"][0] if c["post"] else "")

# ------------------------------------------------------------------ driver


def shards(tier, seed):
    out = []
    for shape in SQLITE_SHAPES:
        out.append(["sqlite", shape])
    for v in VARIANTS:
        for shape in F.LIM_SHAPES:
            if shape == "tieorder":
                continue
            out.append(["foreign", v, shape])
        if v != "mysql":  # MySQL has no FETCH FIRST; MariaDB >= 10.6 has
            out.append(["fetch", v])
    for k in ORM_KINDS:
        out.append(["orm", k])
    out.append(["slice"])
    for r in COMPOSE_ROUTES:
        out.append(["compose", r])
    return out


def _cls(form, v):
    return "none" if v is None else ("int" if form == "int" else "nonint")


def sig_for(route, kind, shape, c, detail=""):
    """root-cause level signature: dialect variant, failure class, position of
    the limited SELECT, DISTINCT, and the *class* of the limit / offset forms of
    the first (= simplest) failing case; values are left out on purpose"""
    if route == "orm":
        return "C18 orm %s kind=%s %s" % (kind, shape, lim_key(c))
    meta = F.LIM_SHAPES[shape]
    pos = "compound" if meta.get("compound") else ("top" if meta["top"] else "nested")
    fam = "oracle_legacy" if route.startswith("oracle_legacy") else route
    if kind == "compile-error":
        return "C18 %s compile-error pos=%s: %s" % (fam, pos, detail.split(" (Background")[0][:120])
    if c.get("slice") is not None:
        return "C18 %s %s pos=%s distinct=%s %s" % (fam, kind, pos, shape == "distinct", lim_key(c))
    what = "fetch" if c.get("fetch") else "limit"
    return "C18 %s %s pos=%s distinct=%s %s=%s offset=%s" % (
        fam, kind, pos, shape == "distinct", what, _cls(c["lf"], c["l"]), _cls(c["of"], c["o"]))


def _emit(rec, route, shape, c, n_or_ns, probs, extra=None):
    for kind, detail in probs:
        case = dict(route=route, shape=shape, lim=c, n=n_or_ns)
        if extra:
            case.update(extra)
        rec.violation(sig_for(route, kind, shape, c, detail), detail, case, kind=(route, shape, kind))


def run_shard(shard, tier, rec):
    what = shard[0]
    if what == "sqlite":
        shape = shard[1]
        world = World()
        try:
            cases = lim_cases(tier)
            for c in cases:
                for n in NROWS:
                    probs, nt = check_sqlite(world, shape, c, n)
                    rec.case(("sqlite", shape, lim_key(c), n), nontrivial=nt)
                    rec.outcome(("sqlite", shape, n, repr(expect_rows(world, shape, n, c))))
                    if nt and n == 6 and c["lf"] == "expr" and c["o"] == 1 and c["l"] == 2:
                        rec.sample(dict(route="sqlite", shape=shape, lim=lim_key(c), rows=n, slice=repr(expect_rows(world, shape, n, c))))
                    _emit(rec, "sqlite", shape, c, n, probs)
        finally:
            world.close()
    elif what == "foreign":
        _, variant, shape = shard
        dialect, backend = make_dialect(variant)
        world = World()
        ns = (6, 3) if tier == "quick" else (6, 3, 0, 1, 2, 4, 5)
        try:
            for c in lim_cases(tier):
                probs, nt = check_foreign(world, variant, dialect, backend, shape, c, ns, rec.count)
                rec.case((variant, shape, lim_key(c)), nontrivial=nt)
                if nt and c["lf"] == "bind" and c["o"] == 3 and c["l"] == 2:
                    rec.sample(dict(route=variant, shape=shape, lim=lim_key(c)))
                _emit(rec, variant, shape, c, list(ns), probs)
        finally:
            world.close()
    elif what == "fetch":
        variant = shard[1]
        dialect, backend = make_dialect(variant)
        world = World()
        try:
            for shape in ("plain", "tieorder", "groupby", "subq_in"):
                for c in fetch_cases(tier):
                    probs, nt = check_foreign(world, variant, dialect, backend, shape, c, (6,), rec.count)
                    rec.case((variant, shape, lim_key(c)), nontrivial=nt)
                    _emit(rec, variant, shape, c, [6], probs)
        finally:
            world.close()
    elif what == "orm":
        kind = shard[1]
        ow = OrmWorld()
        if kind == "query_getitem":
            cases = slice_cases("thorough")
        elif kind in ("query", "query_joined"):
            cases = [c for c in lim_cases("quick") if c["lf"] == "int" and c["of"] == "int"] + slice_cases(tier)
        elif kind == "query_first":
            # first() replaces the limit by 1: limit(0).first() is outside the statement of C18
            cases = [c for c in lim_cases("quick") if c["lf"] == "int" and c["of"] == "int" and c["l"] != 0]
        else:
            cases = [c for c in lim_cases(tier) if c["lf"] in ("int", "bind", "expr") and c["of"] in ("int", "bind", "expr")]
        for c in cases:
            for n in NROWS:
                probs, nt = check_orm(ow, kind, c, n)
                rec.case((kind, lim_key(c), n), nontrivial=nt)
                if nt and n == 5 and (c.get("slice") == (1, 3) or (c["l"] == 2 and c["o"] == 1 and c["lf"] == "bind")):
                    rec.sample(dict(route="orm", kind=kind, lim=lim_key(c), rows=n))
                _emit(rec, "orm", kind, c, n, probs)
    elif what == "slice":
        world = World()
        try:
            for shape in ("plain", "join", "distinct", "subq_in", "union"):
                for c in slice_cases(tier):
                    for n in NROWS:
                        probs, nt = check_sqlite(world, shape, c, n)
                        rec.case(("slice", shape, lim_key(c), n), nontrivial=nt)
                        _emit(rec, "sqlite", shape, c, n, probs)
        finally:
            world.close()
    elif what == "compose":
        route = shard[1]
        world = World()
        ow = OrmWorld() if not route.startswith("core") else None
        ns = (6, 3, 0) if tier == "quick" else NROWS
        try:
            for c in compose_cases(tier):
                for n in ns:
                    probs, nt = check_compose(world, ow, route, c, n)
                    rec.case(("compose", route, compose_key(c), n), nontrivial=nt)
                    d, w = compose_models(c)
                    if d != w:
                        rec.count("compose_limit_interplay_left_open_by_docs")
                    if nt and n == 6 and c["pre"] == (4, 1, "expr") and c["sl"] == (1, 4):
                        rec.sample(dict(route=route, composition=compose_key(c), rows=n, models=dict(documented=list(d), window=list(w))))
                    for kind, detail in probs:
                        rec.violation(compose_sig(route, kind, c), detail, dict(route="compose", shape=route, lim=dict(pre=list(c["pre"]), sl=list(c["sl"]), post=list(c["post"]) if c["post"] else None), n=n), kind=(route, kind, c["sl"][0] is None, c["sl"][1] is None, _cls(c["pre"][2], c["pre"][1])))
        finally:
            world.close()


def replay(case):
    if case.get("route") == "compose":
        c = case["lim"]
        c = dict(pre=tuple(c["pre"]), sl=tuple(c["sl"]), post=tuple(c["post"]) if c["post"] else None)
        world = World((case["n"],))
        ow = OrmWorld()
        probs, _ = check_compose(world, ow, case["shape"], c, case["n"])
        world.close()
        return [(compose_sig(case["shape"], kind, c), detail) for kind, detail in probs]
    route, shape, c, n = case["route"], case["shape"], case["lim"], case["n"]
    if c.get("slice") is not None:
        c["slice"] = tuple(c["slice"])
    if c.get("fetch") is not None:
        c["fetch"] = tuple(c["fetch"])
    out = []
    if route == "sqlite":
        world = World()
        probs, _ = check_sqlite(world, shape, c, n)
        world.close()
    elif route == "orm":
        probs, _ = check_orm(OrmWorld(), shape, c, n)
    else:
        dialect, backend = make_dialect(route)
        world = World()
        probs, _ = check_foreign(world, route, dialect, backend, shape, c, tuple(n), lambda *a: None)
        world.close()
    for kind, detail in probs:
        out.append((sig_for(route, kind, shape, c, detail), detail))
    return out
