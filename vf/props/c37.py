"""C37 both sides of a bidirectional relationship always agree (engine H).

WORK IN PROGRESS docstring - replaced at the end.
"""
import gc
import itertools
import re

from sqlalchemy import exc as sa_exc
from sqlalchemy import inspect as sa_inspect
from sqlalchemy.orm import Session
from sqlalchemy.orm.attributes import NO_VALUE
from sqlalchemy.orm.base import LoaderCallableStatus

from ..engines import hist
from ..models.sessref3 import coll_apply
from ..models.sessref3 import has_dups
from ..models.sessref3 import inplace_apply
from ..models.sessref3 import INPLACE
from ..models.sessref3 import members
from ..models.sessref3 import RelModel
from ..models.sessref3 import render
from ..models.sessref3 import UNLOADED
from ..worlds.ormworld3 import world

ID = "C37"
LEVEL = "model_checking"
META = dict(
    engine="H",
    technique="explicit-state BFS over mutation histories on the real mapped objects, reference relation model in lock-step, canonical-state dedupe",
    design_ref="DESIGN.md §5 C37",
    level_text="",
    level_note="",
    rule="",
    assumptions=[],
    bounds=dict(quick="", thorough=""),
)

CONFIGS = (
    [("o2m", c, s) for c in ("list", "set", "dict") for s in ("bp", "backref")]
    + [("o2o", None, s) for s in ("bp", "backref")]
    + [("m2m", c, s) for c in ("list", "set") for s in ("bp", "backref")]
)
MODES = ("transient", "pending", "loaded", "lazy", "lazy_ah")
PY_ERRORS = (ValueError, KeyError, IndexError)


def universe(kind, tier):
    if kind == "o2m":
        return ["p1", "p2"], ["c1", "c2", "c3"] if tier == "thorough" else ["c1", "c2"]
    if kind == "o2o":
        return ["p1", "p2"], ["c1", "c2"]
    return ["p1", "p2"], ["c1", "c2"]


def initial_pairs(kind):
    if kind == "o2m":
        return [("p1", "c1"), ("p1", "c2")]
    if kind == "o2o":
        return [("p1", "c1")]
    return [("p1", "c1"), ("p1", "c2"), ("p2", "c1")]


def shapes(kind, coll):
    if kind == "o2m":
        return coll, "scalar"
    if kind == "o2o":
        return "scalar", "scalar"
    return coll, coll


# ------------------------------------------------------------------ op alphabet


def coll_ops(shape, side, owner, owners, elems, tier, allow_dups):
    ops = []
    C = lambda *m: ops.append(["coll", side, owner, list(m)])  # noqa: E731
    pairs = [list(p) for p in itertools.permutations(elems, 2)]
    if shape == "list":
        for e in elems:
            C("append", e)
            C("remove", e)
            C("insert", 0, e)
            C("insert", 1, e)
            C("iadd", [e])
            C("setitem", 0, e)
            C("setitem", -1, e)
            C("setslice", [0, 1, None], [e])
            C("setslice", [1, None, None], [e])
        C("pop")
        C("pop", 0)
        C("clear")
        C("delitem", 0)
        C("delitem", -1)
        C("delslice", [0, 1, None])
        C("delslice", [1, None, None])
        for pr in pairs:
            C("extend", pr)
            C("setslice", [0, None, None], pr)
            C("setslice", [0, 1, None], pr)
        if allow_dups:
            for e in elems:
                C("extend", [e, e])
        if tier == "thorough":
            for e in elems:
                C("setslice", [-1, None, None], [e])
                C("setslice", [0, None, 2], [e])
            C("delslice", [0, None, 2])
            C("delslice", [-1, None, None])
        vals = [[]] + [[e] for e in elems] + pairs
        if allow_dups:
            vals += [[e, e] for e in elems]
        if tier == "thorough" and len(elems) >= 3:
            vals += [list(p) for p in itertools.permutations(elems, 3)][:2]
        for v in vals:
            ops.append(["assign", side, owner, v])
    elif shape == "set":
        for e in elems:
            C("add", e)
            C("discard", e)
            C("remove", e)
            C("ior", [e])
            C("isub", [e])
            C("iand", [e])
            C("ixor", [e])
            C("difference_update", [e])
            C("intersection_update", [e])
            C("symmetric_difference_update", [e])
        C("pop")
        C("clear")
        for pr in itertools.combinations(elems, 2):
            C("update", list(pr))
            C("ixor", list(pr))
        vals = [[]] + [[e] for e in elems] + [list(p) for p in itertools.combinations(elems, 2)]
        if len(elems) >= 3:
            vals.append(list(elems))
        for v in vals:
            ops.append(["assign", side, owner, v])
    elif shape == "dict":
        for e in elems:
            C("setitem", e, e)
            C("delitem", e)
            C("pop", e)
            C("setdefault", e, e)
            C("update", {e: e})
        C("popitem")
        C("clear")
        for pr in itertools.combinations(elems, 2):
            C("update", {e: e for e in pr})
        vals = [{}] + [{e: e} for e in elems] + [{e: e for e in p} for p in itertools.combinations(elems, 2)]
        for v in vals:
            ops.append(["assign", side, owner, v])
    for other in owners:
        if other != owner:
            ops.append(["assign_from", side, owner, other])
    return ops


def alphabet(kind, coll, tier, mode):
    ps, cs = universe(kind, tier)
    sp, sc = shapes(kind, coll)
    ops = []
    for side, owners, elems, shape in (("C", cs, ps, sc), ("P", ps, cs, sp)):
        for o in owners:
            if shape == "scalar":
                for t in elems + [None]:
                    ops.append(["sset", side, o, t])
                ops.append(["sdel", side, o])
            else:
                ops += coll_ops(shape, side, o, owners, elems, tier, allow_dups=False)
    if mode in ("lazy", "lazy_ah"):
        for side, owners in (("P", ps), ("C", cs)):
            for o in owners:
                ops.append(["load", side, o])
    return ops


def op_text(w, op):
    kind, side, owner = op[0], op[1], op[2]
    a = "%s.%s" % (owner, w.p_attr if side == "P" else w.c_attr)
    if kind == "sset":
        return "%s = %s" % (a, op[3])
    if kind in ("sdel", "adel"):
        return "del %s" % a
    if kind == "assign":
        v = op[3]
        return "%s = %s" % (a, render(set(v) if w.coll == "set" else v))
    if kind == "assign_from":
        return "%s = %s.%s" % (a, op[3], a.split(".")[1])
    if kind == "load":
        return "read %s" % a
    m = op[3]
    if m[0] in INPLACE:
        sym = {"iadd": "+=", "ior": "|=", "isub": "-=", "iand": "&=", "ixor": "^="}[m[0]]
        return "%s %s %s" % (a, sym, render(m[1] if m[0] == "iadd" else set(m[1])))
    if m[0] == "setslice":
        return "%s[%s] = %s" % (a, ":".join("" if x is None else str(x) for x in m[1]), render(m[2]))
    if m[0] == "delslice":
        return "del %s[%s]" % (a, ":".join("" if x is None else str(x) for x in m[1]))
    if m[0] == "setitem":
        return "%s[%r] = %s" % (a, m[1], m[2])
    if m[0] == "delitem":
        return "del %s[%r]" % (a, m[1])
    return "%s.%s(%s)" % (a, m[0], ", ".join(render(x) if isinstance(x, (list, dict)) else str(x) for x in m[1:]))


# ------------------------------------------------------------------ implementation side


class Ctx:
    __slots__ = ("w", "objs", "sess", "engine", "mode", "kind", "coll", "pn", "cn")

    def close(self):
        if self.sess is not None:
            try:
                self.sess.close()
            except Exception:
                pass
        self.sess = self.engine = None


def apply_impl(ctx, op):
    w, objs = ctx.w, ctx.objs
    kind, side, owner = op[0], op[1], op[2]
    o = objs[owner]
    attr = w.p_attr if side == "P" else w.c_attr
    conv = objs.__getitem__
    if kind == "sset":
        setattr(o, attr, objs[op[3]] if op[3] is not None else None)
    elif kind in ("sdel", "adel"):
        delattr(o, attr)
    elif kind == "assign":
        v = op[3]
        sh = shapes(ctx.kind, ctx.coll)[0 if side == "P" else 1]
        if sh == "dict":
            val = {k: objs[x] for k, x in v.items()}
        elif sh == "set":
            val = {objs[x] for x in v}
        else:
            val = [objs[x] for x in v]
        setattr(o, attr, val)
    elif kind == "assign_from":
        setattr(o, attr, getattr(objs[op[3]], attr))
    elif kind == "load":
        getattr(o, attr)
    elif kind == "coll":
        m = op[3]
        cont = getattr(o, attr)
        if m[0] in INPLACE:
            r = inplace_apply(cont, m, conv)
            setattr(o, attr, r)
            return None
        return coll_apply(cont, m, conv)
    else:
        raise AssertionError(op)


def _names(v):
    if v is None:
        return None
    if isinstance(v, dict):
        return {k: x.__dict__.get("name") or _pkname(x) for k, x in v.items()}
    if isinstance(v, set):
        return {x.__dict__.get("name") or _pkname(x) for x in v}
    if isinstance(v, list):
        return [x.__dict__.get("name") or _pkname(x) for x in v]
    return v.__dict__.get("name") or _pkname(v)


def _pkname(x):
    # an expired object: name unloaded; identity is still known
    st = sa_inspect(x)
    pk = st.identity[0] if st.identity else x.__dict__.get("id")
    return ("c%d" % (pk - 10)) if pk > 10 else "p%d" % pk


def impl_view(ctx, unloaded_is_empty):
    w = ctx.w
    view = {"P": {}, "C": {}}
    sp, sc = shapes(ctx.kind, ctx.coll)
    for side, names, attr, sh in (("P", ctx.pn, w.p_attr, sp), ("C", ctx.cn, w.c_attr, sc)):
        for n in names:
            d = ctx.objs[n].__dict__
            if attr in d:
                view[side][n] = _names(d[attr])
            elif unloaded_is_empty:
                view[side][n] = RelModel._empty(sh)
            else:
                view[side][n] = UNLOADED
    return view


def build(cfg, mode, tier, history):
    kind, coll, style = cfg
    ctx = Ctx()
    ctx.kind, ctx.coll, ctx.mode = kind, coll, mode
    w = ctx.w = world(kind, coll, style, m2o_active_history=(mode == "lazy_ah"))
    ctx.pn, ctx.cn = universe(kind, tier)
    ctx.sess = ctx.engine = None
    if mode == "transient":
        ctx.objs = {n: w.new(n) for n in ctx.pn + ctx.cn}
    elif mode == "pending":
        ctx.objs = {n: w.new(n) for n in ctx.pn + ctx.cn}
        ctx.engine = w.memory_engine()
        ctx.sess = Session(ctx.engine)
        ctx.sess.add_all([ctx.objs[n] for n in ctx.pn + ctx.cn])
    else:
        pairs = initial_pairs(kind)
        ctx.engine = w.memory_engine(w.rows_sql(ctx.pn, ctx.cn, pairs))
        ctx.sess = Session(ctx.engine)
        ctx.objs = w.persistent_universe(ctx.sess, ctx.pn, ctx.cn, pairs, loaded=(mode == "loaded"))
    for op in history:
        try:
            apply_impl(ctx, op)
        except PY_ERRORS:
            pass
    return ctx


def initial_model(cfg, mode, tier):
    kind, coll, style = cfg
    pn, cn = universe(kind, tier)
    sp, sc = shapes(kind, coll)
    m = RelModel(sp, sc, pn, cn)
    if mode in ("loaded", "lazy", "lazy_ah"):
        for p, c in initial_pairs(kind):
            m._link("P", p, c)
            m._link("C", c, p)
    return m


def _sym(v):
    if v is NO_VALUE or isinstance(v, LoaderCallableStatus):
        return str(getattr(v, "name", v))
    if v is None:
        return None
    if isinstance(v, (list, tuple)):
        return sorted(_names(list(v)))
    if isinstance(v, dict):
        return sorted(_names(v).items())
    if isinstance(v, (set, frozenset)):
        return sorted(_names(set(v)))
    if hasattr(v, "_sa_instance_state"):
        return _names(v)
    return repr(v)


def canon(ctx):
    """everything a later in-memory mutation or flush can consult"""
    w = ctx.w
    out = []
    for n in ctx.pn + ctx.cn:
        o = ctx.objs[n]
        st = sa_inspect(o)
        attr = w.p_attr if n[0] == "p" else w.c_attr
        d = o.__dict__
        v = d.get(attr, UNLOADED)
        if v is not UNLOADED:
            v = _names(v)
            if isinstance(v, set):
                v = sorted(v)
            elif isinstance(v, dict):
                v = list(v.items())
        fk = d.get("p_id", UNLOADED) if n[0] == "c" else None
        cs = sorted((k, _sym(x)) for k, x in st.committed_state.items())
        pm = st.__dict__.get("_pending_mutations") or {}
        pend = sorted(
            (k, sorted(_names(list(pc.added_items))), sorted(_names(list(pc.deleted_items)))) for k, pc in pm.items()
        )
        life = "T" if st.transient else "N" if st.pending else "P" if st.persistent else "D" if st.deleted else "X"
        parents = sorted(
            (k, bool(x)) for k, x in ((str(kk), vv) for kk, vv in st.parents.items())
        ) if "parents" in st.__dict__ else []
        # parents keys are id(parent_token): constant within a process for a
        # given world, but not across processes -> reduce to the flag multiset
        parents = sorted(x for _, x in parents)
        out.append((n, life, v, fk, cs, pend, st.modified, st.expired, sorted(st.expired_attributes & {attr, "p_id", "name"}), parents, "name" in d))
    db = None
    if ctx.sess is not None:
        if ctx.sess._transaction is None or not ctx.sess._transaction._connections:
            # no connection checked out yet: nothing was written
            db = "init"
        elif ctx.kind == "m2m":
            db = sorted(tuple(r) for r in w.raw_rows("select p_id, c_id from pc"))
        else:
            db = sorted(tuple(r) for r in w.raw_rows("select id, p_id from c"))
        db = (db, sorted(n for n in ctx.pn + ctx.cn if ctx.objs[n] in ctx.sess.new), len(ctx.sess.dirty))
    return (tuple(out), db)


# ------------------------------------------------------------------ signatures


def canon_names(text):
    """rename p1/c2... by first appearance -> pA/cB (symmetry-free signature)"""
    mp = {}
    cnt = {"p": 0, "c": 0}

    def sub(m):
        n = m.group(0)
        if n not in mp:
            mp[n] = n[0] + "ABCDEFG"[cnt[n[0]]]
            cnt[n[0]] += 1
        return mp[n]

    return re.sub(r"\b[pc]\d\b", sub, text)


def restricted_state(w, view, text):
    names = set(re.findall(r"\b[pc]\d\b", text))
    parts = []
    for side, attr in (("P", w.p_attr), ("C", w.c_attr)):
        for n, v in sorted(view[side].items()):
            if n in names and v not in (None, [], {}, set(), UNLOADED):
                parts.append("%s.%s=%s" % (n, attr, render(v)))
    return "{" + ", ".join(parts) + "}"


# ------------------------------------------------------------------ the step


def make_step(rec, cfg, mode, tier):
    kind, coll, style = cfg
    w = world(kind, coll, style, m2o_active_history=(mode == "lazy_ah"))
    in_memory = mode in ("transient", "pending")
    cfgname = "%s/%s/%s/%s" % (kind, coll or "-", style, mode)

    def fail(category, pre, op, problem, hist_, extra_kind=""):
        ot = op_text(w, op)
        body = "%s -> %s" % (ot, problem)
        st = restricted_state(w, pre, body)  # pre = the model's relation before the op
        sig = canon_names("%s %s: %s %s" % (category, "%s/%s" % (kind, coll or "scalar"), st, body))
        klass = canon_names("%s|%s|%s" % (category, op[0] + ":" + (op[3][0] if op[0] == "coll" else ""), re.sub(r"[\[{(].*?[\]})]", "_", problem)))
        case = dict(cfg=list(cfg), mode=mode, tier=tier, history=[list(h) for h in hist_], op=op)
        rec.violation("%s @ %s" % (sig, cfgname), "history: %s; then %s" % ("; ".join(op_text(w, h) for h in hist_) or "(initial)", body), case, kind=klass + extra_kind)

    def step(hist_, ms, op):
        ctx = build(cfg, mode, tier, hist_)
        try:
            return _step(ctx, hist_, ms, op)
        finally:
            ctx.close()

    def _step(ctx, hist_, ms, op):
        pre_impl = impl_view(ctx, in_memory)
        pre = ms.view()
        side, owner = op[1], op[2]
        o_side = RelModel.other(side)
        exc = ret = None
        try:
            ret = apply_impl(ctx, op)
        except PY_ERRORS as e:
            exc = e
        except (sa_exc.SQLAlchemyError, AssertionError, AttributeError, TypeError) as e:
            fail("raised", pre, op, "raised %s: %s" % (type(e).__name__, str(e)[:80]), hist_)
            return None
        m2 = ms.copy()
        choice = None
        if op[0] == "coll" and op[3][0] in ("pop", "popitem") and exc is None:
            if op[3][0] == "popitem":
                choice = ret[0]
            elif ms.shape[side] == "set":
                choice = _names(ret)
        exp = None
        try:
            mret = m2.apply(op, choice)
        except PY_ERRORS as e:
            exp = type(e)
            m2 = ms.copy()
            m2.displaced, m2.touched = [], set()
            mret = None
        post = impl_view(ctx, in_memory)
        changed_far = any(s != side or n != owner for s, n in m2.touched)
        rec.case((cfgname, ms.key(), repr(op)), nontrivial=changed_far)
        # 1. error behaviour of the plain type
        if exp is not None and exc is None:
            fail("noraise", pre, op, "expected %s, returned %r" % (exp.__name__, ret), hist_)
            return None
        if exp is None and exc is not None:
            fail("raised", pre, op, "raised %s where the plain type succeeds" % type(exc).__name__, hist_)
            return None
        if exp is not None and not isinstance(exc, exp):
            fail("raised", pre, op, "raised %s, plain type raises %s" % (type(exc).__name__, exp.__name__), hist_)
            return None
        # documented: the previous value of an *unloaded* scalar reference is
        # not fetched when it is replaced (relationship.active_history=False;
        # one-to-one parent side: history deferred to flush), so the holder of
        # the previous value cannot be told in memory.  Tolerated, and nothing
        # is claimed about states below (the stale holder is "anyone's guess").
        skip = set()
        tainted = False
        tolerated_attrs = set()
        if not in_memory and mode != "lazy_ah":
            for s, x, old in m2.displaced:
                if pre_impl[s][x] != UNLOADED:
                    continue
                hs = RelModel.other(s)  # the previous value's holder side
                held = post[hs][old]
                tolerated_attrs.add((hs, old))
                if held != UNLOADED and x in members(held):
                    m2.val[hs][old] = held
                    skip.add((old, x) if s == "C" else (x, old))
                    tainted = True
                    rec.count("tolerated_stale_holder_of_unloaded_reference")
                elif held == UNLOADED and hs == "C":
                    # a many-to-one is later read from the identity map
                    # without a flush: would show the stale parent
                    tainted = True
        # 2. the property: both sides agree (loaded attributes)
        dis = RelModel.disagreements(post, skip)
        if dis:
            fail("disagree", pre, op, dis[0], hist_)
            return None
        if exp is not None and not in_memory:
            # an operation that fails on the plain type (ValueError ...) is not
            # a mutation; with unloaded far sides its remove event may already
            # have been queued (a later flush then fails or orphans the child:
            # reported as an observation, not claimed by this property).
            rec.count("failed_ops_on_persistent_objects_not_expanded")
            return None
        # 3. the mutation happened: sides equal the reference relation
        mv = m2.val
        for s in ("P", "C"):
            for n, v in post[s].items():
                if v == UNLOADED:
                    continue
                ref = mv[s][n]
                if s == side and n == owner and op[0] != "load":
                    ok = v == ref
                elif isinstance(ref, list):
                    ok = sorted(v) == sorted(ref)
                else:
                    ok = v == ref
                if not ok:
                    fail("differs", pre, op, "%s side of %s is %s, reference %s" % (s, n, render(v), render(ref)), hist_)
                    return None
                if isinstance(ref, (list, dict)):
                    mv[s][n] = v  # adopt implementation order
        if op[0] == "coll" and op[3][0] == "pop" and exc is None and ms.shape[side] != "set":
            if _names(ret) != mret:
                fail("differs", pre, op, "pop returned %s, reference %s" % (_names(ret), mret), hist_)
                return None
        rec.outcome((kind, coll, op[0], op[3][0] if op[0] == "coll" else None, tuple(m2.pairs()), exp.__name__ if exp else None))
        key = repr((cfgname, canon(ctx)))
        # 4. a scalar far side the mutation had to change but that is still
        # unloaded: read exactly that attribute now (the objects are not used
        # again) - a backref that did not fire shows as a disagreement here,
        # at the operation that caused it
        hidden = [
            (s, n)
            for s, n in sorted(m2.touched)
            if ms.shape[s] == "scalar" and post[s][n] == UNLOADED and (s, n) not in tolerated_attrs and (s != side or n != owner)
        ]
        if hidden:
            with ctx.sess.no_autoflush:  # the in-memory value, not what a flush would repair
                for s, n in hidden:
                    post[s][n] = _names(getattr(ctx.objs[n], w.p_attr if s == "P" else w.c_attr))
            rec.count("hidden_far_side_reads", len(hidden))
            dis = RelModel.disagreements(post, skip)
            if dis:
                fail("disagree", pre, op, dis[0], hist_)
                return None
        is_new = key not in seen_keys
        if is_new:
            seen_keys.add(key)
            if not in_memory and not read_all_probe(ctx, m2, pre, op, hist_, skip, tainted):
                return None
            if not reload_probe(ctx, m2, pre, op, hist_, agreement_only=tainted):
                return None
            if changed_far:
                rec.sample(dict(config=cfgname, history=[op_text(w, h) for h in hist_], op=op_text(w, op), relation=[list(p) for p in m2.pairs()]), limit=3)
        if tainted:
            rec.count("states_below_unknown_old_value_not_expanded")
            return None
        return m2, key

    seen_keys = set()

    def read_all_probe(ctx, m2, pre, op, hist_, skip, tainted):
        """read every still-unloaded side (lazy load, autoflush on): what was
        queued for an unloaded side must come out agreeing"""
        view = {"P": {}, "C": {}}
        try:
            for s, names, attr in (("P", ctx.pn, w.p_attr), ("C", ctx.cn, w.c_attr)):
                for n in names:
                    view[s][n] = _names(getattr(ctx.objs[n], attr))
        except (sa_exc.SQLAlchemyError, AssertionError) as e:
            fail("flush", pre, op, "reading the unloaded sides raised %s: %s" % (type(e).__name__, str(e).split("\n")[0][:80]), hist_, "read")
            return False
        rec.count("read_all_probes")
        dis = RelModel.disagreements(view, skip)
        if dis:
            fail("disagree", pre, op, dis[0], hist_, "hidden")
            return False
        if tainted:
            return True
        for s in ("P", "C"):
            for n, v in view[s].items():
                ref = m2.val[s][n]
                if sorted(members(v)) != sorted(members(ref)):
                    fail("differs", pre, op, "%s side of %s reads %s, reference %s" % (s, n, render(v), render(ref)), hist_, "hidden")
                    return False
        return True

    def reload_probe(ctx, m2, pre, op, hist_, agreement_only=False):
        """flush, expire everything, reload both sides from the database"""
        sess = ctx.sess
        if sess is None:
            ctx.engine = w.memory_engine()
            sess = ctx.sess = Session(ctx.engine)
            sess.add_all([ctx.objs[n] for n in ctx.pn + ctx.cn])
        rec.count("flush_reload_probes")
        try:
            sess.flush()
            sess.commit()
        except (sa_exc.SQLAlchemyError, AssertionError) as e:
            fail("flush", pre, op, "flush raised %s: %s" % (type(e).__name__, str(e).split("\n")[0][:80]), hist_, "flush")
            return False
        view = {"P": {}, "C": {}}
        for s, names, attr in (("P", ctx.pn, w.p_attr), ("C", ctx.cn, w.c_attr)):
            for n in names:
                view[s][n] = _names(getattr(ctx.objs[n], attr))
        dis = RelModel.disagreements(view)
        if dis:
            fail("reload-disagree", pre, op, "after flush+reload: " + dis[0], hist_)
            return False
        if agreement_only:
            return True
        for s in ("P", "C"):
            for n, v in view[s].items():
                ref = m2.val[s][n]
                if sorted(set(members(v))) != sorted(set(members(ref))):
                    fail("reload-differs", pre, op, "after flush+reload %s side of %s is %s, in memory before flush %s" % (s, n, render(v), render(ref)), hist_)
                    return False
        return True

    return step


def enabled_factory(cfg, mode, tier):
    kind, coll, style = cfg
    ops = alphabet(kind, coll, tier, mode)
    pn, cn = universe(kind, tier)
    maxlen = max(len(pn), len(cn)) + 1

    def enabled(ms):
        out = []
        for op in ops:
            if op[0] == "sdel" and ms.val[op[1]][op[2]] is None:
                continue
            if op[0] == "coll" and op[3][0] == "pop" and len(op[3]) == 1 and ms.shape[op[1]] == "set" and len(ms.val[op[1]][op[2]]) > 1:
                continue  # arbitrary choice between object hashes: not deterministic
            if ms.shape[op[1]] == "list" and op[0] != "load":
                try:
                    new, _ = ms.primary(op)
                except PY_ERRORS:
                    out.append(op)
                    continue
                if has_dups(new):
                    continue  # see module docstring: duplicates are outside the bound
            out.append(op)
        return out

    return enabled


DEPTH = dict(quick=2, thorough=3)


def shards(tier, seed):
    out = []
    for cfg in CONFIGS:
        for mode in MODES:
            if mode == "lazy_ah" and cfg[0] == "m2m":
                continue
            out.append([list(cfg), mode])
    return out


def run_shard(shard, tier, rec):
    cfg, mode = tuple(shard[0]), shard[1]
    gc.disable()
    try:
        step = make_step(rec, cfg, mode, tier)
        ms = initial_model(cfg, mode, tier)
        ctx = build(cfg, mode, tier, ())
        key = repr(("%s/%s/%s/%s" % (cfg[0], cfg[1] or "-", cfg[2], mode), canon(ctx)))
        ctx.close()
        d = hist.explore(rec, [((), ms, key)], enabled_factory(cfg, mode, tier), step, depth=DEPTH[tier])
        rec.count("max_depth_reached", 0)
        rec.counters["max_depth_reached"] = max(rec.counters["max_depth_reached"], d)
    finally:
        gc.enable()
        gc.collect()


def finish(tier, total):
    """fold the per-configuration signatures of one root cause into one"""
    groups = {}
    order = []
    for v in total.violations:
        root, _, cfgname = v["sig"].rpartition(" @ ")
        if not root:
            root, cfgname = v["sig"], ""
        if root not in groups:
            groups[root] = dict(v, cfgs=[])
            order.append(root)
        if cfgname:
            groups[root]["cfgs"].append(cfgname)
    out = []
    for root in order:
        g = groups[root]
        cfgs = sorted(set(g.pop("cfgs")))
        g["sig"] = "%s [in %s]" % (root, ", ".join(cfgs)) if cfgs else root
        out.append(g)
    total.violations[:] = out
    if "max_depth_reached" in total.counters:
        pass
    return None


def replay(case):
    from ..core import Rec, StopShard

    rec = Rec(ID)
    cfg, mode, tier = tuple(case["cfg"]), case["mode"], case.get("tier", "quick")
    step = make_step(rec, cfg, mode, tier)
    ms = initial_model(cfg, mode, tier)
    gc.disable()
    try:
        hist_ = []
        for op in case["history"]:
            out = step(tuple(hist_), ms, op)
            if out is None:
                break
            ms = out[0]
            hist_.append(op)
        else:
            step(tuple(hist_), ms, case["op"])
    except StopShard:
        pass
    finally:
        gc.enable()
    return [(v["sig"], v["detail"]) for v in rec.violations]
