"""C37 both sides of a bidirectional relationship always agree (engine H).

Property: for any sequence of in-memory mutations performed on either side of
a back_populates / backref pair (one-to-many, many-to-one, one-to-one,
many-to-many, including collection replacement and slice operations), B is in
A's collection exactly when A is B's parent (or in B's collection) - before
flush, and after flush and reload.

Exploration.  Worlds (vf.worlds.ormworld3): one-to-many with list / set /
attribute-keyed dict collections, one-to-one (uselist=False), many-to-many
with list / set collections on both sides, each mapped with back_populates and
with legacy backref (12 mappings), 2 parents x 2 (thorough o2m: 3) children.
Modes: ``transient`` (no Session), ``pending`` (added, never flushed),
``loaded`` (persistent, both sides loaded), ``lazy`` (persistent, every
attribute expired as after commit(), lazy loaders + autoflush armed),
``lazy_ah`` (as lazy, relationship(active_history=True) on the scalar sides),
``lazy_naf`` (as lazy_ah with autoflush off: what an unloaded collection
yields when loaded is the stale rows merged with the pending backref
mutations, and must still agree).
Alphabet: every mutating method / operator of the collection type with every
argument over the universe (append remove insert pop clear extend += [i]= del[i]
slice assignment and deletion incl. step slices; add discard remove pop |= -= &=
^= update *_update; dict [k]= del pop popitem setdefault update), whole
collection assignment of every small value incl. another owner's live
collection, scalar set / None / del on the scalar sides, and (lazy modes) reads.
Engine H replays every history on fresh objects; the canonical state contains
the in-memory values of both sides, loadedness, committed_state, pending
collection mutations, lifecycle, hasparent flags, expiry, modified flags and
the database rows of the open transaction, so dedupe is exact; the in-memory
and loaded modes are explored until no new state appears within the depth.

Oracle (reference model vf.models.sessref3.RelModel in lock-step):
 1. the op raises what the plain Python type raises, else succeeds;
 2. *the property*: on every pair whose two sides are loaded, c in p.cs <=> c.p
    is p (M2M: c in p.cs <=> p in c.ps; O2O: p.c is c <=> c.p is p);
 3. each loaded side equals the reference relation (the op took effect; the
    far side was repaired and nothing else moved);
 4. a scalar far side the op had to change but that is still unloaded is read
    (no autoflush) and must agree; for every new canonical state all sides are
    read (lazy loads) and must agree with each other and the reference; then
    flush + commit + reload from the database must agree and equal the
    in-memory relation before the flush.
Documented latitude (accepted, counted in the evidence): when a scalar
reference is replaced while it is *unloaded* and the relationship has no
active_history, the previous value is not fetched (relationship.active_history
docs; one-to-one parent side: history deferred to flush), so the previous
holder cannot be told - such a stale holder is tolerated and nothing is
claimed below that state.  An op that fails on the plain type is not a
mutation; below a failed op on persistent objects nothing is claimed.

Scope limits: ``del obj.collection`` (documented only for scalars) and
dict keys that differ from the keyfunc are not mutations of the property.  A
list holding the same child twice cannot be stored (one foreign key / one
association row); only what the remove handler's has_dupes() test exists for is
checked (the ``dups`` shards: removing one of two occurrences through the
collection keeps the parent, removing the last clears it); the other
mutations on such a list do disagree (c.p = None removes one occurrence only,
pop() / clear() / slice deletion mis-time has_dupes) - counted in the
evidence (dup_mutations_outside_bound_that_disagree), reported, no verdict.
Negative-start slice assignment is C38's (known finding there).

Transient duplicates (a list that is duplicate-free before and after a
statement which is a *sequence* of item assignments, between which one member
is listed twice): the tuple swap ``l[i], l[j] = l[j], l[i]`` (op ``swap``) and
extended-slice assignment of a permutation (``l[::-1] = [...]``, thorough also
``l[0::2] = [...]``) are ordinary members of the list alphabet of the
many-to-many list mappings (both sides, every mode, full oracle incl. flush +
reload) - the remove handler sees the duplicate there.  Genuine defect found
by this (lazy modes): with the far side *unloaded* the backref events of such
a statement are queued in a _PendingCollection whose added / deleted items are
sets and cannot count (append, append, remove nets to nothing): append + swap
-> the far side loads without the member; append + swap + remove -> the flush
raises StaleDataError.  Every failure below a history in which a
transient-duplicate statement was performed on a many-to-many list while the
other side of one of its members was unloaded (flag carried on the model,
``tdup_queued``) and whose form is a disagreement / difference or a
StaleDataError at flush is reported under one of the two canonical signatures
PENDSET_SIG_A / PENDSET_SIG_B; any other failure keeps its own signature.
For one-to-many lists
they are explored in memory in the ``dups`` shards (bases [c1,c2] and
[c1,c2,c3], every swap / reversal / step-2 permutation, optionally followed by
a second one or a removal by value / index).  They are NOT in the one-to-many
persistent alphabet: there a second genuine defect shows - the remove event of
the transient duplicate clears the member's hasparent flag although it stays
in the list (CollectionAttributeImpl.fire_remove_event), and a member moved
over from another parent and then swapped can be orphaned by the flush
(whether the foreign key is then nulled depends on the order in which the unit
of work iterates a set of states, so the flush outcome is kept out of the
verdict).  The deterministic root cause is detected by swap_hasparent_probe in
the dups shards and reported under the canonical signature O2M_HASPARENT_SIG
(proposed fix: proposed_fixes/c37_fire_remove_event_transient_duplicate.diff).
Duplicates in many-to-many lists (``dups_m2m`` shards): the two sides mirror
each other as multisets (p1.cs = [c1,c1] <-> c1.ps = [p1,p1]); from the four
duplicate bases, produced by assignment or by repeated append(), every history
(quick 2, thorough 3 ops) of single-slot mutations of p1.cs (remove / del /
slice del / item and slice assignment of a new member / every tuple swap / pop
/ in-place reversal) and removals from the far side (c.ps.remove(p1)) is
executed on transient objects; after every op p1.cs equals the plain list and
c in p.cs <=> p in c.ps for every pair (removing one of two occurrences keeps
the far side, removing the last clears it).

Signatures: "<class> <kind>/<coll>: {reference relation of the objects
involved} <op> -> <first fact>", objects renamed by first appearance; the
configurations (mapping style / mode) in which the same minimal case fails are
folded into the signature by finish().

Mutations caught (each in a private copy, VF_REPO=/tmp/wt-orm3):
 M1 attributes.py emit_backref_from_collection_remove_event: has_dupes() test
    dropped (always pop the scalar) -> dups shard, "c1 in p1.cs but c1.p is None"
 M2 attributes.py emit_backref_from_scalar_set_event: old holder only told when
    the new value is not None -> "cA.p = None -> cA in pA's side"
 M3 collections.py bulk_replace: no remove events when there are additions ->
    "pA.cs = [cB] -> pA in cA's side pA but pA's side is [cB]" (o2m and m2m)
 M4 collections.py list __setitem__: replaced element gets no remove event
 M5 attributes.py set_committed_value: pending removals not applied when the
    collection loads -> lazy_naf "cA.p = pB -> cA in pA's side [cA,cB]"
 M6 attributes.py _ScalarObjectAttributeImpl.set: check_old test inverted
    (pop never clears) -> "pA.cs.remove(cA) -> pA in cA's side pA"
 M7 attributes.py _CollectionAttributeImpl.append: pending append on an
    unloaded collection lost -> lazy_naf "cA.p = pB -> pB's side is []"
 M8 attributes.py emit_backref_from_collection_remove_event: the has_dupes()
    test also applied when the far side is a collection (seeded C37-b) ->
    m2m/list "pA.cs[0], pA.cs[1] = pA.cs[1], pA.cs[0] -> C side of cB is
    [pA,pA], reference [pA]" (transient, pending, loaded), "pA.cs[::-1] = [cA,cB] ->
    ..." and dups_m2m "p1.cs = [c1,c1]; remove c1; pop -> c1 not in p1.cs []
    but c1.ps is [p1]"
"""
import gc
import itertools
import re

from sqlalchemy import exc as sa_exc
from sqlalchemy import inspect as sa_inspect
from sqlalchemy.orm import Session
from sqlalchemy.orm.attributes import NO_VALUE
from sqlalchemy.orm.base import LoaderCallableStatus

from ..engines import hist
from ..models.sessref3 import coll_apply as _coll_apply
from ..models.sessref3 import has_dups
from ..models.sessref3 import inplace_apply
from ..models.sessref3 import INPLACE
from ..models.sessref3 import members
from ..models.sessref3 import RelModel
from ..models.sessref3 import render
from ..models.sessref3 import UNLOADED
from ..worlds.ormworld3 import world


def coll_apply(cont, m, conv=lambda n: n, choice=None):
    """sessref3.coll_apply plus the tuple-swap statement ``l[i], l[j] = l[j],
    l[i]``: two item assignments, between which the list holds one member
    twice (same code for the name list of the model and the real instrumented
    list; the right-hand side is read before anything is assigned, as Python
    does)"""
    if m[0] == "swap":
        i, j = m[1], m[2]
        cont[i], cont[j] = cont[j], cont[i]
        return None
    return _coll_apply(cont, m, conv, choice)


class RelModelX(RelModel):
    """RelModel whose list side also understands ``swap``"""

    def primary(self, op, choice=None):
        if op[0] == "coll" and op[3][0] == "swap":
            cur = list(self.val[op[1]][op[2]])
            return cur, coll_apply(cur, op[3])
        return RelModel.primary(self, op, choice)


def is_tdup_op(op):
    """a statement that is a sequence of item assignments (tuple swap,
    extended-slice assignment of several values)"""
    if op[0] != "coll":
        return False
    m = op[3]
    return m[0] == "swap" or (m[0] == "setslice" and m[1][2] not in (None, 1) and len(m[2]) > 1)


# canonical, history-independent signatures of the two genuine defects of the
# transient-duplicate family (no " @ config" part: finish() leaves them as is)
O2M_HASPARENT_SIG = (
    "o2m list: a statement with a transient duplicate (tuple swap / permutation slice assignment) leaves a member of "
    "the collection with its hasparent flag off (a later flush may orphan it)"
)
_PENDSET = (
    "m2m list, far side unloaded: queued backref events of a transient duplicate (tuple swap / permutation slice "
    "assignment) are kept in sets (append, append, remove nets to nothing): "
)
PENDSET_SIG_A = _PENDSET + "the two sides disagree after load"
PENDSET_SIG_B = _PENDSET + "the flush raises StaleDataError"
PENDSET_FORM_A = ("disagree", "differs", "reload-disagree", "reload-differs")

ID = "C37"
LEVEL = "model_checking"
META = dict(
    engine="H",
    technique="explicit-state BFS over mutation histories on the real mapped objects, reference relation model in lock-step, canonical-state dedupe",
    design_ref="DESIGN.md §5 C37",
    level_text="Every history of in-memory mutations over the full mutator alphabet of list / set / dict collections and "
    "scalar references is replayed on fresh real mapped objects for 12 bidirectional mappings (O2M list/set/dict, O2O, "
    "M2M list/set; back_populates and backref; the M2M list alphabet includes statements that list a member twice only "
    "transiently: tuple swap and extended-slice permutation) in 6 object modes (transient, pending, persistent-loaded, persistent-expired "
    "with lazy loaders and autoflush, the same with active_history, the same with autoflush off). After every operation the agreement invariant is "
    "evaluated on the real objects, both sides are compared with a plain-Python relation model, and for every new "
    "canonical state all sides are lazily read, then flushed, committed and reloaded from SQLite and compared again. "
    "Dedupe is on a canonical state that contains everything later operations or a flush consult, so the result is "
    "complete for the stated depth (and, where the fixpoint is reached, for every depth).",
    level_note="Trusted: the 150-line relation model (sessref3.RelModel) and the canonical-state function. Persistent "
    "start states are manufactured with make_transient_to_detached + set_committed_value (documented APIs) instead of "
    "a query. Universe of 2 parents x 2-3 children; lists that hold a member twice at a statement boundary only in the dups "
    "(one-to-many) and dups_m2m (many-to-many) shards, on transient objects; transient duplicates inside one statement: "
    "many-to-many in every mode, one-to-many in memory only plus the hasparent-flag detector (the address-dependent flush outcome is not in the verdict); SQLite only.",
    rule="case = (mapping, mode, canonical state, op); non-trivial = the op had to change the far side (a backref had to "
    "fire); outcomes = distinct (op kind, resulting relation, error class)",
    assumptions=[
        "single Session, single thread, autoflush on (lazy modes)",
        "dict collections are used with keys equal to the keyfunc (attribute_keyed_dict('name'))",
        "a stale holder after replacing an unloaded scalar reference without active_history is documented behaviour",
    ],
    bounds=dict(
        quick="12 mappings x 6 modes; 2x2 objects; reduced alphabet (one op per argument shape); depth 3 (transient, loaded), 2 (pending, lazy modes), 4 (one-to-one); m2m list: + swap(0,1) on both sides, [::-1]= on the parent side; dups shards (o2m: + transient-duplicate statements on [c1,c2], [c1,c2,c3]); dups_m2m shards: 4 duplicate bases x 2 ways to build them, all histories of 2 ops",
        thorough="12 mappings x 6 modes; o2m 2x3 objects and full alphabet in the in-memory and loaded modes (depth 4), 2x2 objects and reduced alphabet in the lazy modes (depth 3); one-to-one depth 6; m2m list: + swap, [::-1]= of every 2-permutation on both sides (lazy modes: the quick alphabet); dups shards; dups_m2m shards: all histories of 3 ops",
    ),
)

SHARD_TIMEOUT = dict(quick=600, thorough=3000)  # CPU seconds per shard

CONFIGS = (
    [("o2m", c, s) for c in ("list", "set", "dict") for s in ("bp", "backref")]
    + [("o2o", None, s) for s in ("bp", "backref")]
    + [("m2m", c, s) for c in ("list", "set") for s in ("bp", "backref")]
)
MODES = ("transient", "pending", "loaded", "lazy", "lazy_ah", "lazy_naf")
LAZY = ("lazy", "lazy_ah", "lazy_naf")
AH = ("lazy_ah", "lazy_naf")
PY_ERRORS = (ValueError, KeyError, IndexError)


def universe(kind, tier, mode=None):
    if kind == "o2m":
        # three children where a step is cheap; the lazy modes pay SQL per step
        return ["p1", "p2"], ["c1", "c2", "c3"] if tier == "thorough" and mode not in LAZY else ["c1", "c2"]
    if kind == "o2o":
        return ["p1", "p2"], ["c1", "c2"]
    return ["p1", "p2"], ["c1", "c2"]


def initial_pairs(kind):
    if kind == "o2m":
        return [("p1", "c1"), ("p1", "c2")]
    if kind == "o2o":
        return [("p1", "c1")]
    return [("p1", "c1"), ("p1", "c2"), ("p2", "c1")]


def shapes(kind, coll):
    if kind == "o2m":
        return coll, "scalar"
    if kind == "o2o":
        return "scalar", "scalar"
    return coll, coll


# ------------------------------------------------------------------ op alphabet


def coll_ops(shape, side, owner, owners, elems, tier, basic=False, tdup=False):
    """every mutating method of the collection type with every argument over
    ``elems``.  thorough: all of them; quick: near-duplicates (second index,
    mirrored pairs) are left out; basic (the mirrored side of many-to-many in
    the quick tier): one op per event path"""
    full = tier == "thorough"
    ops = []
    C = lambda *m: ops.append(["coll", side, owner, list(m)])  # noqa: E731
    perms = [list(p) for p in itertools.permutations(elems, 2)]
    combs = [list(p) for p in itertools.combinations(elems, 2)]
    if shape == "list":
        for e in elems:
            C("append", e)
            C("remove", e)
            if not basic:
                C("insert", 0, e)
                C("iadd", [e])
                C("setitem", 0, e)
                C("setslice", [0, 1, None], [e])
            if full:
                C("insert", 1, e)
                C("setitem", -1, e)
                C("setslice", [1, None, None], [e])
                C("setslice", [0, None, 2], [e])
        C("pop")
        C("clear")
        # statements that are a *sequence* of item assignments, between which
        # one member is listed twice although the list is duplicate-free
        # before and after: the tuple swap and extended-slice assignment of a
        # permutation (the remove handler then sees the duplicate)
        if tdup:
            C("swap", 0, 1)
            if full and len(elems) >= 3:
                C("swap", 0, -1)
                C("swap", 1, 2)
        if not basic:
            C("pop", 0)
            C("delitem", 0)
            C("delslice", [0, 1, None])
        if full:
            C("delitem", -1)
            C("delslice", [1, None, None])
            C("delslice", [0, None, 2])
            C("delslice", [-1, None, None])
        for pr in perms if full else combs:
            if not basic:
                C("extend", pr)
                C("setslice", [0, None, None], pr)
                if tdup:
                    C("setslice", [None, None, -1], pr)
            if full:
                C("setslice", [0, 1, None], pr)
                if tdup and len(elems) >= 3:
                    C("setslice", [0, None, 2], pr)
        if tdup and full and len(elems) >= 3:
            for pr in itertools.permutations(elems, 3):
                C("setslice", [None, None, -1], list(pr))
        vals = [[]] + [[e] for e in elems] + (perms if full else combs)
        if full and len(elems) >= 3:
            vals += [list(p) for p in itertools.permutations(elems, 3)][:2]
        for v in vals:
            ops.append(["assign", side, owner, v])
    elif shape == "set":
        for e in elems:
            C("add", e)
            C("remove", e)
            if not basic:
                C("discard", e)
                C("ior", [e])
                C("isub", [e])
                C("iand", [e])
                C("ixor", [e])
            if full:
                C("difference_update", [e])
                C("intersection_update", [e])
                C("symmetric_difference_update", [e])
        C("pop")
        C("clear")
        for pr in combs:
            if not basic:
                C("update", pr)
            if full:
                C("ixor", pr)
        vals = [[]] + [[e] for e in elems] + combs
        if len(elems) >= 3:
            vals.append(list(elems))
        for v in vals:
            ops.append(["assign", side, owner, v])
    elif shape == "dict":
        for e in elems:
            C("setitem", e, e)
            C("delitem", e)
            C("pop", e)
            C("setdefault", e, e)
            C("update", {e: e})
        C("popitem")
        C("clear")
        for pr in combs:
            C("update", {e: e for e in pr})
        vals = [{}] + [{e: e} for e in elems] + [{e: e for e in p} for p in combs]
        for v in vals:
            ops.append(["assign", side, owner, v])
    for other in owners:
        if other != owner:
            ops.append(["assign_from", side, owner, other])
    return ops


def alphabet(kind, coll, tier, mode):
    if mode in LAZY:
        tier = "quick"  # lazy modes pay SQL per step: reduced alphabet in both tiers, the thorough tier goes one op deeper
    ps, cs = universe(kind, tier, mode)
    sp, sc = shapes(kind, coll)
    ops = []
    for side, owners, elems, shape in (("C", cs, ps, sc), ("P", ps, cs, sp)):
        for o in owners:
            if shape == "scalar":
                for t in elems + [None]:
                    ops.append(["sset", side, o, t])
                ops.append(["sdel", side, o])
            else:
                ops += coll_ops(
                    shape, side, o, owners, elems, tier, basic=(kind == "m2m" and side == "C" and tier == "quick"), tdup=(kind == "m2m")
                )
    if mode in LAZY:
        for side, owners in (("P", ps), ("C", cs)):
            for o in owners:
                ops.append(["load", side, o])
    return ops


def op_text(w, op):
    kind, side, owner = op[0], op[1], op[2]
    a = "%s.%s" % (owner, w.p_attr if side == "P" else w.c_attr)
    if kind == "sset":
        return "%s = %s" % (a, op[3])
    if kind in ("sdel", "adel"):
        return "del %s" % a
    if kind == "assign":
        v = op[3]
        return "%s = %s" % (a, render(set(v) if w.coll == "set" else v))
    if kind == "assign_from":
        return "%s = %s.%s" % (a, op[3], a.split(".")[1])
    if kind == "load":
        return "read %s" % a
    m = op[3]
    if m[0] in INPLACE:
        sym = {"iadd": "+=", "ior": "|=", "isub": "-=", "iand": "&=", "ixor": "^="}[m[0]]
        return "%s %s %s" % (a, sym, render(m[1] if m[0] == "iadd" else set(m[1])))
    if m[0] == "setslice":
        return "%s[%s] = %s" % (a, ":".join("" if x is None else str(x) for x in m[1]), render(m[2]))
    if m[0] == "delslice":
        return "del %s[%s]" % (a, ":".join("" if x is None else str(x) for x in m[1]))
    if m[0] == "setitem":
        return "%s[%r] = %s" % (a, m[1], m[2])
    if m[0] == "swap":
        return "%s[%d], %s[%d] = %s[%d], %s[%d]" % (a, m[1], a, m[2], a, m[2], a, m[1])
    if m[0] == "delitem":
        return "del %s[%r]" % (a, m[1])
    return "%s.%s(%s)" % (a, m[0], ", ".join(render(x) if isinstance(x, (list, dict)) else str(x) for x in m[1:]))


# ------------------------------------------------------------------ implementation side


class Ctx:
    __slots__ = ("w", "objs", "sess", "engine", "mode", "kind", "coll", "pn", "cn")

    def close(self):
        if self.sess is not None:
            try:
                self.sess.close()
            except Exception:
                pass
        self.sess = self.engine = None


def apply_impl(ctx, op):
    w, objs = ctx.w, ctx.objs
    kind, side, owner = op[0], op[1], op[2]
    o = objs[owner]
    attr = w.p_attr if side == "P" else w.c_attr
    conv = objs.__getitem__
    if kind == "sset":
        setattr(o, attr, objs[op[3]] if op[3] is not None else None)
    elif kind in ("sdel", "adel"):
        delattr(o, attr)
    elif kind == "assign":
        v = op[3]
        sh = shapes(ctx.kind, ctx.coll)[0 if side == "P" else 1]
        if sh == "dict":
            val = {k: objs[x] for k, x in v.items()}
        elif sh == "set":
            val = {objs[x] for x in v}
        else:
            val = [objs[x] for x in v]
        setattr(o, attr, val)
    elif kind == "assign_from":
        setattr(o, attr, getattr(objs[op[3]], attr))
    elif kind == "load":
        getattr(o, attr)
    elif kind == "coll":
        m = op[3]
        cont = getattr(o, attr)
        if m[0] in INPLACE:
            r = inplace_apply(cont, m, conv)
            setattr(o, attr, r)
            return None
        return coll_apply(cont, m, conv)
    else:
        raise AssertionError(op)


def _names(v):
    if v is None:
        return None
    if isinstance(v, dict):
        return {k: x.__dict__.get("name") or _pkname(x) for k, x in v.items()}
    if isinstance(v, set):
        return {x.__dict__.get("name") or _pkname(x) for x in v}
    if isinstance(v, list):
        return [x.__dict__.get("name") or _pkname(x) for x in v]
    return v.__dict__.get("name") or _pkname(v)


def _pkname(x):
    # an expired object: name unloaded; identity is still known
    st = sa_inspect(x)
    pk = st.identity[0] if st.identity else x.__dict__.get("id")
    return ("c%d" % (pk - 10)) if pk > 10 else "p%d" % pk


def impl_view(ctx, unloaded_is_empty):
    w = ctx.w
    view = {"P": {}, "C": {}}
    sp, sc = shapes(ctx.kind, ctx.coll)
    for side, names, attr, sh in (("P", ctx.pn, w.p_attr, sp), ("C", ctx.cn, w.c_attr, sc)):
        for n in names:
            d = ctx.objs[n].__dict__
            if attr in d:
                view[side][n] = _names(d[attr])
            elif unloaded_is_empty:
                view[side][n] = RelModel._empty(sh)
            else:
                view[side][n] = UNLOADED
    return view


def build(cfg, mode, tier, history):
    kind, coll, style = cfg
    ctx = Ctx()
    ctx.kind, ctx.coll, ctx.mode = kind, coll, mode
    w = ctx.w = world(kind, coll, style, m2o_active_history=(mode in AH))
    ctx.pn, ctx.cn = universe(kind, tier, mode)
    ctx.sess = ctx.engine = None
    if mode == "transient":
        ctx.objs = {n: w.new(n) for n in ctx.pn + ctx.cn}
    elif mode == "pending":
        ctx.objs = {n: w.new(n) for n in ctx.pn + ctx.cn}
        ctx.engine = w.memory_engine()
        ctx.sess = Session(ctx.engine)
        ctx.sess.add_all([ctx.objs[n] for n in ctx.pn + ctx.cn])
    else:
        pairs = initial_pairs(kind)
        ctx.engine = w.memory_engine(w.rows_sql(ctx.pn, ctx.cn, pairs))
        ctx.sess = Session(ctx.engine, autoflush=(mode != "lazy_naf"))
        ctx.objs = w.persistent_universe(ctx.sess, ctx.pn, ctx.cn, pairs, loaded=(mode == "loaded"))
    for op in history:
        try:
            apply_impl(ctx, op)
        except PY_ERRORS:
            pass
    return ctx


def initial_model(cfg, mode, tier):
    kind, coll, style = cfg
    pn, cn = universe(kind, tier, mode)
    sp, sc = shapes(kind, coll)
    m = RelModelX(sp, sc, pn, cn)
    if mode in ("loaded",) + LAZY:
        for p, c in initial_pairs(kind):
            m._link("P", p, c)
            m._link("C", c, p)
    return m


def _sym(v):
    if v is NO_VALUE or isinstance(v, LoaderCallableStatus):
        return str(getattr(v, "name", v))
    if v is None:
        return None
    if isinstance(v, (list, tuple)):
        return sorted(_names(list(v)))
    if isinstance(v, dict):
        return sorted(_names(v).items())
    if isinstance(v, (set, frozenset)):
        return sorted(_names(set(v)))
    if hasattr(v, "_sa_instance_state"):
        return _names(v)
    return repr(v)


def canon(ctx):
    """everything a later in-memory mutation or flush can consult"""
    w = ctx.w
    out = []
    for n in ctx.pn + ctx.cn:
        o = ctx.objs[n]
        st = sa_inspect(o)
        attr = w.p_attr if n[0] == "p" else w.c_attr
        d = o.__dict__
        v = d.get(attr, UNLOADED)
        if v is not UNLOADED:
            v = _names(v)
            if isinstance(v, set):
                v = sorted(v)
            elif isinstance(v, dict):
                v = list(v.items())
        fk = d.get("p_id", UNLOADED) if n[0] == "c" else None
        cs = sorted((k, _sym(x)) for k, x in st.committed_state.items())
        pm = st.__dict__.get("_pending_mutations") or {}
        pend = sorted(
            (k, sorted(_names(list(pc.added_items))), sorted(_names(list(pc.deleted_items)))) for k, pc in pm.items()
        )
        life = "T" if st.transient else "N" if st.pending else "P" if st.persistent else "D" if st.deleted else "X"
        parents = sorted(
            (k, bool(x)) for k, x in ((str(kk), vv) for kk, vv in st.parents.items())
        ) if "parents" in st.__dict__ else []
        # parents keys are id(parent_token): constant within a process for a
        # given world, but not across processes -> reduce to the flag multiset
        parents = sorted(x for _, x in parents)
        out.append((n, life, v, fk, cs, pend, st.modified, st.expired, sorted(st.expired_attributes & {attr, "p_id", "name"}), parents, "name" in d))
    db = None
    if ctx.sess is not None:
        if ctx.sess._transaction is None or not ctx.sess._transaction._connections:
            # no connection checked out yet: nothing was written
            db = "init"
        elif ctx.kind == "m2m":
            db = sorted(tuple(r) for r in w.raw_rows("select p_id, c_id from pc"))
        else:
            db = sorted(tuple(r) for r in w.raw_rows("select id, p_id from c"))
        db = (db, sorted(n for n in ctx.pn + ctx.cn if ctx.objs[n] in ctx.sess.new), len(ctx.sess.dirty))
    return (tuple(out), db)


# ------------------------------------------------------------------ signatures


def canon_names(text):
    """rename p1/c2... by first appearance -> pA/cB (symmetry-free signature)"""
    mp = {}
    cnt = {"p": 0, "c": 0}

    def sub(m):
        n = m.group(0)
        if n not in mp:
            mp[n] = n[0] + "ABCDEFG"[cnt[n[0]]]
            cnt[n[0]] += 1
        return mp[n]

    return re.sub(r"\b[pc]\d\b", sub, text)


def restricted_state(w, view, text):
    names = set(re.findall(r"\b[pc]\d\b", text))
    parts = []
    for side, attr in (("P", w.p_attr), ("C", w.c_attr)):
        for n, v in sorted(view[side].items()):
            if n in names and v not in (None, [], {}, set(), UNLOADED):
                parts.append("%s.%s=%s" % (n, attr, render(v)))
    return "{" + ", ".join(parts) + "}"


# ------------------------------------------------------------------ the step


def make_step(rec, cfg, mode, tier):
    kind, coll, style = cfg
    w = world(kind, coll, style, m2o_active_history=(mode in AH))
    in_memory = mode in ("transient", "pending")
    cfgname = "%s/%s/%s/%s" % (kind, coll or "-", style, mode)

    # the cause of the known set-based pending collection defect is in the
    # history: a transient-duplicate statement was performed on a many-to-many
    # list while the other side of one of the list's members was unloaded (its
    # backref events went into a _PendingCollection).  Carried along the
    # history on the model object (``tdup_queued``); cur["tq"] = the value for
    # the step being executed.
    cur = {"tq": False}

    def fail(category, pre, op, problem, hist_, extra_kind=""):
        if category in PENDSET_FORM_A or (category == "flush" and "StaleDataError" in problem):
            if cur["tq"]:
                form = "A" if category in PENDSET_FORM_A else "B"
                case = dict(cfg=list(cfg), mode=mode, tier=tier, history=[list(h) for h in hist_], op=op)
                rec.count("pending_set_defect_cases_form_" + form)
                rec.violation(
                    PENDSET_SIG_A if form == "A" else PENDSET_SIG_B,
                    "[%s] history: %s; then %s -> %s" % (cfgname, "; ".join(op_text(w, h) for h in hist_) or "(initial)", op_text(w, op), problem),
                    case,
                    kind="pendset" + form,
                )
                return
        ot = op_text(w, op)
        body = "%s -> %s" % (ot, problem)
        st = restricted_state(w, pre, body)  # pre = the model's relation before the op
        sig = canon_names("%s %s: %s %s" % (category, "%s/%s" % (kind, coll or "scalar"), st, body))
        klass = canon_names("%s|%s|%s" % (category, op[0] + ":" + (op[3][0] if op[0] == "coll" else ""), re.sub(r"[\[{(].*?[\]})]", "_", problem)))
        case = dict(cfg=list(cfg), mode=mode, tier=tier, history=[list(h) for h in hist_], op=op)
        rec.violation("%s @ %s" % (sig, cfgname), "history: %s; then %s" % ("; ".join(op_text(w, h) for h in hist_) or "(initial)", body), case, kind=klass + extra_kind)

    def step(hist_, ms, op):
        ctx = build(cfg, mode, tier, hist_)
        try:
            return _step(ctx, hist_, ms, op)
        finally:
            ctx.close()

    def _step(ctx, hist_, ms, op):
        pre_impl = impl_view(ctx, in_memory)
        pre = ms.view()
        side, owner = op[1], op[2]
        o_side = RelModel.other(side)
        cur["tq"] = getattr(ms, "tdup_queued", False)
        if not in_memory and op[0] in ("coll", "assign_from"):
            # a collection operation first loads the collection (database
            # order): take the element order from that load, as the op does
            tgt = owner if op[0] == "coll" else op[3]
            if pre_impl[side][tgt] == UNLOADED and ms.shape[side] in ("list", "dict"):
                try:
                    v = _names(getattr(ctx.objs[tgt], w.p_attr if side == "P" else w.c_attr))
                except (sa_exc.SQLAlchemyError, AssertionError) as e:
                    fail("raised", pre, op, "loading raised %s: %s" % (type(e).__name__, str(e)[:80]), hist_)
                    return None
                if sorted(members(v)) != sorted(members(ms.val[side][tgt])):
                    fail("differs", pre, ["load", side, tgt], "%s side of %s reads %s, reference %s" % (side, tgt, render(v), render(ms.val[side][tgt])), hist_)
                    return None
                ms = ms.copy()
                ms.val[side][tgt] = v
                pre_impl = impl_view(ctx, in_memory)
                pre = ms.view()
                if ms.shape[side] == "list":
                    try:
                        if has_dups(ms.primary(op)[0]):
                            # with the real element order the index-based op
                            # would list a member twice: outside the bound
                            rec.count("index_ops_skipped_after_load_would_duplicate")
                            return None
                    except PY_ERRORS:
                        pass
        if not cur["tq"] and kind == "m2m" and coll == "list" and mode in LAZY and is_tdup_op(op):
            cur["tq"] = any(pre_impl[o_side].get(x) == UNLOADED for x in members(ms.val[side][owner]))
        exc = ret = None
        try:
            ret = apply_impl(ctx, op)
        except PY_ERRORS as e:
            exc = e
        except (sa_exc.SQLAlchemyError, AssertionError, AttributeError, TypeError) as e:
            fail("raised", pre, op, "raised %s: %s" % (type(e).__name__, str(e)[:80]), hist_)
            return None
        m2 = ms.copy()
        m2.tdup_queued = cur["tq"]
        choice = None
        if op[0] == "coll" and op[3][0] in ("pop", "popitem") and exc is None:
            if op[3][0] == "popitem":
                choice = ret[0]
            elif ms.shape[side] == "set":
                choice = _names(ret)
        exp = None
        try:
            mret = m2.apply(op, choice)
        except PY_ERRORS as e:
            exp = type(e)
            m2 = ms.copy()
            m2.displaced, m2.touched = [], set()
            mret = None
        post = impl_view(ctx, in_memory)
        changed_far = any(s != side or n != owner for s, n in m2.touched)
        rec.case((cfgname, ms.key(), repr(op)), nontrivial=changed_far)
        # 1. error behaviour of the plain type
        if exp is not None and exc is None:
            fail("noraise", pre, op, "expected %s, returned %r" % (exp.__name__, ret), hist_)
            return None
        if exp is None and exc is not None:
            fail("raised", pre, op, "raised %s where the plain type succeeds" % type(exc).__name__, hist_)
            return None
        if exp is not None and not isinstance(exc, exp):
            fail("raised", pre, op, "raised %s, plain type raises %s" % (type(exc).__name__, exp.__name__), hist_)
            return None
        # documented: the previous value of an *unloaded* scalar reference is
        # not fetched when it is replaced (relationship.active_history=False;
        # one-to-one parent side: history deferred to flush), so the holder of
        # the previous value cannot be told in memory.  Tolerated, and nothing
        # is claimed about states below (the stale holder is "anyone's guess").
        skip = set()
        tainted = False
        tolerated_attrs = set()
        if not in_memory and mode not in AH:
            for s, x, old in m2.displaced:
                if pre_impl[s][x] != UNLOADED:
                    continue
                hs = RelModel.other(s)  # the previous value's holder side
                held = post[hs][old]
                tolerated_attrs.add((hs, old))
                if held != UNLOADED and x in members(held):
                    m2.val[hs][old] = held
                    skip.add((old, x) if s == "C" else (x, old))
                    tainted = True
                    rec.count("tolerated_stale_holder_of_unloaded_reference")
                elif held == UNLOADED and hs == "C":
                    # a many-to-one is later read from the identity map
                    # without a flush: would show the stale parent
                    tainted = True
        # 2. the property: both sides agree (loaded attributes)
        dis = RelModel.disagreements(post, skip)
        if dis:
            fail("disagree", pre, op, dis[0], hist_)
            return None
        if exp is not None and not in_memory:
            # an operation that fails on the plain type (ValueError ...) is not
            # a mutation; with unloaded far sides its remove event may already
            # have been queued (a later flush then fails or orphans the child:
            # reported as an observation, not claimed by this property).
            rec.count("failed_ops_on_persistent_objects_not_expanded")
            return None
        # 3. the mutation happened: sides equal the reference relation
        mv = m2.val
        for s in ("P", "C"):
            for n, v in post[s].items():
                if v == UNLOADED:
                    continue
                ref = mv[s][n]
                if s == side and n == owner and op[0] != "load":
                    ok = v == ref
                elif isinstance(ref, list):
                    ok = sorted(v) == sorted(ref)
                else:
                    ok = v == ref
                if not ok:
                    fail("differs", pre, op, "%s side of %s is %s, reference %s" % (s, n, render(v), render(ref)), hist_)
                    return None
                if isinstance(ref, (list, dict)):
                    mv[s][n] = v  # adopt implementation order
        if op[0] == "coll" and op[3][0] == "pop" and exc is None and ms.shape[side] != "set":
            if _names(ret) != mret:
                fail("differs", pre, op, "pop returned %s, reference %s" % (_names(ret), mret), hist_)
                return None
        rec.outcome((kind, coll, op[0], op[3][0] if op[0] == "coll" else None, tuple(m2.pairs()), exp.__name__ if exp else None))
        key = repr((cfgname, canon(ctx)))
        # 4. a scalar far side the mutation had to change but that is still
        # unloaded: read exactly that attribute now (the objects are not used
        # again) - a backref that did not fire shows as a disagreement here,
        # at the operation that caused it
        hidden = [
            (s, n)
            for s, n in sorted(m2.touched)
            if ms.shape[s] == "scalar" and post[s][n] == UNLOADED and (s, n) not in tolerated_attrs and (s != side or n != owner)
        ]
        if hidden:
            with ctx.sess.no_autoflush:  # the in-memory value, not what a flush would repair
                for s, n in hidden:
                    post[s][n] = _names(getattr(ctx.objs[n], w.p_attr if s == "P" else w.c_attr))
            rec.count("hidden_far_side_reads", len(hidden))
            dis = RelModel.disagreements(post, skip)
            if dis:
                fail("disagree", pre, op, dis[0], hist_)
                return None
        if key in bad_keys:
            return None  # this very state already failed its probes (reported once)
        is_new = key not in seen_keys
        if is_new:
            seen_keys.add(key)
            if not in_memory and not read_all_probe(ctx, m2, pre, op, hist_, skip, tainted):
                bad_keys.add(key)
                return None
            if not reload_probe(ctx, m2, pre, op, hist_, agreement_only=tainted):
                bad_keys.add(key)
                return None
            if changed_far:
                rec.sample(dict(config=cfgname, history=[op_text(w, h) for h in hist_], op=op_text(w, op), relation=[list(p) for p in m2.pairs()]), limit=3)
        if tainted:
            rec.count("states_below_unknown_old_value_not_expanded")
            return None
        return m2, key

    seen_keys = set()
    bad_keys = set()

    def read_all_probe(ctx, m2, pre, op, hist_, skip, tainted):
        """read every still-unloaded side (lazy load, autoflush on): what was
        queued for an unloaded side must come out agreeing"""
        view = {"P": {}, "C": {}}
        try:
            # child side first: a many-to-one is resolved from the in-memory
            # foreign key through the identity map (no flush), so it shows
            # what the operation left in memory; the collection loads that
            # follow autoflush first
            for s, names, attr in (("C", ctx.cn, w.c_attr), ("P", ctx.pn, w.p_attr)):
                for n in names:
                    view[s][n] = _names(getattr(ctx.objs[n], attr))
        except (sa_exc.SQLAlchemyError, AssertionError) as e:
            fail("flush", pre, op, "reading the unloaded sides raised %s: %s" % (type(e).__name__, str(e).split("\n")[0][:80]), hist_, "read")
            return False
        rec.count("read_all_probes")
        dis = RelModel.disagreements(view, skip)
        if dis:
            fail("disagree", pre, op, dis[0], hist_)
            return False
        if tainted:
            return True
        for s in ("P", "C"):
            for n, v in view[s].items():
                ref = m2.val[s][n]
                if sorted(members(v)) != sorted(members(ref)):
                    fail("differs", pre, op, "%s side of %s reads %s, reference %s" % (s, n, render(v), render(ref)), hist_, "hidden")
                    return False
        return True

    def reload_probe(ctx, m2, pre, op, hist_, agreement_only=False):
        """flush, expire everything, reload both sides from the database"""
        sess = ctx.sess
        if sess is None:
            ctx.engine = w.memory_engine()
            sess = ctx.sess = Session(ctx.engine)
            sess.add_all([ctx.objs[n] for n in ctx.pn + ctx.cn])
        rec.count("flush_reload_probes")
        try:
            sess.flush()
            sess.commit()
        except (sa_exc.SQLAlchemyError, AssertionError) as e:
            fail("flush", pre, op, "flush raised %s: %s" % (type(e).__name__, str(e).split("\n")[0][:80]), hist_, "flush")
            return False
        view = {"P": {}, "C": {}}
        for s, names, attr in (("P", ctx.pn, w.p_attr), ("C", ctx.cn, w.c_attr)):
            for n in names:
                view[s][n] = _names(getattr(ctx.objs[n], attr))
        dis = RelModel.disagreements(view)
        if dis:
            fail("reload-disagree", pre, op, "after flush+reload: " + dis[0], hist_)
            return False
        if agreement_only:
            return True
        for s in ("P", "C"):
            for n, v in view[s].items():
                ref = m2.val[s][n]
                if sorted(set(members(v))) != sorted(set(members(ref))):
                    fail("reload-differs", pre, op, "after flush+reload %s side of %s is %s, in memory before flush %s" % (s, n, render(v), render(ref)), hist_)
                    return False
        return True

    return step


def enabled_factory(cfg, mode, tier):
    kind, coll, style = cfg
    ops = alphabet(kind, coll, tier, mode)
    pn, cn = universe(kind, tier, mode)
    maxlen = max(len(pn), len(cn)) + 1

    def enabled(ms):
        out = []
        for op in ops:
            if op[0] == "sdel" and ms.val[op[1]][op[2]] is None:
                continue
            if op[0] == "coll" and op[3][0] == "pop" and len(op[3]) == 1 and ms.shape[op[1]] == "set" and len(ms.val[op[1]][op[2]]) > 1:
                continue  # arbitrary choice between object hashes: not deterministic
            if ms.shape[op[1]] == "list" and op[0] != "load":
                try:
                    new, _ = ms.primary(op)
                except PY_ERRORS:
                    if op[0] == "coll" and op[3][0] == "swap":
                        continue  # fails reading l[j], before anything is assigned: not a mutation
                    out.append(op)
                    continue
                if has_dups(new):
                    continue  # see module docstring: duplicates are outside the bound
            out.append(op)
        return out

    return enabled


DEPTH = {}  # debugging override {tier: depth}


def depth_for(tier, kind, mode):
    if tier in DEPTH:
        return DEPTH[tier]
    if kind == "o2o":  # 16-20 ops: deep
        return 4 if tier == "quick" else 6
    if mode in LAZY:  # every step pays lazy loads + autoflush
        return 2 if tier == "quick" else 3
    if mode == "pending" and tier == "quick":  # differs from transient only by the Session
        return 2
    return 3 if tier == "quick" else 4


def shards(tier, seed):
    out = []
    for cfg in CONFIGS:
        for mode in MODES:
            if mode == "lazy_ah" and cfg[0] == "m2m":  # no scalar side
                continue
            out.append([list(cfg), mode])
    for style in ("bp", "backref"):
        out.append(["dups", style])
    for style in ("bp", "backref"):
        out.append(["dups_m2m", style])
    return out


# ---------------------------------------------------------------- duplicates sub-world

DUP_BASES = (["c1", "c1"], ["c1", "c2", "c1"], ["c2", "c1", "c1"], ["c1", "c1", "c2"])


def dup_ops(base):
    """collection operations that take away exactly one of the two
    occurrences of c1 (the case the remove handler's has_dupes() test exists
    for)"""
    ops = [["remove", "c1"]]
    for i, n in enumerate(base):
        if n == "c1":
            ops.append(["delitem", i])
            ops.append(["delslice", [i, i + 1, None]])
            ops.append(["setitem", i, "c3"])
            ops.append(["setslice", [i, i + 1, None], ["c3"]])
    return ops


def dup_case(style, base, m, second, rec):
    """returns problem text or None"""
    w = world("o2m", "list", style)
    objs = {n: w.new(n) for n in ("p1", "p2", "c1", "c2", "c3")}
    p1, c1 = objs["p1"], objs["c1"]
    p1.cs = [objs[n] for n in base]
    names = list(base)
    if c1.p is not p1:
        return "after p1.cs = %s: c1.p is %r" % (render(base), c1.p)
    for step_no, mm in enumerate([m] + ([second] if second else [])):
        coll_apply(p1.cs, mm, objs.__getitem__)
        coll_apply(names, mm)
        got = [o.name for o in p1.cs]
        if got != names:
            return "p1.cs is %s, plain list gives %s" % (render(got), render(names))
        for n in ("c1", "c2", "c3"):
            inside = objs[n] in p1.cs
            par = objs[n].__dict__.get("p")
            if inside != (par is p1):
                return "%s %s p1.cs %s but %s.p is %s" % (n, "in" if inside else "not in", render(got), n, par.name if par is not None else None)
    return None


def run_dups(style, tier, rec):
    for base in DUP_BASES:
        for m in dup_ops(base):
            # second op: indexes refer to the list after the first op
            for second in [None] + dup_ops(_after(base, m)):
                rec.transition(1 if second is None else 2)
                rec.trace()
                key = (style, tuple(base), repr(m), repr(second))
                rec.case(key, nontrivial=True)
                try:
                    problem = dup_case(style, base, m, second, rec)
                except PY_ERRORS:
                    continue
                rec.state(("dups", tuple(base), repr(m), repr(second)))
                rec.outcome(("dups", tuple(base), m[0], second and second[0], problem is None))
                if problem:
                    t = "p1.cs = %s; p1.cs: %s%s" % (render(base), m, ("; then %s" % (second,)) if second else "")
                    rec.violation(
                        "dups o2m/list: %s -> %s @ o2m/list/%s/dups" % (t, problem, style),
                        problem,
                        dict(dups=True, style=style, base=base, m=m, second=second),
                        kind=("dups", m[0], second is not None),
                    )
    # transient duplicates: the list is duplicate-free before and after the
    # statement, which is a sequence of item assignments (tuple swap,
    # extended-slice assignment of a permutation); optionally followed by a
    # removal or another such statement.  In-memory agreement after each.
    for base in TDUP_BASES:
        for m in tdup_ops(base):
            after = _after(base, m)
            for second in [None] + tdup_ops(after) + [["remove", n] for n in after] + [["delitem", i] for i in range(len(after))]:
                rec.transition(1 if second is None else 2)
                rec.trace()
                rec.case((style, "tdup", tuple(base), repr(m), repr(second)), nontrivial=True)
                problem = dup_case(style, base, m, second, rec)
                rec.state(("tdups", tuple(base), repr(m), repr(second)))
                rec.outcome(("tdups", tuple(base), m[0], second and second[0], problem is None))
                if problem:
                    t = "p1.cs = %s; p1.cs: %s%s" % (render(base), m, ("; then %s" % (second,)) if second else "")
                    rec.violation(
                        "dups o2m/list: %s -> %s @ o2m/list/%s/dups" % (t, problem, style),
                        problem,
                        dict(dups=True, style=style, base=base, m=m, second=second),
                        kind=("tdups", m[0], second is not None),
                    )
    swap_hasparent_probe(style, rec)
    # outside the bound (counted, no verdict): what the other mutations do
    # while a child is listed twice
    w = world("o2m", "list", style)
    n_out = 0
    for what in ("c1.p = None", "c1.p = p2", "p1.cs.pop()", "p1.cs.clear()", "p2.cs.append(c1)"):
        objs = {n: w.new(n) for n in ("p1", "p2", "c1")}
        p1, p2, c1 = objs["p1"], objs["p2"], objs["c1"]
        p1.cs = [c1, c1]
        exec(what, dict(objs))
        if (c1 in p1.cs) != (c1.p is p1) or (c1 in p2.cs) != (c1.p is p2):
            n_out += 1
    rec.count("dup_mutations_outside_bound_that_disagree", n_out)


def _after(base, m):
    names = list(base)
    coll_apply(names, m)
    return names


TDUP_BASES = (["c1", "c2"], ["c1", "c2", "c3"])


def tdup_ops(names):
    ops = [["swap", i, j] for i in range(len(names)) for j in range(i + 1, len(names))]
    if len(names) > 1:
        ops.append(["setslice", [None, None, -1], list(names)])  # in-place reversal
    if len(names) == 3:
        ops.append(["setslice", [0, None, 2], [names[2], names[0]]])
    return ops


# One-to-many, persistent objects: the remove event of the transient duplicate
# clears the member's hasparent flag (CollectionAttributeImpl.fire_remove_event
# -> sethasparent(False)) although the member stays in the list.  When the
# member had been moved over from another parent in the same flush, that
# parent's "deleted" processing may then set its foreign key to NULL (it does
# when the unit of work happens to process the new parent first - the order
# of a set of states): in memory the two sides agree, after flush + reload the
# member is gone from both.  Reproduced stand-alone and reported.  The two
# sides never disagree with each other and the flush outcome depends on that
# set order, so what is measured here (evidence counter, no verdict) is the
# deterministic root cause: a member of the list whose hasparent flag is off.


def swap_hasparent_probe(style, rec, report=True):
    from sqlalchemy.orm.attributes import instance_state

    w = world("o2m", "list", style)
    n = 0
    for m in tdup_ops(["c1", "c2"]):
        objs = {x: w.new(x) for x in ("p1", "c1", "c2")}
        p1 = objs["p1"]
        p1.cs = [objs["c1"], objs["c2"]]
        coll_apply(p1.cs, m, objs.__getitem__)
        if not all(w.P.cs.impl.hasparent(instance_state(c)) for c in p1.cs):
            n += 1
    rec.count("o2m_transient_duplicate_statements_leaving_a_member_without_hasparent_flag", n)
    if n and report:
        rec.violation(
            O2M_HASPARENT_SIG,
            "p1.cs = [c1,c2] (transient objects, %s); after p1.cs[0], p1.cs[1] = p1.cs[1], p1.cs[0] or p1.cs[::-1] = [c1,c2] "
            "a member of p1.cs has P.cs.impl.hasparent(state) False (%d of %d statements)" % (style, n, len(tdup_ops(["c1", "c2"]))),
            dict(dups="o2m_hasparent", style=style),
            kind="o2m_hasparent",
        )
    return n


# -- many-to-many: a list that names a member twice is mirrored by a far side
# that names the owner twice (every append appends, every remove removes one)

M2M_DUP_STARTS = ("assign", "appends")


def m2m_dup_ops(names):
    """every single-slot mutation of p1.cs (by value, by index, by slice, item
    and slice assignment, tuple swap, pop) and the removal from the far side"""
    ops = []
    for n in dict.fromkeys(names):
        ops.append(["remove", n])
        ops.append(["far_remove", n])
    for i in range(len(names)):
        ops.append(["delitem", i])
        ops.append(["delslice", [i, i + 1, None]])
        ops.append(["setitem", i, "c3"])
        ops.append(["setslice", [i, i + 1, None], ["c3"]])
        for j in range(i + 1, len(names)):
            ops.append(["swap", i, j])
    if names:
        ops.append(["pop"])
    if len(names) > 1:
        ops.append(["setslice", [None, None, -1], list(names)])  # in-place reversal
    return ops


def m2m_dup_case(style, start, base, hist_):
    """returns (problem text or None, names after the history)"""
    w = world("m2m", "list", style)
    objs = {n: w.new(n) for n in ("p1", "p2", "c1", "c2", "c3")}
    p1 = objs["p1"]
    if start == "assign":
        p1.cs = [objs[n] for n in base]
    else:
        for n in base:
            p1.cs.append(objs[n])
    names = list(base)

    def facts():
        got = [o.name for o in p1.cs]
        if got != names:
            return "p1.cs is %s, plain list gives %s" % (render(got), render(names))
        for p in ("p1", "p2"):
            for n in ("c1", "c2", "c3"):
                inside = any(o is objs[n] for o in objs[p].cs)
                back = any(o is objs[p] for o in objs[n].ps)
                if inside != back:
                    return "%s %s %s.cs %s but %s.ps is %s" % (
                        n, "in" if inside else "not in", p, render([o.name for o in objs[p].cs]), n, render([o.name for o in objs[n].ps])
                    )
        return None

    problem = facts()
    if problem:
        return "after the start: " + problem, names
    for m in hist_:
        if m[0] == "far_remove":
            objs[m[1]].ps.remove(p1)
            names.remove(m[1])
        else:
            coll_apply(p1.cs, m, objs.__getitem__)
            coll_apply(names, m)
        problem = facts()
        if problem:
            return problem, names
    return None, names


def run_dups_m2m(style, tier, rec):
    depth = 2 if tier == "quick" else 3
    for start in M2M_DUP_STARTS:
        for base in DUP_BASES:
            frontier = [[]]
            for d in range(1, depth + 1):
                nxt = []
                for h in frontier:
                    names = list(base)
                    for m in h:
                        if m[0] == "far_remove":
                            names.remove(m[1])
                        else:
                            coll_apply(names, m)
                    for m in m2m_dup_ops(names):
                        hh = h + [m]
                        rec.transition()
                        rec.trace()
                        key = (style, start, tuple(base), repr(hh))
                        problem, after = m2m_dup_case(style, start, base, hh)
                        # non-trivial: the op was performed while a member was listed twice
                        rec.case(key, nontrivial=has_dups(names))
                        rec.outcome(("dups_m2m", m[0], tuple(after), problem is None))
                        if problem:
                            t = "%s; %s" % (
                                "p1.cs = %s" % render(base) if start == "assign" else "p1.cs.append() x %s" % render(base),
                                "; ".join(str(x) for x in hh),
                            )
                            rec.violation(
                                "dups m2m/list: %s -> %s @ m2m/list/%s/dups" % (t, problem, style),
                                problem,
                                dict(dups="m2m", style=style, start=start, base=base, history=hh),
                                kind=("dups_m2m", m[0], d),
                            )
                            continue
                        # no dedupe: the far side's order is part of the state,
                        # every history up to the depth is executed
                        rec.state(("dups_m2m", start, tuple(base), repr(hh)))
                        nxt.append(hh)
                frontier = nxt


def run_shard(shard, tier, rec):
    if shard[0] == "dups":
        run_dups(shard[1], tier, rec)
        return
    if shard[0] == "dups_m2m":
        run_dups_m2m(shard[1], tier, rec)
        return
    cfg, mode = tuple(shard[0]), shard[1]
    gc.disable()
    try:
        step = make_step(rec, cfg, mode, tier)
        ms = initial_model(cfg, mode, tier)
        ctx = build(cfg, mode, tier, ())
        key = repr(("%s/%s/%s/%s" % (cfg[0], cfg[1] or "-", cfg[2], mode), canon(ctx)))
        ctx.close()
        d = hist.explore(rec, [((), ms, key)], enabled_factory(cfg, mode, tier), step, depth=depth_for(tier, cfg[0], mode))
        rec.count("depth_reached %s/%s/%s/%s" % (cfg[0], cfg[1] or "-", cfg[2], mode), d)
    finally:
        gc.enable()
        gc.collect()


def finish(tier, total):
    """fold the per-configuration signatures of one root cause into one"""
    groups = {}
    order = []
    for v in total.violations:
        root, _, cfgname = v["sig"].rpartition(" @ ")
        if not root:
            root, cfgname = v["sig"], ""
        if root not in groups:
            groups[root] = dict(v, cfgs=[])
            order.append(root)
        if cfgname:
            groups[root]["cfgs"].append(cfgname)
    out = []
    for root in order:
        g = groups[root]
        cfgs = sorted(set(g.pop("cfgs")))
        g["sig"] = "%s [in %s]" % (root, ", ".join(cfgs)) if cfgs else root
        out.append(g)
    total.violations[:] = out
    return None


def replay(case):
    from ..core import Rec, StopShard

    rec = Rec(ID)
    if case.get("dups") == "o2m_hasparent":
        return [(O2M_HASPARENT_SIG, "hasparent flag off")] if swap_hasparent_probe(case["style"], rec, report=False) else []
    if case.get("dups") == "m2m":
        problem, _ = m2m_dup_case(case["style"], case["start"], case["base"], case["history"])
        return [("dups m2m/list: %s" % problem, problem)] if problem else []
    if case.get("dups"):
        problem = dup_case(case["style"], case["base"], case["m"], case["second"], rec)
        return [("dups o2m/list: %s" % problem, problem)] if problem else []
    cfg, mode, tier = tuple(case["cfg"]), case["mode"], case.get("tier", "quick")
    step = make_step(rec, cfg, mode, tier)
    ms = initial_model(cfg, mode, tier)
    gc.disable()
    try:
        hist_ = []
        for op in case["history"]:
            out = step(tuple(hist_), ms, op)
            if out is None:
                break
            ms = out[0]
            hist_.append(op)
        else:
            step(tuple(hist_), ms, case["op"])
    except StopShard:
        pass
    finally:
        gc.enable()
    return [(v["sig"], v["detail"]) for v in rec.violations]
