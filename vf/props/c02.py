"""C02 the compiled-statement cache is transparent (engine H over the stmtgen universe + the typed shapes of c02_types).

Routes compared (the property names them): the same statement, freshly built,
executed (1) on an engine created with ``query_cache_size=0``, (2) with the
``compiled_cache=None`` execution option, (3) through a shared cache after every
enumerated history of other statements -- cold, warm with structurally similar
statements, after eviction from a one-entry LRU, through the engine's own LRU
(``query_cache_size=500`` and ``2``).  The observation is what
``before_cursor_execute`` saw (SQL text, parameters handed to the cursor,
executemany flag) for *every* cursor execution of the step (ORM eager loaders
included) plus the rows / ORM object dumps / error class.  Plus the implication
"equal cache key => equal SQL, bind names, bind types, result-column types, and
a compiled form populated by one statement hands out the *other* statement's
parameter values" on five dialects.

Typed shapes (``c02_types``): the stmtgen family only ever uses three fixed type objects, so the part of the cache
key that comes from ``TypeEngine._static_cache_key`` (= the type's constructor arguments) was constant.  Four more
shapes attach a type to an otherwise identical SELECT by CAST / type_coerce() / bound literal / ad-hoc column(), and
the type varies over 10 classes (Numeric Float String Enum Boolean DateTime Interval LargeBinary, a user TypeDecorator and a
user UserDefinedType with cache_ok=True) x each of its first two constructor arguments over {left out (None/default),
falsy (0 / "" / False), truthy}.  All ordered pairs within such a shape go through the same explorer and oracle, and
the whole product through the key-implication check on 5 dialects.

Failing steps are minimised before they are reported (shortest history, plain dict cache if it suffices, every
feature deviation reset to base while the same part of the observation keeps differing), so one root cause gives
one signature ``cached <SQL|parameters|rows|outcome> differ from uncached: exec <stmt> after [<history>] cache=<kind>``.
Generated (anonymous) bind names are by design not part of the cache key; the implication check compares SQL and
bind names up to a consistent renaming of exactly those names.

Mutations caught (each alone in a private copy, ``VF_REPO=/tmp/wt-stmt1 ./check C02 --no-evidence``; the clean
tree gives only the reported known-finding signatures, each mutation adds new ones):
  M1  sql/selectable.py  Join._traverse_internals: ("isouter", dp_boolean) dropped        -> +7  (warm-cache SQL of join[join=outer] after join[])
  M2  sql/elements.py    BindParameter._gen_cache_key: literal_execute dropped from key   -> +33
  M3b orm/strategy_options.py _LoadElement._traverse_internals: "strategy" dropped        -> +55 (selectin/joined/... collapse)
  M3c orm/strategy_options.py _LoadElement._traverse_internals: "_extra_criteria" dropped -> +7  (A.bs.and_(...) vs A.bs)
  M4  sql/elements.py    _compile_w_cache: tuple(column_keys) dropped from the cache key  -> +8  (executemany with other keys)
  M5b sql/elements.py    Label._cache_key_traversal: "name" dropped                       -> +32
  M6  sql/elements.py    _FrameClause._traverse_internals: "upper_bind" dropped           -> +4  (cached form hands the wrong ROWS/RANGE bound)
  M8  sql/elements.py    _compile_w_cache: bool(schema_translate_map) dropped from key    -> +2  (sel[exec_opt=schema_translate] vs sel[])
  S1  sql/type_api.py    TypeEngine._static_cache_key: falsy constructor arguments dropped (seeded C02-a:
      ``if self.__dict__.get(k)`` instead of ``is not None``)                              -> +60 or so, minimal ones:
      "cached rows differ from uncached: exec tcast[a2=0] after [tcast[]] cache=dict" (Numeric(scale=0) served by Numeric()),
      "equal cache key but different SQL: tcast[a1=10] vs tcast[a1=10,a2=0] on sqlite,postgresql,mysql,mssql,oracle"
  S2  sql/sqltypes.py    Enum._static_cache_key override removed (= the tree before the Enum fix: key ignores values,
      class, name, native_enum, validate_strings)                                         -> +7 (tbind/tcast/tcoerce/tcol[ty="Enum"...])
Not effective (equivalent mutants, the key is redundant there): "path" dropped from _LoadElement._traverse_internals
(Load.path still distinguishes), "name" dropped from Label._traverse_internals (Label has its own _cache_key_traversal).
"""
from __future__ import annotations

import re
import warnings

from sqlalchemy import util as sa_util
from sqlalchemy.sql.elements import _anonymous_label

from . import c02_types as sg  # stmtgen + the "typed" shapes (same API, dispatching on the shape name)

ID = "C02"
LEVEL = "model_checking"
META = dict(
    engine="H",
    technique="explicit-state exploration of execution histories over a shared compiled cache, differential against "
    "the uncached route; exhaustive key-collision implication check on 5 dialects",
    design_ref="DESIGN.md §5 C02",
    level_text="Every statement of the stmtgen family (20 base shapes x feature table, all assignments within d feature "
    "deviations of the base: Core select/join/subquery/CTE/set-op/text/33 expression constructs/DML+RETURNING/upsert/"
    "executemany, statement-level params(), ORM entity selects with loader options and paths, legacy Query, "
    "ORM-enabled DML; plus 4 typed shapes: CAST / type_coerce / bound literal / column() of a type that varies over 10 "
    "type classes x its first two constructor arguments over {left out, falsy, truthy}) is executed after every history "
    "of other family members on a shared cache whose state is restored exactly (public compiled_cache option): all "
    "ordered pairs of the whole d=1 family and, within each typed shape, all ordered pairs (first statement with one "
    "literal / bound value, second with the other) of the full type-argument product (quick), plus all ordered pairs "
    "within a shape at d=2, all triples within a shape at d=1 and all ordered pairs of the full typed product incl. "
    "both literals (thorough), each also on a one-entry LRU with the first statement re-executed after eviction, plus "
    "long rotated histories through the engine's own LRU (sizes 500 and 2). Each step's cursor-level observation must "
    "equal the one obtained with query_cache_size=0 and with compiled_cache=None. Every pair of family members with "
    "equal cache keys is compiled independently on 5 dialects and must agree in SQL, bind names/types/flags, "
    "result-column types, and in the parameters produced when one's compiled form is fed the other's extracted "
    "parameters (before and after post-compile expansion).",
    level_note="Trusted: the harness (observation = before_cursor_execute log + row reprs + ORM __dict__ dumps). Rows "
    "are compared on SQLite only; the other dialects at compile/parameter level. Histories longer than 3 are covered "
    "only by the rotated long histories, statements outside the feature table not at all. Typed shapes: pairs only "
    "within a shape, not mixed into the global family or the long histories.",
    rule="case = (history of statement ids, cache kind); state = (cache kind, statements that populated entries still "
    "present); transition = one execution, each compared with the uncached observation (trace validated); non-trivial "
    "= the step was served at least one cache hit from an entry populated by an earlier, separately built statement "
    "(for the implication: an unordered pair with equal cache keys)",
    assumptions=[
        "SQLite 3.40 executes; postgresql/mysql/mssql/oracle are compared at SQL-string and parameter level",
        "single-threaded use of one engine",
    ],
    bounds=dict(
        quick="family d=1, all ordered pairs (dict cache) + within a shape (s1,s2,s1) on a 1-entry LRU; 12 rotated long "
        "histories x 2 passes on engine caches 500 and 2; key implication over all pairs of the d=2 family x 5 dialects; "
        "typed shapes: 4 shapes x 72 x 72 ordered pairs (dict cache) + key implication over the full product (144 per shape)",
        thorough="quick + family d=2 all ordered pairs within a shape (dict cache) + d=1 all triples within a shape; "
        "key implication over all pairs of the d=3 family (sel: d=2) x 5 dialects; typed shapes: 4 x 144 x 144 ordered "
        "pairs (dict cache) each also as (s1,s2,s1) on a 1-entry LRU",
    ),
)
SHARD_TIMEOUT = dict(quick=300, thorough=2400)
LONG_ROTATIONS = 12

_ADDR = re.compile(r"0x[0-9a-fA-F]+")


def _scrub(out):
    if out[0] == "error":
        return ("error", out[1], _ADDR.sub("0x?", out[2]))
    return out


class World:
    """engines of one process: uncached baseline, cache-option carrier"""

    def __init__(self):
        warnings.simplefilter("ignore")
        self.e0 = sg.make_engine(query_cache_size=0)
        self.e1 = sg.make_engine(query_cache_size=500)
        self.base = {}
        self.cold = {}
        self.known_bad = {}

    def baseline(self, rec, stmt):
        """observation with caching disabled, both ways (query_cache_size=0 engine and
        compiled_cache=None option); memoised per statement id"""
        key = sg.sid(*stmt)
        if key in self.base:
            return self.base[key]
        o1 = _obs(self.e0, stmt, sg.ENGINE_CACHE)
        o2 = _obs(self.e1, stmt, None)
        rec.transition(2)
        if o1 != o2:
            rec.violation(
                "uncached routes disagree (%s): exec %s" % (_diff_field(o1, o2), key),
                "query_cache_size=0:   %s\ncompiled_cache=None: %s" % (_short(o1)[:1800], _short(o2)[:1800]),
                dict(kind="baseline", stmt=key),
            )
        self.base[key] = o1
        rec.outcome((key, o1))
        return o1

    def cold_run(self, rec, stmt):
        """(observation, number of cache entries created) of stmt on an empty dict cache"""
        key = sg.sid(*stmt)
        if key not in self.cold:
            c = {}
            self.cold[key] = (_obs(self.e1, stmt, c), len(c))
        return self.cold[key]


def _obs(engine, stmt, cache):
    built = sg.build_exec(*stmt)
    log, out = sg.observe(engine, built, cache)
    if any("0x" in p for _, p, _ in log):  # repr of a memoryview parameter (LargeBinary) carries its address
        log = [(s, _ADDR.sub("0x?", p), m) for s, p, m in log]
    return (tuple(log), _scrub(out))


def _diff_field(exp, got):
    """which part of the observation differs first: sql / params / rows"""
    elog, eout = exp
    glog, gout = got
    if [x[0] for x in elog] != [x[0] for x in glog]:
        return "SQL"
    if elog != glog:
        return "parameters"
    if eout[0] != gout[0] or eout[0] == "error":
        return "outcome"
    return "rows"


def _short(obs):
    log, out = obs
    return "cursor=%r result=%r" % ([(s.replace("\n", " "), p) for s, p, _ in log], out)


def _lru(capacity, items=()):
    c = sa_util.LRUCache(capacity)
    for k, v in items:
        c[k] = v
    return c


def _items(cache):
    """LRU content, least recently used first (deterministic: single thread)"""
    return [(k, cache._data[k][1]) for k in sorted(cache._data, key=lambda k: cache._data[k][2][0])]


# ------------------------------------------------- failure analysis (cold path: only on a difference)

CACHE_KINDS = ("dict", "lru1", "engine500", "engine2")


def run_fresh(w, kind, stmts):
    """observation of the last statement of ``stmts`` executed in order on a fresh cache of that kind"""
    eng, cache = w.e1, None
    if kind == "dict":
        cache = {}
    elif kind == "lru1":
        cache = _lru(1)
    else:
        eng, cache = sg.make_engine(query_cache_size=int(kind[6:])), sg.ENGINE_CACHE
    got = None
    for st in stmts:
        got = _obs(eng, st, cache)
    if eng is not w.e1:
        eng.dispose()
    return got


def failing(w, rec, kind, stmts):
    """None, or (field, uncached observation, cached observation) for the last statement of the history"""
    try:
        exp = w.baseline(rec, stmts[-1])
        got = run_fresh(w, kind, stmts)
    except sg.NotConstructible:
        return None
    if got == exp:
        return None
    return _diff_field(exp, got), exp, got


def minimise(w, rec, kind, stmts, field):
    """shrink a failing history: shortest failing suffix/subsequence first, simplest cache kind, then
    every feature deviation of every statement reset to its base value -- as long as the same part of
    the observation (SQL / parameters / rows / outcome) keeps differing"""
    stmts = list(stmts)
    last = stmts[-1]

    def still(k, c):
        r = failing(w, rec, k, c)
        return r is not None and r[0] == field

    cands, seen = [[last]], set()
    for h in stmts[:-1]:
        if sg.sid(*h) not in seen:
            seen.add(sg.sid(*h))
            cands.append([h, last])
    found = None
    for k in (("dict",) if kind == "dict" else ("dict", kind)):  # the cheap, simplest cache kind first
        for c in cands:
            if (len(c) < len(stmts) or k != kind) and still(k, c):
                found = (k, c)
                break
        if found:
            break
    if found:
        kind, stmts = found
    elif kind != "dict" and still("dict", stmts):
        kind = "dict"
    if len(stmts) > 1 and len(set(st[0] for st in stmts)) == 1:
        # deviations shared by all statements of the history first
        shape = stmts[0][0]
        b0 = sg.base(shape)
        for f in list(b0):
            vals = set(repr(st[1][f]) for st in stmts)
            if len(vals) == 1 and stmts[0][1][f] != b0[f]:
                t = [(shape, dict(st[1], **{f: b0[f]})) for st in stmts]
                if all(sg.valid(shape, x[1]) for x in t) and still(kind, t):
                    stmts = t
    for i in range(len(stmts) - 1, -1, -1):
        shape, feats = stmts[i]
        b0 = sg.base(shape)
        for f in list(feats):
            if stmts[i][1][f] == b0[f]:
                continue
            trial = dict(stmts[i][1])
            trial[f] = b0[f]
            if not sg.valid(shape, trial):
                continue
            t = list(stmts)
            t[i] = (shape, trial)
            if still(kind, t):
                stmts = t
    return kind, stmts


def signature(kind, stmts, field):
    ids = [sg.sid(*s) for s in stmts]
    return "cached %s differ from uncached: exec %s after [%s] cache=%s" % (field, ids[-1], ", ".join(ids[:-1]), kind)


def report(rec, w, kind, stmts, got):
    """called when the last statement of the history ``stmts`` was observed as ``got`` != baseline"""
    last = stmts[-1]
    last_id = sg.sid(*last)
    if got in w.known_bad.setdefault(last_id, []):
        rec.count("failing_steps_repeating_an_already_reported_wrong_observation")
        return
    w.known_bad[last_id].append(got)
    field0 = _diff_field(w.baseline(rec, last), got)
    if w.cold_run(rec, last)[0] == got:
        # the same wrong observation already on an empty dict cache: that is the minimal history
        kind2, st2 = minimise(w, rec, "dict", [last], field0)
    else:
        kind2, st2 = minimise(w, rec, kind, stmts, field0)
    res = failing(w, rec, kind2, st2)
    if res is None:  # not reproducible from scratch: report the original, unminimised history
        kind2, st2 = kind, list(stmts)
        exp = w.baseline(rec, last)
        res = (_diff_field(exp, got), exp, got)
        rec.note("a failing step did not reproduce when its history was re-run from an empty cache")
    field, exp, got2 = res
    rec.violation(
        signature(kind2, st2, field),
        "observed first as: %s\nuncached: %s\ncached:   %s" % (signature(kind, stmts, field), _short(exp)[:1700], _short(got2)[:1700]),
        dict(kind="hist", cache=kind2, history=[sg.sid(*s) for s in st2]),
    )


# ------------------------------------------------------------------ shards


def shards(tier, seed):
    out = []
    parts = 48
    for p in range(parts):
        out.append(("pairs", 1, None, p, parts))
    for r in range(LONG_ROTATIONS):
        out.append(("long", 500, r))
        out.append(("long", 2, r))
    tparts = 4 if tier == "quick" else 16
    for sh in sg.TSHAPES:
        for p in range(tparts):
            out.append(("tpairs", sh, p, tparts))
        out.append(("impl", sh, 1))  # a typed shape's family is its full product whatever d is
    if tier == "quick":
        for sh in sg.SHAPES:
            out.append(("impl", sh, 2))
    else:
        for sh in sg.SHAPES:
            n = len(list(sg.neighbours(sh, 2)))
            parts2 = max(1, (n * n) // 12000)
            for p in range(parts2):
                out.append(("pairs", 2, sh, p, parts2))
            n1 = len(list(sg.neighbours(sh, 1)))
            tparts = max(1, (n1 ** 3) // 15000)
            for p in range(tparts):
                out.append(("triples", sh, p, tparts))
            out.append(("impl", sh, 2 if sh == "sel" else 3))
    return out


# --------------------------------------------------------- history shards


def _step(rec, w, hist, stmt, cache, kind):
    """execute stmt on the given cache state (reached by ``hist``); compare with the uncached observation"""
    exp = w.baseline(rec, stmt)
    got = _obs(w.e1, stmt, cache)
    rec.transition()
    rec.trace()
    if got != exp:
        report(rec, w, kind, hist + [stmt], got)


def _explore_pairs(rec, w, firsts, seconds, lru_too):
    """every history (s1) and (s1, s2), s1 in firsts, s2 in seconds, on a plain dict cache restored exactly to the
    state {s1}; where ``lru_too(s1, s2)``: also (s1, s2, s1) on a one-entry LRU.  Returns (#pairs, #lru histories)"""
    npairs = nlru = 0
    for s1 in firsts:
        id1 = sg.sid(*s1)
        # exact histories on a plain dict cache: (s1), then (s1, s2) for every s2 from the restored state {s1}
        cache = {}
        _step(rec, w, [], s1, cache, "dict")
        snap = list(cache.items())
        rec.state(("dict", id1))
        lsnap = None
        for s2 in seconds:
            id2 = sg.sid(*s2)
            c2 = dict(snap)
            _step(rec, w, [s1], s2, c2, "dict")
            added = len(c2) - len(snap)
            # served from an entry of s1 <=> the step created fewer entries than it does on an empty cache
            hit = added < w.cold_run(rec, s2)[1]
            rec.case(("dict", id1, id2), nontrivial=hit)
            if hit:
                rec.count("steps_served_from_an_entry_of_the_previous_statement")
                if id1 != id2:
                    rec.count("...of_a_different_family_member")
                    if (npairs % 97) == 0:
                        rec.sample(dict(history=[id1, id2], cache="dict", served_from_entry_of=id1, cursor=[list(x) for x in w.baseline(rec, s2)[0]][:2]))
            rec.state(("dict", id1, id2 if added else None, len(c2)))
            npairs += 1
            if not lru_too(s1, s2):
                continue
            # one-entry LRU: s1, s2 (evicts s1's entry unless it hits), then s1 again
            if lsnap is None:
                lru = _lru(1)
                _step(rec, w, [], s1, lru, "lru1")
                lsnap = _items(lru)
            l2 = _lru(1, lsnap)
            _step(rec, w, [s1], s2, l2, "lru1")
            _step(rec, w, [s1, s2], s1, l2, "lru1")
            rec.state(("lru1", id1, id2, len(l2)))
            rec.case(("lru1", id1, id2, id1), nontrivial=not hit)
            nlru += 1
    return npairs, nlru


def run_pairs(shard, tier, rec):
    _, d, shape, part, parts = shard
    w = World()
    fam = sg.family(d, [shape] if shape else None)
    firsts = [s for i, s in enumerate(fam) if i % parts == part]
    # the eviction histories are run on the d=1 family, within a shape
    npairs, nlru = _explore_pairs(rec, w, firsts, fam, lambda s1, s2: s1[0] == s2[0] and d == 1)
    rec.count("ordered_pairs_d%d%s" % (d, "_within_shape" if shape else ""), npairs)
    rec.count("lru1_histories_s1_s2_s1_within_shape", nlru)


def run_tpairs(shard, tier, rec):
    """the typed shapes (c02_types): same shape, the type's constructor arguments vary over {left out, falsy, truthy}.
    quick: all ordered pairs (s1 with the first literal, s2 with the second literal: every hit has to hand over the
    parameter values of s2) on a dict cache; thorough: all ordered pairs of the full product, plus the 1-entry LRU"""
    _, shape, part, parts = shard
    w = World()
    fam = sg.family(1, [shape])
    if tier == "quick":
        firsts = [s for s in fam if s[1]["lit"] == sg.LITS[0]]
        seconds = [s for s in fam if s[1]["lit"] == sg.LITS[1]]
    else:
        firsts = seconds = fam
    firsts = [s for i, s in enumerate(firsts) if i % parts == part]
    npairs, nlru = _explore_pairs(rec, w, firsts, seconds, lambda s1, s2: tier != "quick")
    rec.count("ordered_pairs_typed_within_shape", npairs)
    rec.count("lru1_histories_s1_s2_s1_typed", nlru)


def run_triples(shard, tier, rec):
    _, shape, part, parts = shard
    w = World()
    fam = sg.family(1, [shape])
    n = 0
    for i1, s1 in enumerate(fam):
        if i1 % parts != part:
            continue
        id1 = sg.sid(*s1)
        c1 = {}
        _step(rec, w, [], s1, c1, "dict")
        snap1 = list(c1.items())
        for s2 in fam:
            id2 = sg.sid(*s2)
            c2 = dict(snap1)
            _step(rec, w, [s1], s2, c2, "dict")
            snap2 = list(c2.items())
            for s3 in fam:
                id3 = sg.sid(*s3)
                c3 = dict(snap2)
                _step(rec, w, [s1, s2], s3, c3, "dict")
                hit = len(c3) - len(snap2) < w.cold_run(rec, s3)[1]
                rec.case(("dict3", id1, id2, id3), nontrivial=hit)
                rec.state(("dict3", id1, id2 if len(snap2) > len(snap1) else None, id3 if len(c3) > len(snap2) else None))
                n += 1
    rec.count("ordered_triples_d1_within_shape", n)


def run_long(shard, tier, rec):
    """rotated long histories through the engine's own LRU cache (create_engine(query_cache_size=N))"""
    _, size, r = shard
    kind = "engine%d" % size
    w = World()
    fam = sg.family(1)
    n = len(fam)
    eng = sg.make_engine(query_cache_size=size)
    rots = LONG_ROTATIONS
    for r in (r,):
        eng.clear_compiled_cache()
        start = (r * n) // rots
        order = fam[start:] + fam[:start]
        if r % 2:
            order = list(reversed(order))
        for pas in (0, 1):
            for i, s in enumerate(order):
                exp = w.baseline(rec, s)
                got = _obs(eng, s, sg.ENGINE_CACHE)
                rec.transition()
                rec.trace()
                rec.case(("long", size, r, pas, sg.sid(*s)), nontrivial=pas == 1)
                if got != exp:
                    hist = order[:i] if pas == 0 else order + order[:i]
                    # drop repetitions, keep first occurrences: candidates for the minimiser
                    seen, h2 = set(), []
                    for h in hist:
                        k = sg.sid(*h)
                        if k not in seen:
                            seen.add(k)
                            h2.append(h)
                    report(rec, w, kind, (h2 if failing(w, rec, kind, h2 + [s]) else hist) + [s], got)
            rec.state(("long", size, r, pas, len(eng._compiled_cache)))
    eng.dispose()


# ------------------------------------------------------ implication shards


def _stmt_for_key(built):
    s = built.stmt
    if built.route == "query":
        s = s._statement_20()
    return s


def _typesig(t):
    return "%s|%r" % (type(t).__name__, t)


def _renamer(comp, only_anon):
    """(rename(text), {name: new}) replacing generated bind names by their position in bind_names.

    Generated ("anonymous") bind names such as ``x_1`` / ``param_1`` are by design not part of the cache key
    (cache_key.py ANON_NAME): they are compared up to consistent renaming.  Explicit names are kept."""
    mapping = {}
    for i, (bp, name) in enumerate(comp.bind_names.items()):
        if not only_anon or isinstance(bp.key, _anonymous_label):
            mapping[name] = "$%d" % i
    if not mapping:
        return (lambda t: t), mapping
    pats = []
    tmpl = comp.bindtemplate
    alt = "|".join(re.escape(n) for n in sorted(mapping, key=len, reverse=True))
    if "%(name)s" in tmpl:
        pre, suf = (tmpl % {"name": "\0"}).split("\0")
        pats.append(re.compile("(%s)(%s)((?:_\\d+)*)(%s)" % (re.escape(pre), alt, re.escape(suf))))
    pats.append(re.compile("(POSTCOMPILE_)(%s)()(\\]|~~)" % alt))

    def rename(text):
        for p_ in pats:
            text = p_.sub(lambda m: m.group(1) + mapping[m.group(2)] + m.group(3) + m.group(4), text)
        return text

    return rename, mapping


def _fingerprint(comp):
    """everything of an independently compiled form that a cache hit would silently substitute"""
    rename, mapping = _renamer(comp, True)
    binds = []
    for bp, name in comp.bind_names.items():
        binds.append((mapping.get(name, name), _typesig(bp.type), bool(bp.literal_execute), bool(bp.expanding),
                      bp in comp.literal_execute_params, bp in comp.post_compile_params))
    rcols = []
    for rc in comp._result_columns or ():
        rcols.append((rc[0], _typesig(rc[3])))
    return (
        rename(str(comp)),
        tuple(mapping.get(n, n) for n in comp.positiontup) if comp.positiontup is not None else None,
        tuple(binds),
        tuple(rcols),
        (comp.isinsert, comp.isupdate, comp.isdelete, bool(getattr(comp, "effective_returning", None))),
    )


def _param_values(comp, pd):
    """parameter values in bind_names order (names of two equal-key compilations may differ in generated names)"""
    ebn = comp.escaped_bind_names
    return repr([pd.get(ebn.get(n, n) if ebn else n, "<absent>") for n in comp.bind_names.values()])


def _expanded(comp, params):
    st = comp._process_parameters_for_postcompile(dict(params))
    rename, mapping = _renamer(comp, False)
    full = re.compile("^(%s)((?:_\\d+)*)$" % "|".join(re.escape(n) for n in sorted(mapping, key=len, reverse=True))) if mapping else None

    def nm(n):
        m = full.match(n) if full else None
        return mapping[m.group(1)] + m.group(2) if m else n

    return (
        rename(st.statement),
        repr(sorted((nm(k), v) for k, v in st.parameters.items())),
        tuple(nm(n) for n in st.positiontup) if st.positiontup is not None else None,
    )


def run_impl(shard, tier, rec):
    _, shape, d = shard
    impl_over(rec, shape, sg.family(d, [shape]))


_FP_NAMES = ("SQL", "positiontup", "bind names/types/flags", "result-column types", "statement kind")


def _member(st):
    """(stmt id pair, Built, construct, CacheKey|None, compile kwargs, engine-level cache key)"""
    built = sg.build_exec(*st)
    s = _stmt_for_key(built)
    ck = s._generate_cache_key()
    if ck is None:
        return (st, built, s, None, None, None)
    # the key under which Connection._execute_clauseelement files the compiled form
    many = isinstance(built.params, list)
    p0 = built.params[0] if many else built.params
    ckw = dict(
        column_keys=sorted(p0) if p0 else [],
        for_executemany=many and len(built.params) > 1,
        schema_translate_map=s._execution_options.get("schema_translate_map", None),
    )
    k = (ck.key, tuple(ckw["column_keys"]), bool(ckw["schema_translate_map"]), ckw["for_executemany"])
    return (st, built, s, ck, ckw, k)


def _compile_member(m, dia):
    st, built, s, ck, ckw, _ = m
    try:
        c_own = s.compile(dialect=dia, **ckw)  # independent compilation, own parameters
        c_ck = s.compile(dialect=dia, cache_key=ck, **ckw)  # the form the cache would hold
        return (c_own, c_ck, _fingerprint(c_own), None)
    except Exception as e:  # noqa
        return (None, None, None, type(e).__name__)


def _add(problems, label, dialect_name):
    lst = problems.setdefault(label, [])
    if dialect_name not in lst:
        lst.append(dialect_name)


def _pair_problems(rec, dialects, mi, mj, ci, cj):
    """problems of one equal-key pair: {problem label: [dialect names]}, detail lines.
    ci/cj: dialect name -> _compile_member result"""
    problems, detail = {}, []
    idi, idj = sg.sid(*mi[0]), sg.sid(*mj[0])
    for dia in dialects:
        rec.transition()
        a_, b_ = ci[dia.name], cj[dia.name]
        if a_[3] or b_[3]:
            if a_[3] != b_[3]:
                _add(problems, "equal cache key but compile outcome differs: %s vs %s" % (idi, idj), dia.name)
                detail.append("%s: compile outcome %r vs %r" % (dia.name, a_[3], b_[3]))
            continue
        if a_[2] != b_[2]:
            which = [nm for nm, x, y in zip(_FP_NAMES, a_[2], b_[2]) if x != y]
            _add(problems, "equal cache key but different %s: %s vs %s" % (which[0], idi, idj), dia.name)
            detail.append("%s:\n%s" % (dia.name, "\n".join("  %s:\n    %r\n    %r" % (nm, x, y) for nm, x, y in zip(_FP_NAMES, a_[2], b_[2]) if x != y)))
            continue
        # parameter transfer both ways: holder's compiled form + user's extracted parameters
        for (hm, hc, um, uc) in (((mi, a_, mj, b_),) if mi is mj else ((mi, a_, mj, b_), (mj, b_, mi, a_))):
            ubuilt, uck = um[1], um[3]
            plist = ubuilt.params if isinstance(ubuilt.params, list) else [ubuilt.params]
            for p in plist:
                rec.trace()
                res = _transfer(hc[1], uc[0], uck, p)
                if res is not None:
                    h_, u_ = sg.sid(*hm[0]), sg.sid(*um[0])
                    _add(problems, "cached form of %s hands %s the wrong parameters" % (h_, u_), dia.name)
                    detail.append("%s: cached form of %s executing %s\n  own compilation: %s\n  via cached form: %s" % ((dia.name, h_, u_) + res))
                    break
    return problems, detail


def _problem_classes(problems):
    return sorted(set(k.split(":")[0].split(" of ")[0] for k in problems))


def _pair_from_scratch(rec, dialects, s1, s2):
    try:
        m1, m2 = _member(s1), _member(s2)
    except sg.NotConstructible:
        return {}, []
    if m1[5] is None or m1[5] != m2[5]:
        return {}, []
    c1 = {d_.name: _compile_member(m1, d_) for d_ in dialects}
    c2 = {d_.name: _compile_member(m2, d_) for d_ in dialects}
    return _pair_problems(rec, dialects, m1, m2, c1, c2)


def _minimise_pair(rec, dialects, s1, s2, classes):
    """reset feature deviations of both statements to base while the keys stay equal and the same classes of
    problem persist; the pair is ordered by id"""
    pair = [s1, s2]
    if s1[0] == s2[0]:
        # deviations shared by both statements first (resetting one side only would break key equality)
        shape = s1[0]
        b0 = sg.base(shape)
        for f in list(s1[1]):
            if pair[0][1][f] == pair[1][1][f] != b0[f]:
                t = [(shape, dict(pair[0][1], **{f: b0[f]})), (shape, dict(pair[1][1], **{f: b0[f]}))]
                if not (sg.valid(shape, t[0][1]) and sg.valid(shape, t[1][1])):
                    continue
                pr, _ = _pair_from_scratch(rec, dialects, t[0], t[1])
                if pr and _problem_classes(pr) == classes:
                    pair = t
    for i in (1, 0):
        shape = pair[i][0]
        b0 = sg.base(shape)
        for f in list(pair[i][1]):
            if pair[i][1][f] == b0[f]:
                continue
            trial = dict(pair[i][1])
            trial[f] = b0[f]
            if not sg.valid(shape, trial):
                continue
            t = list(pair)
            t[i] = (shape, trial)
            if sg.sid(*t[0]) == sg.sid(*t[1]):
                continue
            pr, _ = _pair_from_scratch(rec, dialects, t[0], t[1])
            if pr and _problem_classes(pr) == classes:
                pair = t
    pair.sort(key=lambda st: (len(sg.sid(*st)), sg.sid(*st)))
    return pair


def _minimise_self(rec, dialects, s1, classes):
    shape = s1[0]
    b0 = sg.base(shape)
    cur = s1
    for f in list(s1[1]):
        if cur[1][f] == b0[f]:
            continue
        trial = dict(cur[1])
        trial[f] = b0[f]
        if not sg.valid(shape, trial):
            continue
        pr, _ = _pair_from_scratch(rec, dialects, (shape, trial), (shape, trial))
        if pr and _problem_classes(pr) == classes:
            cur = (shape, trial)
    return cur


def impl_over(rec, shape, fam, minimise_pairs=True):
    """all unordered pairs of ``fam``: equal cache key (as filed by the engine) => interchangeable compiled forms"""
    warnings.simplefilter("ignore")
    dialects = sg.DIALECTS()
    groups = {}
    order = []
    nokey = 0
    for st in fam:
        m = _member(st)
        if m[5] is None:
            nokey += 1
            continue
        if m[5] not in groups:
            groups[m[5]] = []
            order.append(m[5])
        groups[m[5]].append(m)
    rec.count("statements_without_cache_key", nokey)
    n = len(fam) - nokey
    rec.case(None, n=n * (n - 1) // 2 - sum(len(g) * (len(g) - 1) // 2 for g in groups.values()))
    reported = set()
    for k in order:
        g = groups[k]
        rec.state(("keygroup", shape, sg.sid(*g[0][0])))
        comps = [{d_.name: _compile_member(m, d_) for d_ in dialects} for m in g]
        # a statement served by its own cached form (the cold-cache route, on every dialect)
        self_bad = set()
        for i, m in enumerate(g):
            rec.case(("impl-self", sg.sid(*m[0])), nontrivial=bool(m[3].bindparams))
            problems, detail = _pair_problems(rec, dialects, m, m, comps[i], comps[i])
            if problems:
                self_bad.add(i)
                s1 = m[0]
                if minimise_pairs:
                    s1 = _minimise_self(rec, dialects, s1, _problem_classes(problems))
                    if sg.sid(*s1) in reported:
                        rec.count("failing_pairs_reducing_to_an_already_reported_pair")
                        continue
                    reported.add(sg.sid(*s1))
                    problems, detail = _pair_from_scratch(rec, dialects, s1, s1)
                for label, dl in problems.items():
                    rec.violation("%s on %s" % (label, ",".join(dl)), "\n".join(detail), dict(kind="impl", s1=sg.sid(*s1), s2=sg.sid(*s1)))
        if len(g) < 2:
            continue
        rec.count("key_groups_with_collisions")
        rec.counters["largest_key_group"] = max(rec.counters.get("largest_key_group", 0), len(g))
        for i in range(len(g)):
            for j in range(i + 1, len(g)):
                rec.case(("impl", sg.sid(*g[i][0]), sg.sid(*g[j][0])), nontrivial=True)
                if i in self_bad or j in self_bad:
                    rec.count("pairs_skipped_because_a_member_already_fails_on_its_own_cached_form")
                    continue
                problems, detail = _pair_problems(rec, dialects, g[i], g[j], comps[i], comps[j])
                if not problems:
                    continue
                s1, s2 = g[i][0], g[j][0]
                if minimise_pairs:
                    s1, s2 = _minimise_pair(rec, dialects, s1, s2, _problem_classes(problems))
                    key = (sg.sid(*s1), sg.sid(*s2))
                    if key in reported:
                        rec.count("failing_pairs_reducing_to_an_already_reported_pair")
                        continue
                    reported.add(key)
                    problems, detail = _pair_from_scratch(rec, dialects, s1, s2)
                case = dict(kind="impl", s1=sg.sid(*s1), s2=sg.sid(*s2))
                for label, dl in problems.items():
                    rec.violation("%s on %s" % (label, ",".join(dl)), "\n".join(detail), case)
        rec.sample(dict(equal_cache_key=[sg.sid(*x[0]) for x in g[:4]], dialects=[d_.name for d_ in dialects]), limit=3)


def _transfer(holder, uown, uck, p):
    """None if the holder's compiled form fed with the user's extracted parameters yields the user's own
    parameters (before and after post-compile expansion), else (want, got) as strings"""
    try:
        want = uown.construct_params(p, _no_postcompile=True, _check=False)
    except Exception:  # noqa  -- the statement itself cannot produce parameters: nothing to compare
        return None
    try:
        got = holder.construct_params(p, extracted_parameters=uck.bindparams, _no_postcompile=True, _check=False, _collected_params=uck.params)
    except Exception as e:  # noqa
        return (_param_values(uown, want), "%s: %s" % (type(e).__name__, sg.first_line(e)))
    w_, g_ = _param_values(uown, want), _param_values(holder, got)
    if w_ != g_:
        return (w_, g_)
    if holder.post_compile_params or holder.literal_execute_params:
        try:
            xw = _expanded(uown, want)
        except Exception as e:  # noqa
            xw = ("exc", type(e).__name__)
        try:
            xg = _expanded(holder, got)
        except Exception as e:  # noqa
            xg = ("exc", type(e).__name__)
        if xw != xg:
            return (repr(xw), repr(xg))
    return None


def run_shard(shard, tier, rec):
    kind = shard[0]
    if kind == "pairs":
        run_pairs(shard, tier, rec)
    elif kind == "tpairs":
        run_tpairs(shard, tier, rec)
    elif kind == "triples":
        run_triples(shard, tier, rec)
    elif kind == "long":
        run_long(shard, tier, rec)
    elif kind == "impl":
        run_impl(shard, tier, rec)
    else:
        raise AssertionError(shard)


# ------------------------------------------------------------------ replay


def replay(case):
    from ..core import Rec, StopShard

    rec = Rec(ID)
    try:
        k = case["kind"]
        if k == "baseline":
            World().baseline(rec, sg.parse_sid(case["stmt"]))
        elif k == "hist":
            w = World()
            stmts = [sg.parse_sid(i) for i in case["history"]]
            res = failing(w, rec, case["cache"], stmts)
            if res is not None:
                field, exp, got = res
                rec.violation(signature(case["cache"], stmts, field), "uncached: %s\ncached:   %s" % (_short(exp)[:1700], _short(got)[:1700]), case)
        elif k == "impl":
            s1, s2 = sg.parse_sid(case["s1"]), sg.parse_sid(case["s2"])
            impl_over(rec, s1[0], [s1, s2], minimise_pairs=False)
    except StopShard:
        pass
    return [(v["sig"], v["detail"]) for v in rec.violations]
