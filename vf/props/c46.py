"""C46 expired and refreshed attributes reflect the database (engine H).

Property: after expire, expire_all, refresh, commit with expire_on_commit, or
a query with populate_existing, reading an attribute returns the value
currently in the database for the transaction, while attributes with pending
changes that were not expired keep the pending value.

World: two persistent objects p1, p2 with columns x (plain) and y
(active_history=True: setting it while expired loads the old value first) in a
fresh WAL-mode SQLite *file* database per replay (per-process dir under
/dev/shm), reached by the Session through a ``timeout=0`` connection, and an
independent observer connection (autocommit) that performs the *external*
committed updates.  Session(autoflush=True), expire_on_commit both ways.

Operations: ext(o, a) (external UPDATE, committed at once, always a value
different from the committed one), expire(o), expire(o, [a]), expire_all,
refresh(o), refresh(o, [a]), commit, rollback, get(populate_existing=True),
select(P) with and without populate_existing, part_pe(o, a) (populate_existing
re-read of ONE object through a statement whose row delivers only SOME of the
mapped columns: ``select(P).from_statement(text("select id, <a> from p where
id = :pk"))`` - the primary key and column a are in the row, ``name`` and the
other value column are not), lo_pe(o, a) (the same re-read of one object with
``load_only(P.a)`` instead of a textual row), set(o.a) (pending change), read(o.a).

Reference (SnapModel below): the committed table; the *snapshot* the session's
transaction sees (taken at its first statement after begin / commit /
rollback - SQLite WAL snapshot isolation; an external commit is invisible
until the next transaction); which attributes are loaded / expired / pending;
whether the session holds the write lock.  Environment answers are predicted,
not judged: an external write while the session holds the write lock is
refused by SQLite (no change); a session flush from a stale snapshot is
refused (SQLITE_BUSY_SNAPSHOT -> OperationalError, the harness then rolls
back).

Oracle after every operation: read() returns the pending value if the
attribute has an un-expired pending change, else the snapshot value if the
attribute was expired / refreshed, else the previously loaded value; every
attribute's presence and value in the instance __dict__ equals the model's
(expired <=> absent); the committed table (observer) equals the model's; an
OperationalError occurs exactly where the model predicts the refusal.

Implementation facts the reference had to learn (validated on every history):
refresh() first expires what it refreshes (pending changes of that object are
dropped), then autoflushes the rest; reading an expired attribute autoflushes;
Session.rollback() without a transaction is a no-op while commit() always
expires; a flush of an object expired as a whole (primary key attribute
expired) reads the key back and thereby loads its other expired attributes;
the "modified" flag of an object survives an attribute-level expire of the
change that set it; a populate_existing load from a row that lacks some
mapped columns (after its autoflush) overwrites the delivered column and
leaves every attribute not delivered *expired* (absent from __dict__, re-read
from the transaction's snapshot on next access) - it may not keep the value
loaded earlier.  The WAL file is created once per process and reset to
its initial rows through the observer before every replay (a committed write,
which also proves that no lock was left behind).

Mutations caught (private copy, VF_REPO=/tmp/wt-orm3):
 M1 session.py refresh: no expire before the load (pending change survives a
    refresh) -> "refresh(p2) -> p2.x is 7, reference 1"
 M2 session.py expire(obj, [attr]) expires the whole object (pending changes
    of other attributes lost) -> "expire(p1, [y]) -> p1.x is <expired>, reference 7"
 M3 loading.py populate_existing ignored -> "get(P, p1, populate_existing=True)
    -> p1.x is 1, reference 2"
 M4 session.py commit does not expire with expire_on_commit=True
 M5 state.py _load_expired also reloads attributes with pending changes ->
    "refresh(p2) -> p1.x is 1, reference 7"
 M6 (seeded C46-a) loading.py _populate_full: with populate_existing the
    mapped columns missing from the row are only added to
    state.expired_attributes, their old value stays in __dict__ (and keeps
    being returned although the row changed) -> "state eoc=True: {}
    select(P).from_statement(text(id, x of p1)) populate_existing -> p1.y is
    1, reference <expired>"; needs the part_pe operations (every other
    operation delivers all mapped columns).

Finding on the unchanged tree (one canonical, history-independent signature,
LO_SIG): lo_pe(o, a) = ``select(P).where(id).options(load_only(P.a))`` with
populate_existing has the same reference as part_pe (what the query does not
deliver has to be re-read on next access).  The implementation leaves a
previously loaded column that the option defers untouched in __dict__ (only
a deferred-loader callable is installed: neither overwritten nor expired), so
a read returns the stale value; the option also stays in the state's
load_options and is replayed by later refresh() / unexpire loads.  Every
failure about an object that went through lo_pe earlier in the history (and
every failure not about one object in such a history) is folded into LO_SIG
and the subtree is not explored further; failures in histories without lo_pe
on that object keep their own signatures.
"""
import copy
import gc

from sqlalchemy import exc as sa_exc
from sqlalchemy import bindparam
from sqlalchemy import select
from sqlalchemy import text
from sqlalchemy.orm import load_only
from sqlalchemy.orm import Session

from ..engines import hist
from ..worlds.ormworld3 import FileDb
from ..worlds.ormworld3 import world

ID = "C46"
LEVEL = "model_checking"
META = dict(
    engine="H",
    technique="explicit-state BFS over histories of external committed writes interleaved with expire/refresh/commit/populate_existing (full-row and partial-row statements)/set/read on a real Session over a WAL file database, snapshot reference model in lock-step",
    design_ref="DESIGN.md §5 C46",
    level_text="Every history over 28-39 operations (external committed UPDATE through a second connection, expire of object / "
    "attribute / everything, refresh of object / attribute, commit, rollback, get and select with populate_existing, "
    "populate_existing through select(P).from_statement(text(...)) whose row delivers only the primary key and one of the "
    "value columns (quick: the row of p1 with x and without y; thorough: one operation per object and column), the same re-read with load_only(P.a) instead of a partial row, plain select, attribute set, attribute read) is replayed on a fresh WAL file database and a fresh Session for both "
    "expire_on_commit settings; after every operation each attribute's loaded value / expiry, the value returned by a read, "
    "the committed table and the occurrence of SQLite's lock refusals are compared with a reference that models the "
    "committed table, the transaction snapshot and the pending / loaded / expired status of every attribute.",
    level_note="Trusted: SnapModel (120 lines), including its model of SQLite WAL snapshot isolation with timeout=0 (validated "
    "in lock-step on every history: the committed table is read back through the observer after every operation). "
    "Value domain is cyclic ({1,2,3} external, {7,8} pending) so that the state space is finite; a stale value can coincide "
    "with a fresh one only after three external writes to the same cell.",
    rule="case = (expire_on_commit, canonical state, op); non-trivial = at the time of the op some loaded attribute differs "
    "from the committed table or from the snapshot, or a pending change exists (staleness / pending-vs-database is in play); "
    "outcomes = distinct (op, result class, attributes expired, stale attributes)",
    assumptions=[
        "SQLite WAL snapshot isolation, timeout=0, python sqlite3 autocommit=False (PEP 249 transaction control)",
        "one Session, one external writer that commits each statement immediately",
    ],
    bounds=dict(quick="expire_on_commit x all histories of length <= 4 over 28 ops (two of them partial populate_existing of p1 delivering id and x, not y / name: from_statement(text) and load_only; canonical-state dedupe below each first op)", thorough="length <= 5 over the full alphabet (39 ops, 4 partial-row and 4 load_only populate_existing) for both objects"),
)

OBJS = ("p1", "p2")
ATTRS = ("x", "y")
AH = {"x": False, "y": True}
EXP = "<expired>"
DEPTH = {}


def alphabet(tier):
    cells = [(o, a) for o in OBJS for a in ATTRS]
    if tier == "quick":
        cells = [c for c in cells if c != ("p2", "y")]
    ops = []
    for o, a in cells:
        ops.append(["ext", o, a])
    for o in OBJS:
        ops.append(["expire", o])
    for o, a in cells:
        ops.append(["expire1", o, a])
    ops.append(["expire_all"])
    for o in OBJS:
        ops.append(["refresh", o])
    for o, a in cells:
        ops.append(["refresh1", o, a])
    ops += [["commit"], ["rollback"]]
    for o in OBJS:
        ops.append(["get_pe", o])
    ops += [["query_pe"], ["query"]]
    # partial-row populate_existing: quick has the one that delivers p1.x and
    # leaves p1.y (the active_history attribute) out of the row; thorough one
    # per cell
    for o, a in cells if tier != "quick" else [("p1", "x")]:
        ops.append(["part_pe", o, a])
    # the same re-read with the columns left out by a load_only() option
    for o, a in cells if tier != "quick" else [("p1", "x")]:
        ops.append(["lo_pe", o, a])
    for o, a in cells:
        ops.append(["set", o, a])
    for o, a in cells:
        ops.append(["read", o, a])
    return ops


class Locked(Exception):
    pass


class SnapModel:
    def __init__(self, eoc):
        self.eoc = eoc
        self.committed = {(o, a): 1 for o in OBJS for a in ATTRS}
        self.version = 0
        self.snap = None
        self.snap_version = None
        self.wlock = False
        self.mem = {(o, a): 1 for o in OBJS for a in ATTRS}  # start: loaded
        self.dirty = set()
        self.in_tx = False  # Session transaction begun (first SQL or first attribute change)
        # whole-object expiry also expires the primary key attribute; a flush
        # of such an object reads the key back, which loads every expired,
        # unmodified attribute of that object
        self.pk_exp = {o: False for o in OBJS}
        self.modified = {o: False for o in OBJS}

    def copy(self):
        return copy.deepcopy(self)

    # -- environment
    def stmt(self):
        self.in_tx = True
        if self.snap is None:
            self.snap = dict(self.committed)
            self.snap_version = self.version

    def flush(self):
        """autoflush / commit: every object flagged modified is processed (the
        flag survives an attribute-level expire of the change itself)"""
        mods = [o for o in OBJS if self.modified[o]]
        if not mods:
            return
        for o in mods:
            if self.pk_exp[o]:
                self.stmt()
                self.load_expired(o)
        if self.dirty:
            self.stmt()
            if self.snap_version != self.version:
                raise Locked()  # write from a stale read snapshot
            for k in self.dirty:
                self.snap[k] = self.mem[k]
            self.wlock = True
            self.dirty = set()
        self.modified = {o: False for o in OBJS}

    def rollback(self):
        if not self.in_tx:
            return  # no transaction: Session.rollback() is a no-op
        self.in_tx = False
        self.snap = None
        self.wlock = False
        self.dirty = set()
        for k in self.mem:
            self.mem[k] = EXP
        self.pk_exp = {o: True for o in OBJS}
        self.modified = {o: False for o in OBJS}

    def load_expired(self, o):
        self.pk_exp[o] = False
        for a in ATTRS:
            if self.mem[(o, a)] == EXP and (o, a) not in self.dirty:
                self.mem[(o, a)] = self.snap[(o, a)]

    # -- operations; return value for read, None otherwise; raises Locked
    def apply(self, op):
        name = op[0]
        if name == "ext":
            k = (op[1], op[2])
            if self.wlock:
                return "refused"
            self.committed[k] = self.committed[k] % 3 + 1
            self.version += 1
            return "done"
        if name == "expire":
            self.pk_exp[op[1]] = True
            self.modified[op[1]] = False
            for a in ATTRS:
                self.mem[(op[1], a)] = EXP
                self.dirty.discard((op[1], a))
        elif name == "expire1":
            k = (op[1], op[2])
            self.mem[k] = EXP
            self.dirty.discard(k)
        elif name == "expire_all":
            for k in self.mem:
                self.mem[k] = EXP
            self.dirty = set()
            self.pk_exp = {o: True for o in OBJS}
            self.modified = {o: False for o in OBJS}
        elif name == "read":
            k = (op[1], op[2])
            if self.mem[k] == EXP:
                self.flush()
                self.stmt()
                self.load_expired(op[1])
            return self.mem[k]
        elif name == "set":
            k = (op[1], op[2])
            if AH[op[2]] and self.mem[k] == EXP:
                self.flush()
                self.stmt()
                self.load_expired(op[1])
            self.mem[k] = 7 if self.mem[k] != 7 else 8
            self.dirty.add(k)
            self.modified[op[1]] = True
            self.in_tx = True
        elif name in ("refresh", "get_pe"):
            if name == "refresh":
                # refresh = expire (pending changes of the object are dropped),
                # autoflush of everything else, load
                self.pk_exp[op[1]] = True
                self.modified[op[1]] = False
                for a in ATTRS:
                    self.mem[(op[1], a)] = EXP
                    self.dirty.discard((op[1], a))
            self.flush()
            self.stmt()
            self.pk_exp[op[1]] = False
            for a in ATTRS:
                self.mem[(op[1], a)] = self.snap[(op[1], a)]
        elif name == "refresh1":
            k = (op[1], op[2])
            self.mem[k] = EXP
            self.dirty.discard(k)
            self.flush()
            self.stmt()
            self.mem[k] = self.snap[k]
        elif name == "query_pe":
            self.flush()
            self.stmt()
            for k in self.mem:
                self.mem[k] = self.snap[k]
            self.pk_exp = {o: False for o in OBJS}
        elif name in ("part_pe", "lo_pe"):
            # populate_existing through a statement whose row delivers only
            # the primary key and ONE column: that column is overwritten, every
            # other attribute of the object is not in the row and therefore
            # has to be re-read on next access (= expired), never left stale
            self.flush()
            self.stmt()
            self.pk_exp[op[1]] = False
            for a in ATTRS:
                self.mem[(op[1], a)] = self.snap[(op[1], a)] if a == op[2] else EXP
        elif name == "query":
            self.flush()
            self.stmt()
            for o in OBJS:
                self.load_expired(o)
        elif name == "commit":
            self.flush()
            if self.wlock:
                self.committed = dict(self.snap)
                self.version += 1
            self.snap = None
            self.wlock = False
            self.in_tx = False
            self.modified = {o: False for o in OBJS}
            if self.eoc:
                for k in self.mem:
                    self.mem[k] = EXP
                self.pk_exp = {o: True for o in OBJS}
        elif name == "rollback":
            self.rollback()
        return None

    def stale(self):
        """is staleness / pending-vs-database in play"""
        view = self.snap or self.committed
        return bool(self.dirty) or any(v != EXP and (v != self.committed[k] or v != view[k]) for k, v in self.mem.items())

    def key(self):
        return (
            self.eoc,
            tuple(sorted(self.committed.items())),
            tuple(sorted(self.snap.items())) if self.snap is not None else None,
            self.snap_version == self.version if self.snap is not None else None,
            self.wlock,
            self.in_tx,
            tuple(sorted(self.mem.items())),
            tuple(sorted(self.dirty)),
            tuple(sorted(self.pk_exp.items())),
            tuple(sorted(self.modified.items())),
        )


# ------------------------------------------------------------------ implementation


class Ctx:
    pass


INIT_SQL = "insert into p (id, name, x, y) values (1, 'p1', 1, 1);\ninsert into p (id, name, x, y) values (2, 'p2', 1, 1)"


_DB = {}


def _fresh_db(w):
    """the database in its initial content.  The per-process WAL file is
    created once; before every replay both rows are put back through the
    observer (a committed write, which also proves that the previous replay
    left no lock behind) - if that is refused the file is thrown away and
    created anew."""
    import os

    db = _DB.get(os.getpid())
    if db is not None:
        if db.external("update p set x = 1, y = 1") and db.committed("select id, x, y from p order by id") == [(1, 1, 1), (2, 1, 1)]:
            return db
        db.close()
    db = _DB[os.getpid()] = FileDb(w, INIT_SQL)
    return db


def build(eoc):
    ctx = Ctx()
    w = ctx.w = world("m2o", None, "bp")
    ctx.db = _fresh_db(w)
    ctx.sess = Session(ctx.db.engine, expire_on_commit=eoc)
    ctx.objs = {"p1": ctx.sess.get(w.P, 1), "p2": ctx.sess.get(w.P, 2)}
    # the two loads opened the session's transaction: end it without expiring
    # (start state: both objects loaded, no transaction, no snapshot)
    ctx.sess.expire_on_commit = False
    ctx.sess.commit()
    ctx.sess.expire_on_commit = eoc
    return ctx


_PART = {}


def _part_stmt(w, a):
    """select(P) whose rows come from a textual statement that delivers only
    the primary key and column ``a`` (name and the other value column are
    missing from the row), with populate_existing"""
    st = _PART.get((w.key, a))
    if st is None:
        st = _PART[(w.key, a)] = (
            select(w.P).from_statement(text("select id, %s from p where id = :pk" % a)).execution_options(populate_existing=True)
        )
    return st


def _lo_stmt(w, a):
    """select(P) for one primary key with load_only(P.a) (name and the other
    value column are deferred by the option), with populate_existing"""
    st = _PART.get((w.key, a, "lo"))
    if st is None:
        st = _PART[(w.key, a, "lo")] = (
            select(w.P).where(w.p_table.c.id == bindparam("pk")).options(load_only(getattr(w.P, a))).execution_options(populate_existing=True)
        )
    return st


LO_SIG = (
    "populate_existing with load_only()/defer(): a previously loaded column that the query defers keeps its stale value "
    "(neither overwritten nor expired)"
)


def apply_impl(ctx, op, model_before):
    """returns the value for read/ext; raises OperationalError when SQLite refuses"""
    s, objs, w = ctx.sess, ctx.objs, ctx.w
    name = op[0]
    if name == "ext":
        k = (op[1], op[2])
        new = model_before.committed[k] % 3 + 1
        ok = ctx.db.external("update p set %s = ? where id = ?" % op[2], (new, w.pk(op[1])))
        return "done" if ok else "refused"
    if name == "expire":
        s.expire(objs[op[1]])
    elif name == "expire1":
        s.expire(objs[op[1]], [op[2]])
    elif name == "expire_all":
        s.expire_all()
    elif name == "read":
        return getattr(objs[op[1]], op[2])
    elif name == "refresh":
        s.refresh(objs[op[1]])
    elif name == "refresh1":
        s.refresh(objs[op[1]], [op[2]])
    elif name == "get_pe":
        got = s.get(w.P, w.pk(op[1]), populate_existing=True)
        if got is not objs[op[1]]:
            raise AssertionError("get returned another instance")
    elif name == "query_pe":
        res = s.execute(select(w.P).execution_options(populate_existing=True)).scalars().all()
        if {id(x) for x in res} != {id(x) for x in objs.values()}:
            raise AssertionError("query returned other instances")
    elif name == "part_pe":
        res = s.execute(_part_stmt(w, op[2]), {"pk": w.pk(op[1])}).scalars().all()
        if [id(x) for x in res] != [id(objs[op[1]])]:
            raise AssertionError("partial-row query returned other instances")
    elif name == "lo_pe":
        res = s.execute(_lo_stmt(w, op[2]), {"pk": w.pk(op[1])}).scalars().all()
        if [id(x) for x in res] != [id(objs[op[1]])]:
            raise AssertionError("load_only query returned other instances")
    elif name == "query":
        res = s.execute(select(w.P)).scalars().all()
        if {id(x) for x in res} != {id(x) for x in objs.values()}:
            raise AssertionError("query returned other instances")
    elif name == "commit":
        s.commit()
    elif name == "rollback":
        s.rollback()
    return None


def do_op(ctx, op, m_before, m_after):
    """apply op on the implementation; ``m_after`` (model after, or None when
    the model predicts a refusal) supplies the value a set() writes"""
    if op[0] == "set":
        o = ctx.objs[op[1]]
        if m_after is not None:
            v = m_after.mem[(op[1], op[2])]
        else:
            v = 7
        setattr(o, op[2], v)
        return None
    return apply_impl(ctx, op, m_before)


def view(ctx):
    out = {}
    for n, o in ctx.objs.items():
        d = o.__dict__
        for a in ATTRS:
            out[(n, a)] = d.get(a, EXP)
    return out


def op_text(op):
    n = op[0]
    if n == "ext":
        return "external UPDATE %s.%s" % (op[1], op[2])
    if n == "expire":
        return "expire(%s)" % op[1]
    if n == "expire1":
        return "expire(%s, [%s])" % (op[1], op[2])
    if n == "refresh":
        return "refresh(%s)" % op[1]
    if n == "refresh1":
        return "refresh(%s, [%s])" % (op[1], op[2])
    if n == "get_pe":
        return "get(P, %s, populate_existing=True)" % op[1]
    if n == "query_pe":
        return "select(P) populate_existing"
    if n == "part_pe":
        return "select(P).from_statement(text(id, %s of %s)) populate_existing" % (op[2], op[1])
    if n == "lo_pe":
        return "select(P).where(id of %s).options(load_only(P.%s)) populate_existing" % (op[1], op[2])
    if n == "query":
        return "select(P)"
    if n == "set":
        return "%s.%s = new" % (op[1], op[2])
    if n == "read":
        return "read %s.%s" % (op[1], op[2])
    return n + "()"


def make_step(rec, eoc, tier):
    name = "eoc=%s" % eoc

    def fail(cat, hist_, op, problem, ms, obj=None):
        # fold by cause: the object concerned (any object for failures that
        # are not about one object) went through a populate_existing load with
        # a load_only() option earlier in this history.  The option leaves the
        # columns it defers untouched and stays in the state's load_options
        # (replayed by later refresh / unexpire loads), so every later
        # disagreement about that object has this one root cause.
        lo = {h[1] for h in tuple(hist_) + (op,) if h[0] == "lo_pe"}
        if lo and (obj is None or obj in lo):
            detail = "history: %s; then %s -> %s" % ("; ".join(op_text(h) for h in hist_) or "(initial)", op_text(op), problem)
            rec.violation(LO_SIG, detail, dict(eoc=eoc, tier=tier, history=[list(h) for h in hist_], op=op), kind=("lo_pe",))
            return
        # state facts that matter for the signature: which cells are pending /
        # expired / stale before the op
        view_ = ms.snap or ms.committed
        facts = []
        for k in sorted(ms.mem):
            v = ms.mem[k]
            f = []
            if k in ms.dirty:
                f.append("pending")
            if v == EXP:
                f.append("expired")
            elif v != view_[k] and k not in ms.dirty:
                f.append("stale")
            if f:
                facts.append("%s.%s %s" % (k[0], k[1], "+".join(f)))
        sig = "%s %s: {%s}%s %s -> %s" % (cat, name, ", ".join(facts), " in-transaction" if ms.snap is not None else "", op_text(op), problem)
        detail = "history: %s; then %s -> %s" % ("; ".join(op_text(h) for h in hist_) or "(initial)", op_text(op), problem)
        rec.violation(sig, detail, dict(eoc=eoc, tier=tier, history=[list(h) for h in hist_], op=op), kind=(cat, op[0], problem.split(":")[0]))

    def replay_hist(ctx, ms0, hist_):
        """replays on the implementation, stepping a model alongside only to
        know the values to write"""
        m = ms0
        for h in hist_:
            m2 = m.copy()
            try:
                m2.apply(h)
                locked = False
            except Locked:
                locked = True
                m2 = m.copy()
                m2.rollback()
            try:
                do_op(ctx, h, m, None if locked else m2)
            except sa_exc.OperationalError:
                ctx.sess.rollback()
            m = m2
        return m

    def step(hist_, ms, op):
        ctx = build(eoc)
        try:
            replay_hist(ctx, SnapModel(eoc), hist_)
            return _step(ctx, hist_, ms, op)
        finally:
            ctx.sess.close()

    def _step(ctx, hist_, ms, op):
        m2 = ms.copy()
        exp_locked = False
        exp_ret = None
        try:
            exp_ret = m2.apply(op)
        except Locked:
            exp_locked = True
            m2 = ms.copy()
            m2.rollback()
        rec.case((name, ms.key(), repr(op)), nontrivial=ms.stale())
        got_locked = False
        ret = None
        try:
            ret = do_op(ctx, op, ms, None if exp_locked else m2)
        except sa_exc.OperationalError as e:
            if "locked" not in str(e):
                fail("raised", hist_, op, "OperationalError: %s" % str(e).split("\n")[0][:80], ms)
                return None
            got_locked = True
            ctx.sess.rollback()
        except (sa_exc.SQLAlchemyError, AssertionError) as e:
            fail("raised", hist_, op, "%s: %s" % (type(e).__name__, str(e).split("\n")[0][:80]), ms)
            return None
        if got_locked != exp_locked:
            fail("lock", hist_, op, "SQLite %s, reference predicts %s" % ("refused the write" if got_locked else "accepted", "a refusal (stale snapshot)" if exp_locked else "no refusal"), ms)
            return None
        if op[0] in ("read", "ext") and not exp_locked and ret != exp_ret:
            what = "returned %r, the %s is %r" % (ret, "pending value" if (op[1], op[2]) in ms.dirty else "value in the database for the transaction" if ms.mem[(op[1], op[2])] == EXP else "previously loaded value", exp_ret) if op[0] == "read" else "external write %s, reference %s" % (ret, exp_ret)
            fail("read" if op[0] == "read" else "env", hist_, op, what, ms, obj=op[1] if op[0] == "read" else None)
            return None
        v = view(ctx)
        for k in sorted(v):
            if v[k] != m2.mem[k]:
                fail("state", hist_, op, "%s.%s is %s, reference %s" % (k[0], k[1], v[k], m2.mem[k]), ms, obj=k[0])
                return None
        rows = {("p%d" % i, a): val for i, x, y in ctx.db.committed("select id, x, y from p") for a, val in (("x", x), ("y", y))}
        if rows != m2.committed:
            bad = sorted(k for k in rows if rows[k] != m2.committed[k])[0]
            fail("committed", hist_, op, "committed %s.%s is %r, reference %r" % (bad[0], bad[1], rows[bad], m2.committed[bad]), ms)
            return None
        rec.outcome((op[0], "locked" if exp_locked else exp_ret if op[0] == "ext" else "ok", tuple(sorted(k for k, x in m2.mem.items() if x == EXP)), tuple(sorted(k for k, x in m2.mem.items() if x != EXP and x != m2.committed[k]))))
        if ms.stale() and op[0] in ("read", "refresh", "refresh1", "get_pe", "query_pe", "part_pe", "lo_pe", "commit"):
            rec.sample(dict(config=name, history=[op_text(h) for h in hist_], op=op_text(op), result=exp_ret, committed={"%s.%s" % k: x for k, x in sorted(m2.committed.items())}, memory={"%s.%s" % k: x for k, x in sorted(m2.mem.items())}), limit=2)
        return m2, repr(m2.key())

    return step


def depth_for(tier):
    if tier in DEPTH:
        return DEPTH[tier]
    return 4 if tier == "quick" else 5


def finish(tier, total):
    """the workers are gone: remove their /dev/shm scratch databases"""
    from ..worlds.ormworld3 import cleanup_shm, cleanup_stale_shm

    for db in _DB.values():
        db.close()
    _DB.clear()
    cleanup_shm()
    cleanup_stale_shm()
    return None


def shards(tier, seed):
    n = len(alphabet(tier))
    return [[eoc, i] for eoc in (True, False) for i in range(n)]


def run_shard(shard, tier, rec):
    """shard = (expire_on_commit, index of the first operation): the subtree
    below that first operation, own dedupe"""
    eoc, first = shard
    ops = alphabet(tier)
    gc.disable()
    try:
        step = make_step(rec, eoc, tier)
        ms0 = SnapModel(eoc)
        rec.transition()
        rec.trace()
        rec.state(repr(ms0.key()))
        out = step((), ms0, ops[first])
        if out is None:
            return
        ms1, key = out
        d = hist.explore(rec, [((ops[first],), ms1, key)], lambda ms: ops, step, depth=depth_for(tier) - 1)
    finally:
        gc.enable()
        gc.collect()


def replay(case):
    from ..core import Rec, StopShard

    rec = Rec(ID)
    step = make_step(rec, case["eoc"], case.get("tier", "quick"))
    ms = SnapModel(case["eoc"])
    gc.disable()
    try:
        hist_ = []
        for op in case["history"]:
            out = step(tuple(hist_), ms, op)
            if out is None:
                break
            ms = out[0]
            hist_.append(op)
        else:
            step(tuple(hist_), ms, case["op"])
    except StopShard:
        pass
    finally:
        gc.enable()
    return [(v["sig"], v["detail"]) for v in rec.violations]
