"""C30 flush writes exactly the in-memory object graph to the database (engine H).

Bounded exhaustive exploration of ORM operation histories on the real Session / unit of work, in lock-step with the
reference model ``vf.models.sessref2`` ("what rows does this object graph imply"), on a fresh SQLite database per
replay (``foreign_keys=ON``, ``autocommit=False`` driver mode).

Worlds (``vf.worlds.ormworld2``): U1 one-to-many with cascade save-update / all / all+delete-orphan, also with a NOT NULL
foreign key and with a second object of the same primary key (row switch); U7 one-to-one; U3 self-referential tree;
U2 many-to-many through ``secondary``; U4 joined inheritance (attribute on the sub-table, two classes with the same
identity) below a one-to-many; U5 natural primary key with ON UPDATE CASCADE, passive_updates on and off (key change with
children, key collisions); U8 two-table cycle with post_update.

Alphabet over the 4-5 named objects of a world: add, delete, expunge, set(column | primary key), many-to-one set,
collection append / remove / replace, one-to-one set, merge (plain copy; copy with a relationship set to copies), flush,
commit -- from an empty session and from committed, expired root graphs; every replica once with ``autoflush=True``
(objects expired after commit, lazy loads autoflush) and once with ``autoflush=False`` (objects re-read after commit).

Oracle after every flush / commit (and after every autoflush that happens inside an operation): raw table rows == rows
derived from the model (column values, FK columns from the relationship state, association rows from the collections,
no rows for deleted objects / orphans); lifecycle state of every object; every loaded column attribute of a persistent
object == its row; after commit additionally the graph loaded by a brand-new Session == the model's graph, and the graph
read through the committing session == the new session's.  Where the final state violates PRIMARY KEY / FOREIGN KEY /
NOT NULL the flush must raise; where it satisfies them it must not.  Outcomes the documentation leaves open (objects not
in the session -- "will not proceed" warnings --, detached members of collections, an object both deleted and put into a
collection) accept the documented set.

Catalogued defects of the unchanged tree (``ormworld2.KNOWN_QUIRKS``): C30 owns f5 (one-to-one take-over leaves the
displaced child's many-to-one set), f7 (row switch between different joined-inheritance subclasses), f8
(passive_updates=True leaves a stale foreign key attribute in memory), f9 (passive_updates=False overwrites a
de-association made through an expired many-to-one), f12 (ValueError from a queued collection removal inside flush), f13
(row switch keeps the deleted object's other column values); f1 f2 f3 f6 belong to C39, f4 f10 to C47, f11 to C31 -- the
explorer adopts the library's behaviour after any of them (or stops below that state) and goes on.

Mutations caught (VF_REPO=/tmp/wt-orm2, each gave VIOLATION lines, then reverted):
  * dependency._ManyToManyDP.process_saves: first removed member's association row not deleted -> "database differs ... after flush" (U2)
  * dependency._OneToManyDP.process_saves: parent key change cascaded to all but the first child (passive_updates=False) -> rows differ / commit raises (U5)
  * dependency._ManyToOneDP.process_saves: foreign key of an added many-to-one not written for a persistent post_update referrer -> rows differ (U8)
  * persistence._collect_update_commands: UPDATE drops columns whose new value is None -> rows differ (U4)
  * persistence._organize_states_for_save: row switch not detected -> "flush raised IntegrityError although the final state satisfies every constraint" (U1 twin)
  Not caught, and why: dropping the foreign-key synchronisation on ONE side of a bidirectional relationship (o2m process_saves for
  added / removed children) -- the other side's dependency processor writes the same column, the mutant is equivalent in these worlds.
"""
from ..engines import hist
from ..worlds import ormworld2 as ow

ID = "C30"
LEVEL = "model_checking"
META = dict(
    engine="H",
    technique="explicit-state BFS over ORM operation histories by replay on fresh databases, independent row model in lock-step, "
    "canonical-state dedupe on (implementation state, model state)",
    design_ref="DESIGN.md §5 C30",
    level_text="Every history over the stated alphabet up to the depth bound, from every root, in 18 mapping configurations x 2 "
    "autoflush modes, is executed on the real Session and compared after every flush/commit with a plain-Python model of the "
    "rows the object graph implies, with the raw tables, and with the graph a new Session loads. Complete for the bound, so any "
    "defect expressible in <= depth operations on <= 5 objects of these mappings is found.",
    level_note="Trusted: sessref2 (about 600 lines, no SQLAlchemy import), the replayer and raw readers of ormworld2. Operations "
    "on deleted or detached objects, re-adding detached objects and composite / association-object mappings (U9) are outside "
    "the alphabet. Only SQLite executes; PostgreSQL/MariaDB are not reachable in this sandbox.",
    rule="state = (implementation-visible state of every named object incl. committed_state / expired / pending mutations / "
    "hasparent flags, model state incl. rows); transition = one operation applied to a replayed replica in lock-step; a case is "
    "non-trivial when it is a flush/commit with pending inserts, deletes or attribute changes whose rows were compared; "
    "outcomes = distinct databases observed after flushes",
    assumptions=["SQLite 3.40 with foreign_keys=ON", "single session, single thread", "expire_on_commit=True", "explicit primary keys"],
    bounds=dict(
        quick="18 configurations; autoflush on: 2-4 roots (the empty root once per world), autoflush off: the populated root for 9 configurations; every history of <= 2 operations beyond the root, each followed by flush and by commit (+ merge alphabet on 6 configurations)",
        thorough="18 configurations x {autoflush on, off} x 3-5 roots, every history of <= 2 operations beyond the root; <= 3 operations after the populated "
        "root (autoflush on: 9 configurations, off: 3; not the self-referential world); each history followed by flush and by commit",
    ),
)
SHARD_TIMEOUT = dict(quick=600, thorough=3000)

ROOTS = dict(
    U1=[
        (),
        (("append", "p1", "children", "c1"), ("append", "p1", "children", "c2"), ("add", "p1"), ("add", "p2"), ("commit",)),
        (("append", "p1", "children", "c1"), ("append", "p2", "children", "c2"), ("add", "p1"), ("add", "p2"), ("commit",)),
        (("add", "p1"), ("add", "c1"), ("commit",)),
        (("append", "p1", "children", "c1"), ("add", "p1")),  # a pending, not yet flushed graph
    ],
    U7=[
        (),
        (("setrel", "p1", "child", "c1"), ("add", "p1"), ("add", "p2"), ("add", "c2"), ("commit",)),
        (("setrel", "p1", "child", "c1"), ("setrel", "p2", "child", "c2"), ("add", "p1"), ("add", "p2"), ("commit",)),
    ],
    U3=[
        (),
        (("append", "n1", "children", "n2"), ("append", "n2", "children", "n3"), ("add", "n1"), ("add", "n4"), ("commit",)),
        (("append", "n1", "children", "n2"), ("append", "n1", "children", "n3"), ("add", "n1"), ("commit",)),
    ],
    U2=[
        (),
        (("append", "i1", "tags", "t1"), ("append", "i1", "tags", "t2"), ("append", "i2", "tags", "t1"), ("add", "i1"), ("add", "i2"), ("commit",)),
        (("append", "i1", "tags", "t1"), ("add", "i1"), ("add", "t2"), ("commit",)),
    ],
    U4=[
        (),
        (("append", "co1", "staff", "pe1"), ("append", "co1", "staff", "en2"), ("add", "co1"), ("add", "ma3"), ("commit",)),
        (("add", "en1"), ("add", "ma3"), ("commit",)),
    ],
    U5=[
        (),
        (("append", "u1", "addresses", "a1"), ("append", "u1", "addresses", "a2"), ("add", "u1"), ("add", "u2"), ("commit",)),
        (("append", "u1", "addresses", "a1"), ("add", "u1"), ("add", "a2"), ("commit",)),
    ],
    U8=[
        (),
        (("append", "h1", "balls", "b1"), ("append", "h1", "balls", "b2"), ("setrel", "h1", "favorite", "b1"), ("add", "h1"), ("add", "h2"), ("commit",)),
        (("append", "h1", "balls", "b1"), ("add", "h1"), ("add", "b2"), ("commit",)),
    ],
)

SU, ALL, ORPH = (ow.CASCADE_PRESETS[k] for k in ("su", "all", "allorph"))


def world_keys(tier):
    ks = [("U1", SU), ("U1", ALL), ("U1", ORPH), ("U7", SU), ("U7", ORPH), ("U3", SU), ("U3", ORPH), ("U2", SU), ("U2", ALL),
          ("U4", SU), ("U4", ORPH), ("U5", True, SU), ("U5", False, SU), ("U5", True, ORPH), ("U8", SU), ("U8", ALL),
          ("U1", ALL, True, True), ("U1", ORPH, False)]
    return ks


# (the self-referential tree stays at depth 2: three operations there reach compositions of the catalogued load-order
# dependent defects f1 f3 f4 f6 f11 -- e.g. a node re-parented through an expired many-to-one whose former parent is deleted
# or orphaned in the same flush -- whose combined outcome the model does not enumerate)
DEEP_ON = (("U1", SU), ("U1", ORPH), ("U7", ORPH), ("U2", ALL), ("U4", ORPH), ("U5", True, SU), ("U5", False, SU), ("U8", ALL), ("U1", ALL, True, True))
QUICK_OFF = (("U1", SU), ("U1", ORPH), ("U7", SU), ("U3", SU), ("U2", ALL), ("U4", ORPH), ("U5", True, SU), ("U5", False, SU), ("U8", ALL))
QUICK_EMPTY = (("U1", ORPH), ("U7", ORPH), ("U3", ORPH), ("U2", ALL), ("U4", ORPH), ("U5", True, SU), ("U8", ALL), ("U1", ALL, True, True), ("U1", ORPH, False))
DEEP_OFF = (("U1", ORPH), ("U7", SU), ("U2", ALL))
MERGE_KINDS = ("merge", "add", "delete", "rel", "flush", "commit")


def configs(tier):
    out = []
    for wk in world_keys(tier):
        for af in (True, False):
            for ri in range(len(ROOTS[wk[0]])):
                if tier == "quick" and not af and (ri != 1 or wk not in QUICK_OFF):
                    continue  # quick: autoflush-off replicas only from the populated root, for 9 configurations
                if tier == "quick" and ri == 0 and wk not in QUICK_EMPTY:
                    continue  # quick: the empty root once per world
                deep = tier != "quick" and ri == 1 and ((af and wk in DEEP_ON) or (not af and wk in DEEP_OFF))
                nparts = 8 if deep else (3 if ri in (1, 2, 3) else 1)
                for part in range(nparts):
                    out.append(dict(world=wk, autoflush=af, root=ri, depth=3 if deep else 2, kinds=None, part=part, nparts=nparts))
    for wk in [("U1", SU), ("U1", ORPH), ("U2", ALL), ("U3", ALL), ("U7", ORPH), ("U4", SU)]:
        for af in (True, False):
            for ri in ((1,) if tier == "quick" else (0, 1, 2)):
                out.append(dict(world=wk, autoflush=af, root=ri, depth=2, kinds=list(MERGE_KINDS)))
    return out


def shards(tier, seed):
    return configs(tier)


def roots_of(wkey):
    return ROOTS[wkey[0]]


def run_shard(shard, tier, rec):
    w = ow.world(shard["world"])
    af = shard["autoflush"]
    names = [n for n, _, _ in w.universe]
    root = tuple(roots_of(shard["world"])[shard["root"]])
    m0 = ow.model_for(w)
    # the root prefix is itself checked op by op
    h = ()
    for op in root:
        m0 = step_checked(rec, w, shard, h, m0, op)
        if m0 is None:
            return
        m0 = m0[0]
        h = h + (op,)

    def enabled(ms):
        if shard.get("kinds"):
            return ow.ref.enabled_ops(ms, names, kinds=tuple(shard["kinds"]), af=af)
        return ow.ref.enabled_ops(ms, names, pk_values=("u9", "u2") if shard["world"][0] == "U5" else (), af=af)

    def step(hist_, ms, op):
        r = step_checked(rec, w, shard, hist_, ms, op)
        return r

    ow.explore_with_probes(rec, (h, m0, ("root", repr(shard))), enabled, step, shard["depth"], part=shard.get("part", 0), nparts=shard.get("nparts", 1))


OWN = ("f5", "f7", "f8", "f9", "f12", "f13")


def step_checked(rec, w, shard, hist_, ms, op):
    post, key, problems = ow.lockstep(w, hist_, ms, op, autoflush=shard["autoflush"])
    flushy = op[0] in ("flush", "commit")
    rec.case((repr(shard["world"]), hist_, op), nontrivial=flushy and post is not None and bool(ms.dirty or any(o.life == "P" or o.marked for o in ms.objs.values())))
    for kind, sig, detail in problems:
        if kind.startswith("note:"):
            rec.count(kind[5:])
            continue
        if kind.startswith("known:"):
            tag = kind[6:]
            if tag in OWN:
                rec.violation("defect %s: %s" % (tag, ow.KNOWN_QUIRKS[tag]), "%s af=%s: %s | after %s" % (shard["world"], shard["autoflush"], detail, ow.fmt_hist(hist_ + (op,))),
                              dict(shard=shard, history=[list(o) for o in hist_], op=list(op)))
            else:
                rec.count("adopted_" + tag)  # owned and reported by C39 / C47
            continue
        case = dict(shard=shard, history=[list(o) for o in hist_], op=list(op))
        rec.violation("%s af=%s: %s | after %s" % (shard["world"], shard["autoflush"], sig, ow.fmt_hist(hist_ + (op,))), detail, case, kind=(repr(shard["world"]), kind))
    if post is None:
        rec.outcome(("stop", op[0], bool(problems)))
        return None
    if flushy:
        rec.outcome(repr(post.rows_as_lists()))
        if len(hist_) >= 2 and (ms.dirty or any(o.marked for o in ms.objs.values())) and any(o.life == "X" for o in post.objs.values()):
            rec.sample(dict(world=repr(shard["world"]), autoflush=shard["autoflush"], history=ow.fmt_hist(hist_ + (op,)), rows=post.rows_as_lists()), limit=3)
    return post, key


def _tup(x):
    return tuple(_tup(i) for i in x) if isinstance(x, list) else x


def replay(case):
    shard = case["shard"]
    shard["world"] = _tup(shard["world"])
    w = ow.world(shard["world"])
    hist_ = tuple(_tup(o) for o in case["history"])
    op = _tup(case["op"])
    ms = ow.model_along(w, hist_, shard["autoflush"])
    post, key, problems = ow.lockstep(w, hist_, ms, op, autoflush=shard["autoflush"])
    out = []
    for kind, sig, detail in problems:
        if kind.startswith("note:"):
            continue
        if kind.startswith("known:"):
            if kind[6:] in OWN:
                out.append(("defect %s: %s" % (kind[6:], ow.KNOWN_QUIRKS[kind[6:]]), detail))
            continue
        out.append(("%s af=%s: %s | after %s" % (shard["world"], shard["autoflush"], sig, ow.fmt_hist(hist_ + (op,))), detail))
    return out
