"""C30 flush writes exactly the in-memory object graph to the database (engine H).

Bounded exhaustive exploration of ORM operation histories on the real Session /
unit of work, in lock-step with the reference model ``vf.models.sessref2``.
"""
from ..engines import hist
from ..worlds import ormworld2 as ow

ID = "C30"
LEVEL = "model_checking"
META = dict(
    engine="H",
    technique="explicit-state BFS over ORM operation histories by replay on fresh databases, reference row model in lock-step",
    design_ref="DESIGN.md §5 C30",
    level_text="",
    level_note="",
    rule="",
    assumptions=[],
    bounds=dict(quick="", thorough=""),
)

ROOTS = dict(
    U1=[
        (),
        (("append", "p1", "children", "c1"), ("append", "p1", "children", "c2"), ("add", "p1"), ("add", "p2"), ("commit",)),
        (("append", "p1", "children", "c1"), ("append", "p2", "children", "c2"), ("add", "p1"), ("add", "p2"), ("commit",)),
        (("add", "p1"), ("add", "c1"), ("commit",)),
    ],
    U7=[
        (),
        (("setrel", "p1", "child", "c1"), ("add", "p1"), ("add", "p2"), ("add", "c2"), ("commit",)),
        (("setrel", "p1", "child", "c1"), ("setrel", "p2", "child", "c2"), ("add", "p1"), ("add", "p2"), ("commit",)),
    ],
    U3=[
        (),
        (("append", "n1", "children", "n2"), ("append", "n2", "children", "n3"), ("add", "n1"), ("add", "n4"), ("commit",)),
        (("append", "n1", "children", "n2"), ("append", "n1", "children", "n3"), ("add", "n1"), ("commit",)),
    ],
    U2=[
        (),
        (("append", "i1", "tags", "t1"), ("append", "i1", "tags", "t2"), ("append", "i2", "tags", "t1"), ("add", "i1"), ("add", "i2"), ("commit",)),
        (("append", "i1", "tags", "t1"), ("add", "i1"), ("add", "t2"), ("commit",)),
    ],
    U4=[
        (),
        (("append", "co1", "staff", "pe1"), ("append", "co1", "staff", "en2"), ("add", "co1"), ("add", "ma3"), ("commit",)),
        (("add", "en1"), ("add", "ma3"), ("commit",)),
    ],
    U5=[
        (),
        (("append", "u1", "addresses", "a1"), ("append", "u1", "addresses", "a2"), ("add", "u1"), ("add", "u2"), ("commit",)),
        (("append", "u1", "addresses", "a1"), ("add", "u1"), ("add", "a2"), ("commit",)),
    ],
    U8=[
        (),
        (("append", "h1", "balls", "b1"), ("append", "h1", "balls", "b2"), ("setrel", "h1", "favorite", "b1"), ("add", "h1"), ("add", "h2"), ("commit",)),
        (("append", "h1", "balls", "b1"), ("add", "h1"), ("add", "b2"), ("commit",)),
    ],
)

SU, ALL, ORPH = (ow.CASCADE_PRESETS[k] for k in ("su", "all", "allorph"))


def world_keys(tier):
    ks = [("U1", SU), ("U1", ALL), ("U1", ORPH), ("U7", SU), ("U7", ORPH), ("U3", SU), ("U3", ORPH), ("U2", SU), ("U2", ALL),
          ("U4", SU), ("U4", ORPH), ("U5", True, SU), ("U5", False, SU), ("U5", True, ORPH), ("U8", SU), ("U8", ALL)]
    return ks


def configs(tier):
    out = []
    for wk in world_keys(tier):
        for af in (True, False):
            for ri in range(len(ROOTS[wk[0]])):
                out.append(dict(world=wk, autoflush=af, root=ri, depth=2 if tier == "quick" else 3))
    return out


def shards(tier, seed):
    return configs(tier)


def roots_of(wkey):
    return ROOTS[wkey[0]]


def run_shard(shard, tier, rec):
    w = ow.world(shard["world"])
    af = shard["autoflush"]
    names = [n for n, _, _ in w.universe]
    root = tuple(roots_of(shard["world"])[shard["root"]])
    m0 = ow.model_for(w)
    # the root prefix is itself checked op by op
    h = ()
    for op in root:
        m0 = step_checked(rec, w, shard, h, m0, op)
        if m0 is None:
            return
        m0 = m0[0]
        h = h + (op,)

    def enabled(ms):
        return ow.ref.enabled_ops(ms, names, pk_values=("u9", "u2") if shard["world"][0] == "U5" else (), af=af)

    def step(hist_, ms, op):
        r = step_checked(rec, w, shard, hist_, ms, op)
        return r

    hist.explore(rec, [(h, m0, ("root", repr(shard)))], enabled, step, depth=shard["depth"])


def step_checked(rec, w, shard, hist_, ms, op):
    post, key, problems = ow.lockstep(w, hist_, ms, op, autoflush=shard["autoflush"])
    flushy = op[0] in ("flush", "commit")
    rec.case((repr(shard["world"]), hist_, op), nontrivial=flushy and post is not None and bool(ms.dirty or any(o.life == "P" or o.marked for o in ms.objs.values())))
    for kind, sig, detail in problems:
        if kind.startswith("known:"):
            rec.count("adopted_" + kind[6:])  # owned and reported by C39
            continue
        case = dict(shard=shard, history=[list(o) for o in hist_], op=list(op))
        rec.violation("%s af=%s: %s | after %s" % (shard["world"], shard["autoflush"], sig, ow.fmt_hist(hist_ + (op,))), detail, case, kind=(repr(shard["world"]), kind))
    if post is None:
        rec.outcome(("stop", op[0], bool(problems)))
        return None
    if flushy:
        rec.outcome(repr(post.rows_as_lists()))
    return post, key


def _tup(x):
    return tuple(_tup(i) for i in x) if isinstance(x, list) else x


def replay(case):
    shard = case["shard"]
    shard["world"] = _tup(shard["world"])
    w = ow.world(shard["world"])
    hist_ = tuple(_tup(o) for o in case["history"])
    op = _tup(case["op"])
    ms = ow.model_after(w, hist_)
    post, key, problems = ow.lockstep(w, hist_, ms, op, autoflush=shard["autoflush"])
    return [("%s af=%s: %s | after %s" % (shard["world"], shard["autoflush"], sig, ow.fmt_hist(hist_ + (op,))), detail) for kind, sig, detail in problems if not kind.startswith("known:")]
