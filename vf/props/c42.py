"""C42 polymorphic queries return each row as its most specific class.

Engine I.  Every inheritance hierarchy with <= 4 classes (all tree shapes of
depth <= 2 below the base, every non-base class joined-table or single-table,
abstract intermediate class off / polymorphic_abstract / identity-less, discriminator column or SQL expression,
mapper-level polymorphic_load none/inline/selectin/mixed and
with_polymorphic='*' on the base; plus one concrete-table hierarchy) is mapped
for real, filled with every vector of 0..2 rows per class and queried at
EVERY class with every polymorphic loading option.  Oracle = the generated
rows: exactly the ids of that class and its descendants, type(obj) is the
class the discriminator names, every column attribute (own-table and
sub-table, after lazy access and again after expire) equals the generated
value.

Failing configurations are reduced greedily (drop leaf classes, expression
discriminator, abstract flag, loading setting, single -> joined) and reported
as ``<kind>: <minimal hierarchy configuration>``.

Mutations caught (private copy, VF_REPO=/tmp/wt-query):
  * orm/mapper.py _single_table_criteria_component: discriminator criterion built from the class's own identity
    only (``for m in [self]``): a query at a mid-level single-table class loses its sub-class rows
                                        -> wrong-rows: parents=[0, 1] kinds=SJ poly_on=col
  * orm/loading.py _decorate_polymorphic_switch.configure_subclass_mapper: a single-table sub-class directly below
    the queried mapper is treated like the queried mapper itself (rows loaded as the parent class)
                                        -> wrong-class: parents=[0, 1] kinds=JS poly_on=col
  * orm/util.py AliasedInsp._with_polymorphic_factory: with_polymorphic() always built with innerjoin=True
    (rows of classes outside the subset vanish) -> wrong-rows: parents=[0] kinds=J
Not caught (equivalent on this domain): configure_subclass_mapper returning None instead of False for a
discriminator that names a non-sub-mapper -- no enumerated query can fetch such a row (inner join / IN criterion).
"""
from __future__ import annotations

import itertools
import os
import traceback
import warnings

from sqlalchemy import Column
from sqlalchemy import create_engine
from sqlalchemy import ForeignKey
from sqlalchemy import func
from sqlalchemy import Integer
from sqlalchemy import select
from sqlalchemy import String
from sqlalchemy.ext.declarative import ConcreteBase
from sqlalchemy.orm import declarative_base
from sqlalchemy.orm import joinedload
from sqlalchemy.orm import relationship
from sqlalchemy.orm import selectin_polymorphic
from sqlalchemy.orm import selectinload
from sqlalchemy.orm import Session
from sqlalchemy.orm import subqueryload
from sqlalchemy.orm import with_polymorphic
from sqlalchemy.pool import StaticPool

ID = "C42"
LEVEL = "exploration"
META = dict(
    engine="I",
    technique="exhaustive small-scope enumeration of inheritance hierarchies x mapper settings x data x (class, polymorphic option), "
    "oracle = generated rows",
    design_ref="DESIGN.md §5 C42",
    level_text="All 9 rooted tree shapes with <=4 classes and depth <=2, every joined/single assignment of the non-base classes "
    "(51 hierarchies), abstract intermediate class off / polymorphic_abstract=True / identity-less, polymorphic_on as column and as SQL expression, five mapper-level "
    "loading settings, plus a concrete-table hierarchy (ConcreteBase, 2 and 3 classes). Data: every vector of 0..2 rows per class "
    "(thorough) / every vector within one deviation of one-row-per-class plus all-0 and all-2 (quick). For every class of the "
    "hierarchy: select(), legacy Query, Session.get() of every id, with_polymorphic over EVERY subset of its descendants and '*' "
    "(plain / flat / aliased), selectin_polymorphic over every non-empty subset, join through relationship.of_type(), eager "
    "loading of a relationship to the base through of_type(with_polymorphic(subset)) with selectin / joined / subquery, and "
    "re-reading after expire_all(). The oracle is the generated data itself.",
    level_note="Trusted: SQLite, the 40-line row generator. Hierarchies deeper than 2 below the base or wider than 4 classes, "
    "polymorphic_union mappings other than ConcreteBase, and discriminator values that name no class are outside the bound.",
    rule="case = (hierarchy configuration, data vector, query at class K with option); non-trivial = the expected result mixes "
    "classes or excludes at least one stored row (the discriminator decided something)",
    assumptions=["SQLite 3.40 executes the emitted SQL correctly", "rows are inserted with Core; discriminator values always name a mapped class"],
    bounds=dict(
        quick="51 hierarchies x (column discriminator x 5 loading settings + expression discriminator x {none, selectin}); abstract intermediate "
        "(polymorphic_abstract) x {col/none, col/selectin, expr/none}, identity-less intermediate x col/none; data: one-deviation vectors over {0,1,2} rows per class",
        thorough="same hierarchies and settings; data: all 3^n vectors of 0..2 rows per class",
    ),
)
SHARD_TIMEOUT = dict(quick=900, thorough=3000)

POLY_LOADS = ("none", "inline", "selectin", "mixed", "base_wp_star")


def tree_shapes(max_n=4, max_depth=2):
    """parent vectors (parent[i-1] = parent of class i, class 0 = base), simplest first"""
    for n in range(1, max_n + 1):
        for parents in itertools.product(*[range(i) for i in range(1, n)]):
            depth = [0]
            ok = True
            for i, p in enumerate(parents, start=1):
                depth.append(depth[p] + 1)
                if depth[-1] > max_depth:
                    ok = False
            if ok:
                yield tuple(parents)


def hierarchies():
    """(parents, kinds) -- kinds[i-1] in 'J' (joined table) / 'S' (single table) for class i"""
    for parents in tree_shapes():
        for kinds in itertools.product("JS", repeat=len(parents)):
            yield parents, "".join(kinds)


class Hier:
    """one mapped hierarchy"""

    def __init__(self, parents, kinds, abstract, expr, load):
        self.parents, self.kinds, self.abstract, self.expr, self.load = parents, kinds, abstract, expr, load
        n = self.n = len(parents) + 1
        self.parent = [None] + list(parents)
        self.children = [[j for j in range(n) if self.parent[j] == i] for i in range(n)]
        self.chain = []
        for i in range(n):
            c = [i]
            while self.parent[c[0]] is not None:
                c.insert(0, self.parent[c[0]])
            self.chain.append(c)
        self.desc = [[j for j in range(n) if i in self.chain[j] and j != i] for i in range(n)]
        self.home = [0] * n  # index of the class whose table stores class i's own column
        for i in range(1, n):
            self.home[i] = i if kinds[i - 1] == "J" else self.home[self.parent[i]]
        self.is_abstract = [bool(abstract and self.children[i] and i != 0) for i in range(n)]
        self.ident = ["k%d" % i for i in range(n)]
        self._build()

    def key(self):
        return (self.parents, self.kinds, self.abstract, self.expr, self.load)

    def describe(self):
        return cfg_desc(self.key())

    def _build(self):
        Base = declarative_base()
        self.Base = Base

        class Holder(Base):
            __tablename__ = "holder"
            id = Column(Integer, primary_key=True)
            name = Column(String)

        typecol = Column("type", String)
        margs = dict(polymorphic_on=func.lower(typecol) if self.expr else typecol, polymorphic_identity=self.ident[0])
        if self.load == "base_wp_star":
            margs["with_polymorphic"] = "*"
        attrs = dict(
            __tablename__="t0",
            id=Column(Integer, primary_key=True),
            holder_id=Column(ForeignKey("holder.id")),
            type=typecol,
            a=Column(Integer),
            c0=Column(String),
            __mapper_args__=margs,
        )
        classes = [type("C0", (Base,), attrs)]
        for i in range(1, self.n):
            p = self.parent[i]
            m = {}
            if not self.is_abstract[i]:
                m["polymorphic_identity"] = self.ident[i]
            elif self.abstract == "flag":
                m["polymorphic_abstract"] = True  # the 2.0 way; abstract == "noident": simply no identity
            pl = None
            if self.load == "inline":
                pl = "inline"
            elif self.load == "selectin":
                pl = "selectin"
            elif self.load == "mixed":
                pl = "inline" if i % 2 else "selectin"
            if pl:
                m["polymorphic_load"] = pl
            attrs = {"c%d" % i: Column(String), "__mapper_args__": m}
            if self.kinds[i - 1] == "J":
                attrs["__tablename__"] = "t%d" % i
                attrs["id"] = Column(ForeignKey("t%d.id" % self.home[p]), primary_key=True)
            classes.append(type("C%d" % i, (classes[p],), attrs))
        Holder.items = relationship(classes[0], order_by=classes[0].id)
        self.Holder = Holder
        self.classes = classes
        with warnings.catch_warnings():
            warnings.simplefilter("ignore")
            Base.registry.configure()
        self.tables = ["holder", "t0"] + ["t%d" % i for i in range(1, self.n) if self.kinds[i - 1] == "J"]

    # ---- data

    def rows(self, counts):
        """generated objects: list of dict(id, cls, holder_id, a, type, c{j} for j in chain)"""
        out = []
        rid = 0
        for rep in range(2):
            # interleave classes so that ids of one class are not contiguous
            for i in reversed(range(self.n)):
                if counts[i] > rep:
                    rid += 1
                    r = dict(id=rid, cls=i, holder_id=(1, 2, None)[rid % 3], a=None if rid % 4 == 2 else rid * 10)
                    r["type"] = self.ident[i].upper() if self.expr else self.ident[i]
                    for j in self.chain[i]:
                        r["c%d" % j] = None if (rid + j) % 5 == 0 else "r%dc%d" % (rid, j)
                    out.append(r)
        return out

    def load_rows(self, conn, rows):
        md = self.Base.metadata
        for t in reversed(self.tables):
            conn.execute(md.tables[t].delete())
        conn.execute(md.tables["holder"].insert(), [dict(id=1, name="h1"), dict(id=2, name="h2")])
        per = {t: [] for t in self.tables}
        for r in rows:
            homes = {}
            for j in self.chain[r["cls"]]:
                homes.setdefault(self.home[j], {})["c%d" % j] = r["c%d" % j]
            for h, vals in homes.items():
                d = dict(id=r["id"])
                if h == 0:
                    d.update(holder_id=r["holder_id"], type=r["type"], a=r["a"])
                d.update(vals)
                per["t%d" % h].append(d)
            # joined tables along the chain that hold no column value of the chain still need their row
            for j in self.chain[r["cls"]]:
                if j and self.kinds[j - 1] == "J" and j not in homes:
                    per["t%d" % j].append(dict(id=r["id"]))
        for t in self.tables[1:]:
            rs = per[t]
            if rs:
                cols = sorted({k for d in rs for k in d})
                conn.execute(md.tables[t].insert(), [{c: d.get(c) for c in cols} for d in rs])


def count_vectors(n, tier):
    if tier == "thorough":
        return list(itertools.product((0, 1, 2), repeat=n))
    out = [tuple([1] * n)]
    for i in range(n):
        for v in (0, 2):
            c = [1] * n
            c[i] = v
            out.append(tuple(c))
    out.append(tuple([0] * n))
    out.append(tuple([2] * n))
    seen = []
    for c in out:
        if c not in seen:
            seen.append(c)
    return seen


# ------------------------------------------------------------------ checking objects against generated rows


def verify_obj(h, obj, r, where):
    """returns problem string or None: type and every column attribute of the generated row"""
    cls = h.classes[r["cls"]]
    if type(obj) is not cls:
        return "wrong-class", "%s: row id=%d discriminator %r loaded as %s, expected %s" % (where, r["id"], r["type"], type(obj).__name__, cls.__name__)
    for k in ("id", "holder_id", "type", "a"):
        v = getattr(obj, k)
        if v != r[k]:
            return "wrong-attribute", "%s: %s(id=%d).%s = %r, generated %r" % (where, cls.__name__, r["id"], k, v, r[k])
    for j in range(h.n):
        k = "c%d" % j
        if j in h.chain[r["cls"]]:
            v = getattr(obj, k)
            if v != r[k]:
                return "wrong-attribute", "%s: %s(id=%d).%s = %r, generated %r" % (where, cls.__name__, r["id"], k, v, r[k])
    return None


def foreign_attrs(h, obj, r):
    """attributes of classes outside the object's lineage that the object nevertheless has -- observed and
    counted, not judged: the property speaks about the class's own attributes only (a column added to a shared
    table by a single-table sibling can surface on a joined cousin mapped over the same table)"""
    return [("c%d" % j) for j in range(h.n) if j not in h.chain[r["cls"]] and hasattr(obj, "c%d" % j)]


def verify_list(h, objs, exp_rows, where):
    got = [getattr(o, "id", None) for o in objs]
    exp = [r["id"] for r in exp_rows]
    if got != exp:
        return "wrong-rows", "%s: ids %r, generated rows of that class and its sub-classes %r" % (where, got, exp)
    for o, r in zip(objs, exp_rows):
        p = verify_obj(h, o, r, where)
        if p:
            return p
        if foreign_attrs(h, o, r):
            h.__dict__["_foreign"] = h.__dict__.get("_foreign", 0) + 1
    return None


def subsets(xs):
    for k in range(len(xs) + 1):
        for c in itertools.combinations(xs, k):
            yield c


def queries(h, k):
    """query descriptors for class k, simplest first"""
    D = h.desc[k]
    out = [("select",), ("legacy",), ("get",), ("select+expire",)]
    for sub in subsets(D):
        out.append(("wp", sub, "plain"))
    out.append(("wp", "*", "plain"))
    out.append(("wp", "*", "flat"))
    out.append(("wp", "*", "aliased"))
    if D:
        out.append(("wp", tuple(D), "flat"))
    for sub in subsets(D):
        if sub:
            out.append(("selectin_poly", sub))
    out.append(("of_type_join",))
    if D:
        out.append(("of_type_join_wp", tuple(D)))
    if k == 0:
        for strat in ("lazy", "selectin", "joined", "subquery"):
            out.append(("rel", strat, None))
        for sub in subsets(D):
            if sub:
                for strat in ("selectin", "joined", "subquery"):
                    out.append(("rel", strat, sub))
        out.append(("rel", "selectin", "*"))
        out.append(("rel", "joined", "*"))
    return out


def build_stmt(h, k, q):
    """the statement of query q at class k (built once per hierarchy, reused for every data set); returns
    (stmt, flags)"""
    K = h.classes[k]
    H = h.Holder
    kind = q[0]
    if kind in ("select", "select+expire"):
        return select(K).order_by(K.id)
    if kind == "wp":
        sub = q[1] if q[1] == "*" else [h.classes[i] for i in q[1]]
        wp = with_polymorphic(K, sub, flat=q[2] == "flat", aliased=q[2] == "aliased")
        return select(wp).order_by(wp.id)
    if kind == "selectin_poly":
        return select(K).options(selectin_polymorphic(K, [h.classes[i] for i in q[1]])).order_by(K.id)
    if kind == "of_type_join":
        return select(K).join_from(H, H.items.of_type(K) if k else H.items).where(H.id == 1).order_by(K.id)
    if kind == "of_type_join_wp":
        wp = with_polymorphic(K, [h.classes[i] for i in q[1]], flat=True)
        return select(wp).join_from(H, H.items.of_type(wp)).where(H.id == 1).order_by(wp.id)
    if kind == "rel":
        strat, sub = q[1], q[2]
        target = H.items
        if sub is not None:
            wp = with_polymorphic(K, "*" if sub == "*" else [h.classes[i] for i in sub], flat=True)
            target = H.items.of_type(wp)
        stmt = select(H).order_by(H.id)
        if strat != "lazy":
            stmt = stmt.options(dict(selectin=selectinload, joined=joinedload, subquery=subqueryload)[strat](target))
        return stmt
    return None


def run_query(h, eng, k, q, rows):
    """returns (kind, detail) or None"""
    K = h.classes[k]
    members = set([k] + h.desc[k])
    exp = [r for r in rows if r["cls"] in members]
    where = "%s at C%d" % (qstr(q), k)
    cache = h.__dict__.setdefault("_stmts", {})
    if (k, q) not in cache:
        cache[(k, q)] = build_stmt(h, k, q)
    stmt = cache[(k, q)]
    sess = Session(eng)
    try:
        kind = q[0]
        if kind in ("select", "select+expire"):
            objs = sess.execute(stmt).scalars().all()
            p = verify_list(h, objs, exp, where)
            if p or kind == "select":
                return p
            sess.expire_all()
            return verify_list(h, objs, exp, where + " after expire_all")
        if kind == "legacy":
            return verify_list(h, sess.query(K).order_by(K.id).all(), exp, where)
        if kind == "get":
            for r in rows:
                o = sess.get(K, r["id"])
                if r["cls"] in members:
                    if o is None:
                        return "wrong-rows", "%s: get(C%d, %d) returned None for a row of class C%d" % (where, k, r["id"], r["cls"])
                    p = verify_obj(h, o, r, where)
                    if p:
                        return p
                elif o is not None:
                    return "wrong-rows", "%s: get(C%d, %d) returned %s for a row of class C%d" % (where, k, r["id"], type(o).__name__, r["cls"])
            return None
        if kind in ("wp", "selectin_poly"):
            return verify_list(h, sess.execute(stmt).scalars().all(), exp, where)
        if kind in ("of_type_join", "of_type_join_wp"):
            exp1 = [r for r in exp if r["holder_id"] == 1]
            return verify_list(h, sess.execute(stmt).scalars().all(), exp1, where)
        if kind == "rel":
            res = sess.execute(stmt)
            if q[1] == "joined":
                res = res.unique()
            for hobj in res.scalars().all():
                p = verify_list(h, list(hobj.items), [r for r in rows if r["holder_id"] == hobj.id], "%s holder %d" % (where, hobj.id))
                if p:
                    return p
            return None
        raise AssertionError(q)
    finally:
        sess.close()


def qstr(q):
    def s(x):
        if isinstance(x, (tuple, list)):
            return "[" + ",".join("C%d" % i for i in x) + "]"
        return str(x)

    return q[0] + ("(" + ",".join(s(x) for x in q[1:]) + ")" if len(q) > 1 else "")


def qtype(q):
    """query class used in signatures (subset contents dropped)"""
    if q[0] == "wp":
        return "wp/%s/%s" % ("*" if q[1] == "*" else ("subset" if q[1] else "none"), q[2])
    if q[0] == "rel":
        return "rel/%s/%s" % (q[1], "plain" if q[2] is None else ("*" if q[2] == "*" else "of_type(wp)"))
    return q[0]


def configs_for(parents, kinds, tier="thorough"):
    """quick: the discriminator-expression variant only with load none / selectin (one deviation from the column form)"""
    n = len(parents) + 1
    has_mid = any(p != 0 for p in parents)
    for abstract in ((False, "flag", "noident") if has_mid else (False,)):
        for expr in (False, True):
            for load in POLY_LOADS:
                if n == 1 and load not in ("none", "base_wp_star"):
                    continue
                if tier == "quick" and expr and load not in ("none", "selectin"):
                    continue
                if tier == "quick" and abstract == "flag" and (load not in ("none", "selectin") or (expr and load != "none")):
                    continue
                if tier == "quick" and abstract == "noident" and (expr or load != "none"):
                    continue
                yield (parents, kinds, abstract, expr, load)


def explore_config(cfg, tier, rec=None, want=None):
    """explore one hierarchy configuration completely.  With rec: record cases and violations.
    With want=(kind, qtype): return the first (query, counts, detail) failing that way, else None."""
    with warnings.catch_warnings():
        warnings.simplefilter("ignore")
        h = Hier(*cfg)
        eng = create_engine("sqlite://", poolclass=StaticPool)
        h.Base.metadata.create_all(eng)
        try:
            for counts in count_vectors(h.n, tier):
                if any(counts[i] for i in range(h.n) if h.is_abstract[i]):
                    continue  # an abstract class has no rows of its own
                rows = h.rows(counts)
                with eng.begin() as conn:
                    h.load_rows(conn, rows)
                for k in range(h.n):
                    members = set([k] + h.desc[k])
                    exp_classes = {r["cls"] for r in rows if r["cls"] in members}
                    nontrivial = bool(exp_classes - {k}) or any(r["cls"] not in members for r in rows)
                    for q in queries(h, k):
                        if want is not None and qtype(q) != want[1]:
                            continue
                        try:
                            p = run_query(h, eng, k, q, rows)
                        except Exception as e:  # implementation call failed on a well-formed query
                            inner = traceback.extract_tb(e.__traceback__)[-1]
                            if "/sqlalchemy/" not in inner.filename:
                                raise  # harness bug
                            p = ("raised %s" % type(e).__name__, "%s at C%d: %s: %s" % (qstr(q), k, type(e).__name__, str(e)[:300]))
                        if rec is not None:
                            rec.case((cfg, counts, k, q), nontrivial=nontrivial)
                            rec.outcome((cfg[1], cfg[2], k, qtype(q), tuple(sorted(exp_classes)), p[0] if p else "ok"))
                            if p:
                                report(rec, tier, cfg, counts, k, q, p)
                            elif nontrivial and (rec.evaluations % 4099) == 7:
                                rec.sample(dict(hierarchy=h.describe(), rows_per_class=list(counts), query=qstr(q), at="C%d" % k,
                                                expected_ids=[r["id"] for r in rows if r["cls"] in members],
                                                expected_classes=sorted("C%d" % c for c in exp_classes)))
                        elif p and (p[0], qtype(q)) == want:
                            return (k, q, counts, p[1])
        finally:
            eng.dispose()
            if rec is not None and h.__dict__.get("_foreign"):
                rec.count("objects_with_attribute_of_a_foreign_class", h.__dict__["_foreign"])
                rec.note("observed (not judged): an object can carry a column attribute declared by a class outside its lineage "
                         "(single-table sibling column on a table shared with a joined cousin)")
    return None


_MIN = {}


def all_configs():
    for parents, kinds in hierarchies():
        for cfg in configs_for(parents, kinds):
            yield cfg


def _reductions(cfg):
    """simpler neighbours of a configuration, most drastic first"""
    parents, kinds, abstract, expr, load = cfg
    n = len(parents) + 1
    out = []
    has_child = {p for p in parents}
    for i in range(n - 1, 0, -1):
        if i not in has_child:  # remove leaf class i
            np_ = tuple((p - 1 if p > i else p) for j, p in enumerate(parents, start=1) if j != i)
            nk = "".join(k for j, k in enumerate(kinds, start=1) if j != i)
            ab = abstract if any(p != 0 for p in np_) else False
            out.append((np_, nk, ab, expr, load if len(np_) or load in ("none", "base_wp_star") else "none"))
    if expr:
        out.append((parents, kinds, abstract, False, load))
    if abstract:
        out.append((parents, kinds, False, expr, load))
    if load != "none":
        out.append((parents, kinds, abstract, expr, "none"))
    for i, k in enumerate(kinds):
        if k == "S":
            out.append((parents, kinds[:i] + "J" + kinds[i + 1:], abstract, expr, load))
    return out


def minimal(tier, kind, qt, own):
    """greedy reduction of the failing hierarchy configuration (drop leaf classes, expression discriminator,
    abstract flag, loading setting, single -> joined) keeping a failure of the same kind at the same query type"""
    key = (kind, qt, own)
    if key in _MIN:
        return _MIN[key]
    cur, found = own, None
    changed = True
    while changed:
        changed = False
        for c in _reductions(cur):
            f = explore_config(c, "quick", None, want=(kind, qt))
            if f:
                cur, found, changed = c, f, True
                break
    _MIN[key] = (cur, found) if found else None
    return _MIN[key]


def cfg_desc(cfg):
    return "parents=%s kinds=%s abstract=%s poly_on=%s load=%s" % (list(cfg[0]), cfg[1] or "-", cfg[2] or "no", "expr" if cfg[3] else "col", cfg[4])


def report(rec, tier, cfg, counts, k, q, p):
    kind, detail = p
    qt = qtype(q)
    if ("seen", kind) in rec._vsigs:
        rec.count("violating_cases")
        return
    rec._vsigs.add(("seen", kind))
    m = minimal(tier, kind, qt, cfg)
    if m:
        mcfg, (mk, mq, mcounts, mdetail) = m
    else:
        mcfg, mk, mq, mcounts, mdetail = cfg, k, q, counts, detail
    # one signature per failure kind and minimal hierarchy (the query form is in the detail)
    sig = "%s: %s" % (kind, cfg_desc(mcfg))
    rec.violation(sig, mdetail + "\nminimal case: %s at C%d, rows per class %s (first seen in this shard: %s rows=%s %s at C%d)" % (
        qstr(mq), mk, list(mcounts), cfg_desc(cfg), list(counts), qstr(q), k),
                  dict(kind="hier", cfg=[list(mcfg[0]), mcfg[1], mcfg[2], mcfg[3], mcfg[4]], counts=list(mcounts), k=mk, q=_qjson(mq)))


def _qjson(q):
    return [list(x) if isinstance(x, tuple) else x for x in q]


def _qfrom(j):
    return tuple(tuple(x) if isinstance(x, list) else x for x in j)


# ------------------------------------------------------------------ concrete-table hierarchy (fixed shapes)


def build_concrete(n):
    Base = declarative_base()

    class A(ConcreteBase, Base):
        __tablename__ = "ca"
        id = Column(Integer, primary_key=True)
        a = Column(Integer)
        c0 = Column(String)
        __mapper_args__ = dict(polymorphic_identity="ka", concrete=True)

    class B(A):
        __tablename__ = "cb"
        id = Column(Integer, primary_key=True)
        a = Column(Integer)
        c0 = Column(String)
        c1 = Column(String)
        __mapper_args__ = dict(polymorphic_identity="kb", concrete=True)

    classes = [A, B]
    if n == 3:

        class C(B):
            __tablename__ = "cc"
            id = Column(Integer, primary_key=True)
            a = Column(Integer)
            c0 = Column(String)
            c1 = Column(String)
            c2 = Column(String)
            __mapper_args__ = dict(polymorphic_identity="kc", concrete=True)

        classes.append(C)
    with warnings.catch_warnings():
        warnings.simplefilter("ignore")
        Base.registry.configure()
    return Base, classes


def explore_concrete(n, tier, rec):
    Base, classes = build_concrete(n)
    eng = create_engine("sqlite://", poolclass=StaticPool)
    Base.metadata.create_all(eng)
    tables = ["ca", "cb", "cc"][:n]
    for counts in count_vectors(n, tier):
        rows = []
        rid = 0
        for rep in range(2):
            for i in reversed(range(n)):
                if counts[i] > rep:
                    rid += 1
                    r = dict(id=rid, cls=i, a=None if rid % 4 == 2 else rid * 10)
                    for j in range(i + 1):
                        r["c%d" % j] = None if (rid + j) % 5 == 0 else "r%dc%d" % (rid, j)
                    rows.append(r)
        with eng.begin() as conn:
            for t in tables:
                conn.execute(Base.metadata.tables[t].delete())
            for r in rows:
                conn.execute(Base.metadata.tables[tables[r["cls"]]].insert(), {k: v for k, v in r.items() if k != "cls"})
        for k in range(n):
            K = classes[k]
            exp = [r for r in rows if r["cls"] >= k]
            variants = [("select",), ("legacy",), ("wp*",), ("get",)]
            for q in variants:
                sess = Session(eng)
                problem = None
                try:
                    try:
                        if q[0] == "select":
                            objs = sess.execute(select(K).order_by(K.id)).scalars().all()
                        elif q[0] == "legacy":
                            objs = sess.query(K).order_by(K.id).all()
                        elif q[0] == "wp*":
                            wp = with_polymorphic(K, "*")
                            objs = sess.execute(select(wp).order_by(wp.id)).scalars().all()
                        else:
                            objs = []
                            for r in rows:
                                o = sess.get(K, r["id"])
                                # concrete tables have independent key spaces only by convention; ids are globally unique here
                                if (o is not None) != (r["cls"] >= k):
                                    problem = ("wrong-rows", "concrete get(%s, %d) -> %r for a row of class %d" % (K.__name__, r["id"], o, r["cls"]))
                                    break
                                if o is not None:
                                    objs.append(o)
                        if problem is None:
                            got = [o.id for o in objs]
                            if got != [r["id"] for r in exp]:
                                problem = ("wrong-rows", "concrete %s at %s: ids %r, generated %r" % (q[0], K.__name__, got, [r["id"] for r in exp]))
                        if problem is None:
                            for o, r in zip(objs, exp):
                                if type(o) is not classes[r["cls"]]:
                                    problem = ("wrong-class", "concrete %s at %s: row %d loaded as %s expected %s" % (q[0], K.__name__, r["id"], type(o).__name__, classes[r["cls"]].__name__))
                                    break
                                for key in ("a",) + tuple("c%d" % j for j in range(n)):
                                    if key in r:
                                        if getattr(o, key) != r[key]:
                                            problem = ("wrong-attribute", "concrete %s at %s: %s(id=%d).%s = %r generated %r" % (q[0], K.__name__, type(o).__name__, r["id"], key, getattr(o, key), r[key]))
                                    elif hasattr(o, key):
                                        problem = ("foreign-attribute", "concrete %s at %s: %s(id=%d) has %s" % (q[0], K.__name__, type(o).__name__, r["id"], key))
                                if problem:
                                    break
                    except Exception as e:
                        problem = ("raised %s" % type(e).__name__, "concrete %s at %s: %s" % (q[0], K.__name__, str(e)[:300]))
                finally:
                    sess.close()
                nontrivial = len({r["cls"] for r in exp}) > 1 or len(exp) != len(rows)
                rec.case(("concrete", n, counts, k, q), nontrivial=nontrivial)
                rec.outcome(("concrete", n, k, q, tuple(sorted({r["cls"] for r in exp})), problem[0] if problem else "ok"))
                if problem:
                    rec.violation("concrete(%d classes) %s %s at class %d rows_per_class=%s" % (n, problem[0], q[0], k, list(counts)), problem[1],
                                  dict(kind="concrete", n=n), kind=("concrete", n, problem[0], q[0]))
    eng.dispose()


# ------------------------------------------------------------------ driver


def shards(tier, seed):
    out = []
    maxn = int(os.environ.get("VF_C42_MAXN", "0"))
    for parents, kinds in hierarchies():
        if maxn and len(parents) + 1 > maxn:
            continue
        cfgs = list(configs_for(parents, kinds, tier))
        if len(parents) == 3 and tier == "thorough":
            for i in range(0, len(cfgs), 5):
                out.append(["hier", list(parents), kinds, i, i + 5])
        elif len(parents) == 3:
            half = len(cfgs) // 2
            out.append(["hier", list(parents), kinds, 0, half])
            out.append(["hier", list(parents), kinds, half, len(cfgs)])
        else:
            out.append(["hier", list(parents), kinds, 0, len(cfgs)])
    out.append(["concrete", 2])
    out.append(["concrete", 3])
    return out


def run_shard(shard, tier, rec):
    if os.environ.get("VF_C42_MAXN"):
        rec.cap("VF_C42_MAXN debug cap")
    if shard[0] == "concrete":
        return explore_concrete(shard[1], tier, rec)
    _, parents, kinds, lo, hi = shard
    cfgs = list(configs_for(tuple(parents), kinds, tier))[lo:hi]
    for cfg in cfgs:
        rec.count("hierarchy_configurations")
        explore_config(cfg, tier, rec)


def replay(case):
    from ..core import Rec, StopShard

    rec = Rec(ID)
    try:
        if case.get("kind") == "concrete":
            explore_concrete(case["n"], "thorough", rec)
            return [(v["sig"], v["detail"]) for v in rec.violations]
        c = case["cfg"]
        cfg = (tuple(c[0]), c[1], c[2], c[3], c[4])
        q = _qfrom(case["q"])
        with warnings.catch_warnings():
            warnings.simplefilter("ignore")
            h = Hier(*cfg)
            eng = create_engine("sqlite://", poolclass=StaticPool)
            h.Base.metadata.create_all(eng)
            rows = h.rows(case["counts"])
            with eng.begin() as conn:
                h.load_rows(conn, rows)
            try:
                p = run_query(h, eng, case["k"], q, rows)
            except Exception as e:
                p = ("raised %s" % type(e).__name__, "%s: %s" % (type(e).__name__, str(e)[:300]))
            eng.dispose()
        if p:
            return [("%s: %s" % (p[0], cfg_desc(cfg)), p[1])]
    except StopShard:
        pass
    return []
