"""C14 DDL is emitted in dependency order for any foreign-key graph (engine I).

Every foreign-key multigraph on n tables (self references, composite FKs,
parallel FKs between one pair, named / unnamed, use_alter on / off) is built as
a real MetaData and

1. ``create_all`` / ``drop_all`` run against the *strict catalog model*
   (vf/models/catalog.py: a postgresql-dialect mock connection whose catalog
   refuses CREATE TABLE with a dangling inline FK, ALTER on a missing table,
   DROP TABLE of a still-referenced table, ...), with checkfirst off from the
   empty / full catalog and with checkfirst on from every FK-closed subset of
   pre-existing tables: no statement may be refused, the catalog must end up
   exactly full / empty.  The only accepted errors are the two documented ones
   (CircularDependencyError when the *unnamed* constraints alone form a cycle,
   CompileError for an unnamed use_alter constraint at DROP);
2. the same MetaData is executed on SQLite with ``PRAGMA foreign_keys=ON``
   (catalog via sqlite_master / PRAGMA foreign_key_list; for acyclic graphs one
   row per table is inserted in ``sorted_tables`` order so that SQLite really
   enforces parent-before-child on INSERT and child-before-parent on DROP);
3. ``sorted_tables`` lists the referenced table first for every dependency of a
   table that is not part of a cycle, and warns exactly when there is a cycle.

Declaration histories (layer "hist"): the same three oracles are applied to
MetaData objects whose final FK graph (<= 3 tables) was *reached* differently:
FK targets given as "table.column" strings or as Column objects, tables
declared in every order (referencing before referenced, resolved late),
``metadata.remove(t)`` followed by re-declaration of a referred table, and FKs
added only after a first ``sorted_tables`` / ``create_all``+``drop_all`` call
through ``Table(..., extend_existing=True)`` (new column or new constraint),
``Table.append_constraint`` or ``Column.append_foreign_key`` - every history
within a bounded number of deviations from the plain up-front declaration.

Mutations caught: (each in a private copy of lib/, quick tier, each gave new VIOLATION signatures)
  * sql/ddl.py sort_tables_and_constraints: dependency edge reversed ``(table, dependent_on)``
    -> sorted_tables-order, create-rejected:referenced-table-missing, sqlite insert order;
  * sort_tables_and_constraints: ``if dependent_on is not table`` dropped (self reference treated as a cycle)
    -> sorted_tables-error / create-CircularDependencyError on one self-referential table;
  * SchemaDropper.visit_metadata: ``reversed(...)`` removed (drop order not reversed)
    -> drop-rejected:alter-table-missing / drop-referenced-table, sqlite IntegrityError;
  * SchemaDropper filter_fn: ``constraint.name is None`` -> ``is not None``
    -> drop-CircularDependencyError on an all-named cycle, drop-CompileError;
  * SchemaDropper._can_drop_table: ``self._has_table`` -> ``not self._has_table`` (checkfirst inverted)
    -> drop-incomplete, drop-rejected:drop-table-missing, sqlite-drop-incomplete;
  * sort_tables: ``_warn_for_cycles=True`` -> False -> sorted_tables-warning;
  * cycle resolution: ``remaining_fkcs.update(can_remove[1:])`` (one constraint of the cycle stays inline)
    -> create-rejected:referenced-table-missing;
  * final list: ``table.foreign_key_constraints`` without ``.difference(remaining_fkcs)`` (inline *and* ALTER)
    -> create-rejected:referenced-table-missing;
  * the (None, constraints) entry emitted before the last table -> create-rejected:alter-table-missing.
  * sql/schema.py ForeignKey._set_remote_table returning early when the FK already has a resolved column
    (child keeps pointing at the removed Table) -> sorted_tables-order / create-rejected | history: remove+redeclare;
  * Table.foreign_key_constraints memoized on first use -> sorted_tables-order / create-rejected | history:
    sorted_tables (or create_all+drop_all); then FK via ext_col;
  * MetaData._remove_table also purging the memos of FKs pointing *at* the removed table -> same, remove+redeclare;
  * Column.append_foreign_key dropping the FK from table.foreign_keys -> ... | history: FK via append_fk;
  (equivalent, not caught: the memo keyed by len(table.constraints) - every way of adding an FK adds a constraint).
  Not caught, by design: compiler.create_table_constraints ignoring use_alter - create_all never relies on it
  (it passes include_foreign_key_constraints), only Table.create() does, which is outside this property.
"""
import functools
import itertools
import warnings

from sqlalchemy import Column
from sqlalchemy import create_engine
from sqlalchemy import exc
from sqlalchemy import ForeignKey
from sqlalchemy import ForeignKeyConstraint
from sqlalchemy import Index
from sqlalchemy import Integer
from sqlalchemy import MetaData
from sqlalchemy import Table
from sqlalchemy import UniqueConstraint
from sqlalchemy.pool import StaticPool

from ..models import catalog as cat

ID = "C14"
LEVEL = "exploration"
META = dict(
    engine="I",
    technique="exhaustive small-scope enumeration of foreign-key multigraphs; real create_all/drop_all replayed on a strict "
    "catalog model (postgresql dialect, checkfirst answered by the model) and executed on SQLite with foreign keys enforced",
    design_ref="DESIGN.md §5 C14",
    level_text="Every FK multigraph on 1-3 tables (quick) / 4 tables up to isomorphism (thorough): each ordered pair of "
    "tables (self pairs included) carries no FK, one FK (named / unnamed / named+use_alter / unnamed+use_alter; one- or "
    "two-column by a fixed rule) or two parallel FKs. For each MetaData: sorted_tables is checked against the graph; "
    "create_all then drop_all run on the strict catalog model with checkfirst off, and with checkfirst on from every "
    "FK-closed set of pre-existing tables (pre-state built by create_all(tables=...)); every statement must be accepted and "
    "the catalog must end full / empty, or the call must raise exactly the documented error; the same MetaData is executed "
    "on SQLite (PRAGMA foreign_keys=ON) with rows inserted in sorted_tables order when the graph is acyclic. The catalog "
    "reads the facts from the text compiled for the dialect and cross-checks the DDL construct's element.",
    level_note="PostgreSQL enforcement is modelled (40 rules-lines in vf/models/catalog.py), not executed; the model's "
    "parser is validated on every case because the SQLite route compares sqlite_master / PRAGMA foreign_key_list with the "
    "same expectation. quick: 3 tables: all 512 edge sets x all-named base with <= 2 edges turned unnamed/use_alter, <= 1 "
    "unnamed use_alter, one parallel pair with <= 2 other edges; 1-2 tables: the full product. checkfirst pre-states only "
    "for cases with few deviations (see LAYERS).",
    rule="case = (number of tables, list of FK constraints (src, dst, columns, named, use_alter)); evaluated on up to 4 "
    "routes (sorted_tables, catalog model, catalog model with checkfirst from every closed pre-state, SQLite); "
    "non-trivial = at least one FK between two different tables (an ordering constraint exists)",
    assumptions=[
        "history layer: single-column named FKs, <= 3 tables, <= 3 FKs; a re-declared table is re-declared identically",
        "FK targets are the primary key or a UNIQUE pair of the referred table",
        "the pre-existing part of a database is FK-closed (was itself created by create_all)",
    ],
    bounds=dict(
        quick="<=3 tables: all edge sets x <=2 attribute deviations (+ parallel pairs, + unnamed use_alter); 1-2 tables full product; "
        "declaration histories: 2 tables <=2 FKs x <=3 history deviations, 3 tables <=2 FKs x <=2 history deviations",
        thorough="3 tables: full product over {none, named, unnamed, use_alter} per pair (4^9) + parallel pairs with <=3 other edges + second column rule; 4 tables: all 3044 isomorphism classes x (<=1 edge unnamed/use_alter, or exactly 2 edges unnamed); "
        "declaration histories: 2 tables <=3 FKs x <=4 deviations, 3 tables <=2 FKs x <=3, 3 tables 3 FKs x <=2",
    ),
)

# ------------------------------------------------------------------ world
# an FK constraint is (src, dst, shape, named, alter):  table t<src> references
# t<dst>; shape 's' = one column -> t<dst>.id, 'c' = two columns ->
# t<dst>(u1, u2); named 0/1; alter = use_alter 0/1


def fk_cols(dst, shape):
    return ("s%d" % dst,) if shape == "s" else ("c%da" % dst, "c%db" % dst)


def fk_rcols(shape):
    return ("id",) if shape == "s" else ("u1", "u2")


def fk_name(f):
    return "fk_%d_%d_%s" % (f[0], f[1], f[2]) if f[3] else None


def build(n, fks):
    md = MetaData()
    tabs = []
    for i in range(n):
        args = [Column("id", Integer, primary_key=True), Column("u1", Integer), Column("u2", Integer)]
        cons = [UniqueConstraint("u1", "u2")]
        for f in fks:
            src, dst, shape, named, alter = f
            if src != i:
                continue
            if shape == "s" and (src + dst) % 2 == 0:
                # column-level ForeignKey (creates the constraint implicitly)
                args.append(Column("s%d" % dst, Integer, ForeignKey("t%d.id" % dst, name=fk_name(f), use_alter=bool(alter))))
            else:
                for c in fk_cols(dst, shape):
                    args.append(Column(c, Integer))
                cons.append(
                    ForeignKeyConstraint(
                        list(fk_cols(dst, shape)),
                        ["t%d.%s" % (dst, c) for c in fk_rcols(shape)],
                        name=fk_name(f),
                        use_alter=bool(alter),
                    )
                )
        t = Table("t%d" % i, md, *(args + cons))
        Index("ix_t%d" % i, t.c.u2)
        tabs.append(t)
    return md, tabs


def table_cols(i, fks):
    cols = ["id", "u1", "u2"]
    for f in fks:
        if f[0] == i:
            cols.extend(fk_cols(f[1], f[2]))
    return cols


def expected_snapshot(fks, present):
    """what a complete catalog restricted to the tables ``present`` looks like"""
    tabs = []
    for i in sorted(present):
        fl = sorted(
            (fk_name(f) or "", fk_cols(f[1], f[2]), (None, "t%d" % f[1]), fk_rcols(f[2])) for f in fks if f[0] == i
        )
        tabs.append(((None, "t%d" % i), tuple(table_cols(i, fks)), ("id",), (("u1", "u2"),), tuple(fl)))
    idx = tuple(sorted(((None, "ix_t%d" % i), ((None, "t%d" % i), ("u2",), False)) for i in present))
    return (tuple(sorted(tabs)), idx)


# ----------------------------------------------------- reference predicates


def _cyclic_nodes(n, edges):
    """nodes lying on a directed cycle of length >= 2 (self loops ignored)"""
    reach = [[False] * n for _ in range(n)]
    for a, b in edges:
        if a != b:
            reach[a][b] = True
    for k in range(n):
        for i in range(n):
            if reach[i][k]:
                for j in range(n):
                    if reach[k][j]:
                        reach[i][j] = True
    return {i for i in range(n) if reach[i][i]}


def drop_expectation(n, fks, present):
    """set of allowed outcome classes of drop_all over the tables ``present``"""
    live = [f for f in fks if f[0] in present]
    allowed = set()
    hard = [(f[0], f[1]) for f in live if not f[3] and not f[4]]
    if _cyclic_nodes(n, hard):
        allowed.add("CircularDependencyError")
    if any(f[4] and not f[3] for f in live):
        allowed.add("CompileError")
    if not allowed:
        allowed.add("ok")
    return allowed


def closed_subsets(n, fks):
    for k in range(0, n + 1):
        for sub in itertools.combinations(range(n), k):
            s = set(sub)
            if all(f[1] in s for f in fks if f[0] in s):
                yield sub


# ------------------------------------------------------------ PG (model) route


def _run(fn):
    """-> (outcome class, detail)"""
    try:
        fn()
        return "ok", ""
    except cat.Reject as e:
        return "rejected:" + e.rule, str(e)
    except exc.CircularDependencyError as e:
        return "CircularDependencyError", str(e)[:200]
    except exc.CompileError as e:
        return "CompileError", str(e)[:200]
    except exc.SQLAlchemyError as e:
        return "error:" + type(e).__name__, str(e)[:300]


def _canon_log(entries):
    """emitted statements for a report: runs of the same statement kind are shown sorted (the order of the ALTERs among
    themselves comes from set iteration over objects hashed by id and means nothing to the catalog)"""
    out, run = [], []
    for e in entries:
        if run and run[-1][0] != e[0]:
            out.extend(sorted(run))
            run = []
        run.append(e)
    out.extend(sorted(run))
    return out


def _ddl_summary(conn, start=0):
    return [k for k, _ in conn.catalog.log[start:]]


def pg_route(md, tabs, n, fks, pre, checkfirst, out, stats):
    """pre: tuple of table numbers that already exist (FK-closed)"""
    allt = set(range(n))
    tag = "pre=%s checkfirst=%s" % (list(pre), checkfirst)
    # ---- create from pre-state
    conn = cat.CatalogConnection()
    if pre:
        oc, d = _run(lambda: md.create_all(conn, tables=[tabs[i] for i in pre], checkfirst=False))
        if oc != "ok":
            out.append(("create-subset-%s" % oc, "create_all(tables=%s): %s" % (list(pre), d)))
            return
        if conn.catalog.snapshot() != expected_snapshot(fks, pre):
            out.append(("create-subset-incomplete", "create_all(tables=%s) left %r" % (list(pre), conn.catalog.log)))
            return
    pre_cat = conn.catalog.clone() if (checkfirst and len(pre) < n) else None
    mark = len(conn.catalog.log)
    oc, d = _run(lambda: md.create_all(conn, checkfirst=checkfirst))
    if oc != "ok":
        out.append(("create-%s" % oc, "%s: %s; emitted %r" % (tag, d, _canon_log(conn.catalog.log[mark:]))))
    elif conn.catalog.snapshot() != expected_snapshot(fks, allt):
        out.append(("create-incomplete", "%s: catalog after create_all lacks objects; emitted %r" % (tag, _canon_log(conn.catalog.log[mark:]))))
    else:
        kinds = _ddl_summary(conn, mark)
        stats["create"] = (kinds.count("create_table"), kinds.count("add_fk"), kinds.count("create_index"))
        if len(pre) == n and kinds:
            out.append(("create-checkfirst-emits-on-full", "%s: %r" % (tag, conn.catalog.log[mark:])))
        # ---- full -> drop everything (only checkfirst False needs the full state
        # separately; with checkfirst True the full state is pre == all)
        if not pre:
            _drop(md, conn, n, fks, allt, checkfirst, tag + " from=full", out, stats)
    # ---- drop from the pre-state itself (checkfirst only: only existing tables may be dropped)
    if checkfirst and len(pre) < n:
        conn2 = cat.CatalogConnection(pre_cat)
        _drop(md, conn2, n, fks, set(pre), True, tag + " from=pre", out, stats)


def _drop(md, conn, n, fks, present, checkfirst, tag, out, stats):
    allowed = drop_expectation(n, fks, present)
    mark = len(conn.catalog.log)
    oc, d = _run(lambda: md.drop_all(conn, checkfirst=checkfirst))
    emitted = _canon_log(conn.catalog.log[mark:])
    if oc == "ok":
        if conn.catalog.snapshot() != ((), ()):
            out.append(("drop-incomplete", "%s: left %r; emitted %r" % (tag, conn.catalog.snapshot(), emitted)))
        elif not present and emitted:
            out.append(("drop-checkfirst-emits-on-empty", "%s: %r" % (tag, emitted)))
    if oc not in allowed:
        out.append(("drop-%s" % oc, "%s: drop_all -> %s (%s), allowed %s; emitted %r" % (tag, oc, d, sorted(allowed), emitted)))
    kinds = [k for k, _ in emitted]
    # (after an error the number of statements already emitted depends on set iteration order: not recorded)
    stats.setdefault("drop", []).append((oc, kinds.count("drop_constraint"), kinds.count("drop_table")) if oc == "ok" else (oc,))


# ------------------------------------------------------------ SQLite route

_ENG = {}


def _sqlite_conn(fresh=False):
    if fresh or "c" not in _ENG:
        if "c" in _ENG:
            try:
                _ENG["c"].close()
                _ENG["e"].dispose()
            except Exception:
                pass
        e = create_engine("sqlite://", poolclass=StaticPool)
        c = e.connect()
        c.exec_driver_sql("PRAGMA foreign_keys=ON")
        _ENG["e"], _ENG["c"] = e, c
    return _ENG["c"]


def _sqlite_catalog(c):
    rows = c.exec_driver_sql("select type, name, tbl_name from sqlite_master where name not like 'sqlite_%' order by 1, 2").fetchall()
    tabs = sorted(r[1] for r in rows if r[0] == "table")
    idx = sorted((r[1], r[2]) for r in rows if r[0] == "index")
    fkl = {}
    cols = {}
    for t in tabs:
        by_id = {}
        for r in c.exec_driver_sql('PRAGMA foreign_key_list("%s")' % t).fetchall():
            by_id.setdefault(r[0], []).append((r[1], r[3], r[2], r[4]))
        fkl[t] = sorted((tuple(x[1] for x in sorted(v)), v[0][2], tuple(x[3] for x in sorted(v))) for v in by_id.values())
        cols[t] = [r[1] for r in c.exec_driver_sql('PRAGMA table_info("%s")' % t).fetchall()]
    return tabs, idx, fkl, cols


def sqlite_route(md, tabs, n, fks, checkfirst, out, stats, fresh=False):
    c = _sqlite_conn(fresh)
    if c.exec_driver_sql("select count(*) from sqlite_master").scalar():
        c = _sqlite_conn(True)
    edges = [(f[0], f[1]) for f in fks]
    soft_free = [(f[0], f[1]) for f in fks if not f[4]]
    tag = "sqlite checkfirst=%s" % checkfirst
    with warnings.catch_warnings(record=True) as w:
        warnings.simplefilter("always")
        try:
            md.create_all(c, checkfirst=checkfirst)
        except exc.SQLAlchemyError as e:
            out.append(("sqlite-create-error:" + type(e).__name__, "%s: %s" % (tag, str(e)[:300])))
            c.rollback()
            _sqlite_conn(True)
            return
    if w:
        out.append(("sqlite-create-warning", "%s: %s" % (tag, [str(x.message)[:120] for x in w])))
    gt, gi, gf, gc = _sqlite_catalog(c)
    et = ["t%d" % i for i in range(n)]
    ei = [("ix_t%d" % i, "t%d" % i) for i in range(n)]
    ef = {"t%d" % i: sorted((fk_cols(f[1], f[2]), "t%d" % f[1], fk_rcols(f[2])) for f in fks if f[0] == i) for i in range(n)}
    ec = {"t%d" % i: table_cols(i, fks) for i in range(n)}
    if (gt, gi, gf, gc) != (et, ei, ef, ec):
        out.append(("sqlite-create-incomplete", "%s: sqlite_master has tables %r indexes %r fks %r" % (tag, gt, gi, gf)))
    rows = False
    if not _cyclic_nodes(n, edges) and not any(f[4] for f in fks):
        # acyclic (self references allowed): SQLite enforces the order of sorted_tables on INSERT
        rows = True
        with warnings.catch_warnings(record=True):
            warnings.simplefilter("always")
            order = md.sorted_tables
        try:
            for t in order:
                vals = dict(id=1, u1=1, u2=1)
                for col in t.c:
                    if col.name[0] in "sc" and col.name != "id":
                        vals[col.name] = 1
                c.execute(t.insert(), vals)
        except exc.IntegrityError as e:
            out.append(("sqlite-insert-in-sorted_tables-order-fails", "%s: order %r: %s" % (tag, [t.name for t in order], str(e)[:120])))
            rows = None
    with warnings.catch_warnings(record=True) as w:
        warnings.simplefilter("always")
        try:
            md.drop_all(c, checkfirst=checkfirst)
            err = None
        except exc.SQLAlchemyError as e:
            err = e
    if err is not None:
        out.append(("sqlite-drop-error:" + type(err).__name__, "%s rows=%s: %s" % (tag, rows, str(err)[:300])))
        c.rollback()
        _sqlite_conn(True)
        return
    msgs = [str(x.message) for x in w]
    want_warn = bool(_cyclic_nodes(n, soft_free))
    got_warn = any("Can't sort tables for DROP" in m for m in msgs)
    if want_warn != got_warn or len(msgs) > int(got_warn):
        out.append(("sqlite-drop-warning", "%s: cycle among non-use_alter FKs=%s, warnings=%r" % (tag, want_warn, [m[:100] for m in msgs])))
    left = c.exec_driver_sql("select type, name from sqlite_master where name not like 'sqlite_%'").fetchall()
    if left:
        out.append(("sqlite-drop-incomplete", "%s: left %r" % (tag, left)))
        _sqlite_conn(True)
    c.commit()
    stats["sqlite"] = (rows, got_warn)


# ------------------------------------------------------------ sorted_tables


def sorted_route(md, tabs, n, fks, out, stats):
    with warnings.catch_warnings(record=True) as w:
        warnings.simplefilter("always")
        try:
            order = [int(t.name[1:]) for t in md.sorted_tables]
        except exc.SQLAlchemyError as e:
            out.append(("sorted_tables-error:" + type(e).__name__, str(e)[:200]))
            return
    if sorted(order) != list(range(n)):
        out.append(("sorted_tables-not-a-permutation", repr(order)))
        return
    deps = sorted({(f[0], f[1]) for f in fks if not f[4] and f[0] != f[1]})
    cyc = _cyclic_nodes(n, deps)
    pos = {t: i for i, t in enumerate(order)}
    for a, b in deps:
        # documented: "the foreign keys of these [cycle] tables are omitted from consideration ...
        # Tables which are not part of the cycle will still be returned in dependency order"
        if a not in cyc and pos[b] > pos[a]:
            out.append(("sorted_tables-order", "t%d references t%d (t%d not in a cycle) but sorted_tables=%r" % (a, b, a, order)))
            break
    msgs = [str(x.message) for x in w]
    got = any("Cannot correctly sort tables" in m for m in msgs)
    if got != bool(cyc) or len(msgs) > int(got):
        out.append(("sorted_tables-warning", "cycle=%s warnings=%r" % (sorted(cyc), [m[:100] for m in msgs])))
    stats["sorted"] = (tuple(order), got)
    stats["weak_edges"] = sum(1 for a, b in deps if a in cyc and (b not in cyc) and pos[b] > pos[a])


# ------------------------------------------------------------ one case


def check_case(n, fks, routes, fresh=False):
    """routes: string of letters
    s = sorted_tables;  p = catalog model, checkfirst off;  k = catalog model, checkfirst on from every FK-closed
    pre-state;  q = SQLite executed on a fresh MetaData (checkfirst off and on);  x = SQLite executed on the MetaData
    object that has already been through create_all/drop_all on the postgresql-dialect model"""
    out, stats = [], {}
    fks = tuple(tuple(f) for f in fks)
    md, tabs = build(n, fks)
    if "s" in routes:
        sorted_route(md, tabs, n, fks, out, stats)
    if "p" in routes:
        pg_route(md, tabs, n, fks, (), False, out, stats)
    if "k" in routes:
        for pre in closed_subsets(n, fks):
            pg_route(md, tabs, n, fks, pre, True, out, stats)
    if "q" in routes:
        md2, tabs2 = build(n, fks)
        sqlite_route(md2, tabs2, n, fks, False, out, stats, fresh)
        sqlite_route(md2, tabs2, n, fks, True, out, stats, fresh)
    if "x" in routes:
        out2 = []
        sqlite_route(md, tabs, n, fks, False, out2, {}, fresh)
        out.extend(("reused-metadata-" + k, d) for k, d in out2)
    return out, stats


# ------------------------------------------------------------ enumeration
# a pair state is '-' (no FK), one letter (one FK) or two letters (two parallel FKs: the first is the single-column
# one, the second the composite one); letters: N named, U unnamed, A named+use_alter, X unnamed+use_alter

LETTER = dict(N=(1, 0), U=(0, 0), A=(1, 1), X=(0, 1))


def shape_of(src, dst, rule):
    if src == dst:
        return "c" if (src + rule) % 2 == 1 else "s"
    return "c" if (src + 2 * dst + rule) % 3 == 2 else "s"


def fks_of(n, states, rule=0):
    """states: tuple of n*n pair states in row-major (src, dst) order"""
    out = []
    for idx, st in enumerate(states):
        if st == "-":
            continue
        src, dst = divmod(idx, n)
        if len(st) == 1:
            out.append((src, dst, shape_of(src, dst, rule)) + LETTER[st])
        else:
            out.append((src, dst, "s") + LETTER[st[0]])
            out.append((src, dst, "c") + LETTER[st[1]])
    return tuple(out)


def _dev_assignments(m, letters, maxdev):
    """all assignments of m edges: base 'N', at most maxdev edges take a letter from ``letters``; simplest first"""
    for k in range(0, min(maxdev, m) + 1):
        for where in itertools.combinations(range(m), k):
            for what in itertools.product(letters, repeat=k):
                a = ["N"] * m
                for w, l in zip(where, what):
                    a[w] = l
                yield a


def layer_full(n, alphabet, p=0, parts=1):
    """every assignment pair -> alphabet ('-' included), fewest FKs first; shard p of parts takes every parts-th
    assignment (computed by index, nothing is generated and thrown away)"""
    np_ = n * n
    base = 0
    na = len(alphabet)
    for k in range(np_ + 1):
        total = na**k
        for where in itertools.combinations(range(np_), k):
            for j in range((p - base) % parts, total, parts):
                st = ["-"] * np_
                for w in where:
                    j, d = divmod(j, na)
                    st[w] = alphabet[d]
                yield tuple(st)
            base += total


def layer_dev(n, letters, maxdev, edge_sets=None, p=0, parts=1):
    """every edge set; all-named base with <= maxdev edges deviating to ``letters``; sharded by edge set"""
    np_ = n * n
    if edge_sets is None:
        edge_sets = (es for k in range(np_ + 1) for es in itertools.combinations(range(np_), k))
    for i, es in enumerate(edge_sets):
        if i % parts != p:
            continue
        for a in _dev_assignments(len(es), letters, maxdev):
            st = ["-"] * np_
            for w, l in zip(es, a):
                st[w] = l
            yield tuple(st)


def layer_parallel(n, combos, others, max_other, p=0, parts=1):
    """exactly one pair carries two parallel FKs (combo), <= max_other other pairs carry one FK from ``others``;
    sharded by (parallel pair, positions of the others)"""
    np_ = n * n
    i = 0
    for k in range(max_other + 1):
        for pp in range(np_):
            rest = [x for x in range(np_) if x != pp]
            for where in itertools.combinations(rest, k):
                i += 1
                if i % parts != p:
                    continue
                for what in itertools.product(others, repeat=k):
                    for combo in combos:
                        st = ["-"] * np_
                        st[pp] = combo
                        for w, l in zip(where, what):
                            st[w] = l
                        yield tuple(st)


@functools.lru_cache(None)
def iso_classes(n):
    """one representative edge set (tuple of pair indexes) per isomorphism class of digraphs with loops"""
    perms = list(itertools.permutations(range(n)))
    np_ = n * n
    maps = []
    for pm in perms:
        maps.append([pm[i // n] * n + pm[i % n] for i in range(np_)])
    seen = set()
    out = []
    for mask in range(1 << np_):
        if mask in seen:
            continue
        bits = [i for i in range(np_) if mask >> i & 1]
        for mp in maps:
            m2 = 0
            for b in bits:
                m2 |= 1 << mp[b]
            seen.add(m2)
        out.append(tuple(bits))
    out.sort(key=lambda b: (len(b), b))
    return out


P2 = [a + b for a in "NUA" for b in "NUA"]

P3 = [a + b for a in "NUAX" for b in "NUAX"]


def _n2_small(p, parts):
    i = 0
    for st in layer_full(2, "NUAX"):
        i += 1
        if i % parts == p:
            yield st
    for pp in range(4):
        rest = [x for x in range(4) if x != pp]
        for what in itertools.product("-NUA", repeat=3):
            i += 1
            if i % parts != p:
                continue
            for combo in P3:
                st = ["-"] * 4
                st[pp] = combo
                for w, l in zip(rest, what):
                    st[w] = l
                yield tuple(st)


LAYERS = {
    # name: (n, routes, generator factory (shard, parts), k-route only when <= this many non-'N' letters,
    #        q-route likewise)
    "n1": (1, "spkqx", lambda p, q: layer_full(1, ["N", "U", "A", "X"] + P3, p, q), 9, 9),
    "n2": (2, "spkqx", _n2_small, 9, 9),
    "n2full": (2, "spkqx", lambda p, q: layer_full(2, ["N", "U", "A", "X"] + P2, p, q), 9, 9),
    "n3dev2": (3, "spkq", lambda p, q: layer_dev(3, "UA", 2, None, p, q), 1, 9),
    "n3x": (3, "sp", lambda p, q: (st for st in layer_dev(3, "X", 1, None, p, q) if "X" in st), 0, 0),
    "n3par2": (3, "spk", lambda p, q: layer_parallel(3, P2, "NU", 2, p, q), 2, 0),
    "n3full": (3, "spkq", lambda p, q: layer_full(3, "NUA", p, q), 2, 9),
    "n3par3": (3, "spk", lambda p, q: layer_parallel(3, P2, "NU", 3, p, q), 2, 0),
    "n3rule1": (3, "spq", lambda p, q: layer_dev(3, "UA", 2, None, p, q), 0, 9),
    "n4iso": (4, "spkq", lambda p, q: layer_dev(4, "UA", 1, iso_classes(4), p, q), 1, 1),
    "n4isoU2": (4, "sp", lambda p, q: (st for st in layer_dev(4, "U", 2, iso_classes(4), p, q) if st.count("U") == 2), 0, 0),
}
RULE = {"n3rule1": 1}
TIER_LAYERS = dict(
    quick=[("n1", 1), ("n2", 8), ("n3dev2", 48), ("n3x", 4), ("n3par2", 24)],
    thorough=[("n1", 1), ("n2full", 32), ("n3full", 256), ("n3x", 4), ("n3par3", 48), ("n3rule1", 32), ("n4iso", 64), ("n4isoU2", 128)],
)


def shards(tier, seed):
    out = [(name, p, parts) for name, parts in TIER_LAYERS[tier] for p in range(parts)]
    out += [("hist", p, HIST_PARTS[tier]) for p in range(HIST_PARTS[tier])]
    return out


def routes_for(routes, fks, kmax, qmax=9):
    """SQLite cannot tell named from unnamed constraints apart in any way that matters for ordering, and refuses
    nothing at DDL time: execute it only for the all-named variants (still every edge set x every use_alter set).
    The checkfirst pre-state route is the most expensive one: it runs for cases with <= kmax plain-named deviations"""
    if any(not f[3] for f in fks):
        routes = routes.replace("q", "").replace("x", "")
    dev = sum(1 for f in fks if f[4] or not f[3])
    if dev > kmax:
        routes = routes.replace("k", "")
    if dev > qmax:
        routes = routes.replace("q", "")
    return routes


# ------------------------------------------------------------ minimisation


_BUDGET = [0]


def _kinds(n, fks, routes):
    _BUDGET[0] -= 1
    if _BUDGET[0] < 0:
        return set()  # minimisation budget of this shard used up: candidates are simply not accepted any more
    return {k for k, _ in check_case(n, fks, routes, fresh=True)[0]}


_LETTER_RANK = {(1, 0): 0, (0, 0): 1, (1, 1): 2, (0, 1): 3}


def _rank(fks):
    return (
        len({f[0] for f in fks} | {f[1] for f in fks}),
        len(fks),
        sum(_LETTER_RANK[(f[3], f[4])] for f in fks),
        sum(1 for f in fks if f[2] == "c"),
    ) + (sorted((f[0], f[1], f[2] == "c", _LETTER_RANK[(f[3], f[4])]) for f in fks),)


def minimise(n, fks, routes, kind):
    """descend (strictly, in a well-founded order) to a locally minimal case that still shows ``kind``: drop FKs,
    turn composite into single-column, make attributes plainer (named < unnamed < use_alter), then pick the smallest
    table relabelling on the fewest tables that still shows it"""
    fks = sorted(fks)
    changed = True
    while changed:
        changed = False
        cands = [fks[:i] + fks[i + 1 :] for i in range(len(fks))]
        for i, f in enumerate(fks):
            if f[2] == "c" and not any(g[:2] == f[:2] and g[2] == "s" for g in fks):
                cands.append(fks[:i] + [(f[0], f[1], "s", f[3], f[4])] + fks[i + 1 :])
            for (nm, al), r in sorted(_LETTER_RANK.items(), key=lambda kv: kv[1]):
                if r < _LETTER_RANK[(f[3], f[4])]:
                    cands.append(fks[:i] + [(f[0], f[1], f[2], nm, al)] + fks[i + 1 :])
            for j, g in enumerate(fks):
                if j > i and g[:2] == f[:2]:  # parallel pair: swap the attributes
                    sw = list(fks)
                    sw[i] = f[:3] + g[3:]
                    sw[j] = g[:3] + f[3:]
                    cands.append(sw)
        used = sorted({f[0] for f in fks} | {f[1] for f in fks})
        for a in used:  # merge table b into table a
            for b in used:
                if a < b:
                    mg = {}
                    for f in fks:
                        g = (a if f[0] == b else f[0], a if f[1] == b else f[1]) + f[2:]
                        if g[:3] not in mg or _LETTER_RANK[g[3:]] < _LETTER_RANK[mg[g[:3]][3:]]:
                            mg[g[:3]] = g
                    cands.append(list(mg.values()))
        perms = list(itertools.permutations(range(n)))
        for cand0 in cands:
            for pm in perms:  # a simpler case may only fail under another labelling (creation order, tie breaks)
                cand = sorted((pm[f[0]], pm[f[1]]) + tuple(f[2:]) for f in cand0)
                if _rank(cand) < _rank(fks) and kind in _kinds(n, cand, routes):
                    fks = cand
                    changed = True
                    break
            if changed:
                break
    best = None
    for m in range(1, n + 1):
        for pm in itertools.permutations(range(n), n):
            cand = sorted((pm[f[0]], pm[f[1]], f[2], f[3], f[4]) for f in fks)
            if any(f[0] >= m or f[1] >= m for f in cand):
                continue
            key = (m, _rank(cand), cand)
            if best is not None and key >= best:
                continue
            if kind in _kinds(m, cand, routes):
                best = key
        if best is not None:
            break
    if best is None:
        return n, fks
    return best[0], best[2]


def fmt_fks(fks):
    return " ".join(
        "t%d->t%d[%s,%s%s]" % (f[0], f[1], "1col" if f[2] == "s" else "2col", "named" if f[3] else "unnamed", ",use_alter" if f[4] else "")
        for f in fks
    )


# ------------------------------------------------------------ declaration histories
# The same final FK graph can be *reached* in many ways.  A history is
#   style   'col' = FK target given as the Column object when the referred table is already declared (string
#                   otherwise, i.e. resolved late), 'str' = always the "table.column" string
#   order   the order in which the tables are declared (every permutation)
#   redecl  None | r : after everything is declared, metadata.remove(t<r>) and t<r> is declared again (FKs of other
#                   tables into t<r> are then necessarily strings: they must re-resolve to the new Table)
#   when    per FK: 'early' (in the Table() call) or added after the observation by one of
#                   'ext_col'  Table(name, md, Column(.., ForeignKey(..)), extend_existing=True)   (new column)
#                   'ext_fkc'  Table(name, md, ForeignKeyConstraint(..), extend_existing=True)
#                   'append_constraint'  table.append_constraint(ForeignKeyConstraint(..))
#                   'append_fk'          table.c.col.append_foreign_key(ForeignKey(..))
#   obs     what was called between the first declarations and the changes: 'none' | 'sorted' (sorted_tables) |
#           'ddl' (create_all + drop_all on the route's backend)
# t0 references t1 etc.: the referencing table sorts alphabetically before the referenced one whenever src < dst, and
# sorted_tables / topological ties are broken by name / declaration order, so a lost edge shows.

LATE = ("ext_col", "ext_fkc", "append_constraint", "append_fk")
BASE_HIST = dict(style="col", order=None, redecl=None, when=None, obs="none")


def hist_fks_final(fks, when):
    """the FK list in the order in which the columns end up in the tables: early, pre-declared late, ext_col"""
    rank = {"early": 0, "ext_fkc": 1, "append_constraint": 1, "append_fk": 1, "ext_col": 2}
    idx = sorted(range(len(fks)), key=lambda i: (rank[when[i]], i))
    return tuple(fks[i] for i in idx), tuple(when[i] for i in idx)


def build_hist(n, fks, hist, observe):
    """-> (MetaData, [tables], problems) following the history; ``observe(md)`` performs the 'ddl' observation"""
    fks, when = hist_fks_final(fks, hist["when"])
    style, redecl = hist["style"], hist["redecl"]
    md = MetaData()
    problems = []

    def target(f, own_id=None):
        src, dst = f[0], f[1]
        name = "t%d" % dst
        as_string = style == "str" or (redecl == dst and src != dst)
        if not as_string:
            if src == dst and own_id is not None:
                return own_id
            if name in md.tables:
                return md.tables[name].c.id
        return "t%d.id" % dst

    def declare(i):
        idc = Column("id", Integer, primary_key=True)
        args = [idc, Column("u1", Integer), Column("u2", Integer)]
        cons = [UniqueConstraint("u1", "u2")]
        for f, w in zip(fks, when):
            if f[0] != i or w == "ext_col":
                continue
            col = "s%d" % f[1]
            if w != "early":
                args.append(Column(col, Integer))
            elif (f[0] + f[1]) % 2 == 0:
                args.append(Column(col, Integer, ForeignKey(target(f, idc), name=fk_name(f))))
            else:
                args.append(Column(col, Integer))
                cons.append(ForeignKeyConstraint([col], [target(f, idc)], name=fk_name(f)))
        t = Table("t%d" % i, md, *(args + cons))
        Index("ix_t%d" % i, t.c.u2)

    for i in hist["order"]:
        declare(i)
    obs = hist["obs"]
    try:
        if obs == "sorted":
            with warnings.catch_warnings():
                warnings.simplefilter("ignore")
                md.sorted_tables
        elif obs == "ddl":
            with warnings.catch_warnings():
                warnings.simplefilter("ignore")
                observe(md)
    except (exc.SQLAlchemyError, cat.Reject) as e:
        problems.append(("history-observation-failed", "%s: %s" % (type(e).__name__, str(e)[:200])))
    if redecl is not None:
        md.remove(md.tables["t%d" % redecl])
        declare(redecl)
    for f, w in zip(fks, when):
        if w == "early":
            continue
        t = md.tables["t%d" % f[0]]
        col = "s%d" % f[1]
        if w == "ext_col":
            Table(t.name, md, Column(col, Integer, ForeignKey(target(f, t.c.id), name=fk_name(f))), extend_existing=True)
        elif w == "ext_fkc":
            Table(t.name, md, ForeignKeyConstraint([col], [target(f, t.c.id)], name=fk_name(f)), extend_existing=True)
        elif w == "append_constraint":
            t.append_constraint(ForeignKeyConstraint([col], [target(f, t.c.id)], name=fk_name(f)))
        else:
            t.c[col].append_foreign_key(ForeignKey(target(f, t.c.id), name=fk_name(f)))
    return md, [md.tables["t%d" % i] for i in range(n)], fks, problems


def _observe_catalog(md):
    conn = cat.CatalogConnection()
    md.create_all(conn, checkfirst=False)
    md.drop_all(conn, checkfirst=False)


def _observe_sqlite(md):
    c = _sqlite_conn()
    md.create_all(c)
    md.drop_all(c)
    c.commit()


def check_hist_case(n, fks, hist, routes="spq", fresh=False):
    out, stats = [], {}
    fks = tuple(tuple(f) for f in fks)
    hist = dict(hist, order=tuple(hist["order"]), when=tuple(hist["when"]))
    if "s" in routes or "p" in routes:
        md, tabs, ffks, problems = build_hist(n, fks, hist, _observe_catalog)
        out.extend(problems)
        if "s" in routes:
            sorted_route(md, tabs, n, ffks, out, stats)
        if "p" in routes:
            pg_route(md, tabs, n, ffks, (), False, out, stats)
    if "q" in routes:
        if fresh:
            _sqlite_conn(True)
        md2, tabs2, ffks, problems = build_hist(n, fks, hist, _observe_sqlite)
        out.extend(("sqlite-" + k, d) for k, d in problems)
        sqlite_route(md2, tabs2, n, ffks, False, out, stats, False)
        sqlite_route(md2, tabs2, n, ffks, True, out, stats, False)
    return out, stats


def hist_graphs(n, min_edges, max_edges):
    pairs = [(a, b) for a in range(n) for b in range(n)]
    for k in range(min_edges, max_edges + 1):
        for es in itertools.combinations(pairs, k):
            yield tuple((a, b, "s", 1, 0) for a, b in es)


def hist_deviations(n, fks, maxdev):
    """every history within <= maxdev deviations of the base history (Column targets, tables declared t0..tn-1,
    nothing removed, every FK in the Table() call, nothing observed); a re-declaration or an observation alone is a
    deviation, each late FK is one, a different declaration order is one, string targets are one"""
    e = len(fks)
    ident = tuple(range(n))
    feats = [("style", ["str"]), ("order", [pm for pm in itertools.permutations(range(n)) if pm != ident])]
    feats.append(("redecl", list(range(n))))
    for i in range(e):
        feats.append(("when%d" % i, list(LATE)))
    feats.append(("obs", ["sorted", "ddl"]))
    for k in range(maxdev + 1):
        for chosen in itertools.combinations(range(len(feats)), k):
            for vals in itertools.product(*[feats[c][1] for c in chosen]):
                h = dict(style="col", order=ident, redecl=None, when=["early"] * e, obs="none")
                for c, v in zip(chosen, vals):
                    name = feats[c][0]
                    if name.startswith("when"):
                        h["when"][int(name[4:])] = v
                    else:
                        h[name] = v
                h["when"] = tuple(h["when"])
                yield k, h


def fmt_hist(h):
    parts = []
    if h["style"] != "col":
        parts.append("string targets")
    if tuple(h["order"]) != tuple(sorted(h["order"])):
        parts.append("declared " + ",".join("t%d" % i for i in h["order"]))
    if h["obs"] != "none":
        parts.append("then " + {"sorted": "sorted_tables", "ddl": "create_all+drop_all"}[h["obs"]])
    if h["redecl"] is not None:
        parts.append("then remove+redeclare t%d" % h["redecl"])
    late = [(i, w) for i, w in enumerate(h["when"]) if w != "early"]
    for i, w in late:
        parts.append("then FK#%d via %s" % (i, w))
    return "; ".join(parts) or "plain declaration"


def minimise_hist(n, fks, hist, routes, kind):
    """greedy: drop FKs, then put history features back to the base value, while ``kind`` persists"""
    fks, hist = list(fks), dict(hist, when=list(hist["when"]))

    def fails(f, h):
        _BUDGET[0] -= 1
        if _BUDGET[0] < 0:
            return False
        return kind in {k for k, _ in check_hist_case(n, f, h, routes, fresh=True)[0]}

    changed = True
    while changed:
        changed = False
        for i in range(len(fks)):
            f2 = fks[:i] + fks[i + 1 :]
            h2 = dict(hist, when=hist["when"][:i] + hist["when"][i + 1 :])
            if f2 and fails(f2, h2):
                fks, hist, changed = f2, h2, True
                break
        if changed:
            continue
        base = dict(style="col", order=tuple(range(n)), redecl=None, obs="none")
        for name, bv in base.items():
            if hist[name] != bv and fails(fks, dict(hist, **{name: bv})):
                hist = dict(hist, **{name: bv})
                changed = True
                break
        if changed:
            continue
        for i, w in enumerate(hist["when"]):
            if w != "early":
                for w2 in ("early",) + LATE[: LATE.index(w)]:
                    h2 = dict(hist, when=hist["when"][:i] + [w2] + hist["when"][i + 1 :])
                    if fails(fks, h2):
                        hist, changed = h2, True
                        break
            if changed:
                break
    return fks, dict(hist, when=tuple(hist["when"]), order=tuple(hist["order"]))


HIST_TIERS = dict(
    # (n, min edges, max edges, max history deviations)
    quick=[(2, 1, 2, 3), (3, 1, 2, 2)],
    thorough=[(2, 1, 3, 4), (3, 1, 2, 3), (3, 3, 3, 2)],
)
HIST_PARTS = dict(quick=16, thorough=64)


def run_hist_shard(shard, tier, rec):
    _, p, parts = shard
    reported = {}
    _BUDGET[0] = 2000
    idx = 0
    seen = set()
    for n, min_edges, max_edges, maxdev in HIST_TIERS[tier]:
        for fks in hist_graphs(n, min_edges, max_edges):
            idx += 1
            if idx % parts != p:
                continue
            for k, h in hist_deviations(n, fks, maxdev):
                if h["redecl"] is not None and not any(f[1] == h["redecl"] or f[0] == h["redecl"] for f in fks):
                    continue  # removing a table no FK touches changes nothing but the declaration order
                key = (n, fks, h["style"], h["order"], h["redecl"], h["when"], h["obs"])
                if key in seen:
                    continue
                seen.add(key)
                res, stats = check_hist_case(n, fks, h)
                nontriv = k > 0 and any(f[0] != f[1] for f in fks)
                rec.case(key, nontrivial=nontriv)
                rec.count("cases_history")
                rec.count("history_with_redeclare", 1 if h["redecl"] is not None else 0)
                rec.count("history_with_late_fk", 1 if any(w != "early" for w in h["when"]) else 0)
                rec.outcome(("hist", stats.get("sorted"), stats.get("create"), tuple(stats.get("drop", ())), stats.get("sqlite")))
                if nontriv and k >= 2 and len(rec.samples) < 3 and (h["redecl"] is not None or h["obs"] != "none"):
                    rec.sample(dict(n=n, fks=fmt_fks(fks), history=fmt_hist(h), sorted_tables=stats.get("sorted")))
                for kind, detail in res:
                    if reported.get(kind, 0) >= 2 or len(rec.violations) >= 8:
                        rec.count("violating_cases")
                        continue
                    reported[kind] = reported.get(kind, 0) + 1
                    mf, mh = minimise_hist(n, fks, h, "spq", kind)
                    rec.violation(
                        "%s: %d table(s) %s | history: %s" % (kind, n, fmt_fks(mf), fmt_hist(mh)),
                        "minimised from %s | %s\n%s" % (fmt_fks(fks), fmt_hist(h), detail),
                        dict(layer="hist", n=n, fks=[list(f) for f in mf], hist=dict(mh, order=list(mh["order"]), when=list(mh["when"])), routes="spq", kind=kind),
                    )


def run_shard(shard, tier, rec):
    name, p, parts = shard
    if name == "hist":
        return run_hist_shard(shard, tier, rec)
    n, routes0, gen, kmax, qmax = LAYERS[name]
    rule = RULE.get(name, 0)
    reported = {}
    _BUDGET[0] = 4000  # executions this shard may spend on minimising counterexamples
    for idx, states in enumerate(gen(p, parts)):
        fks = fks_of(n, states, rule)
        routes = routes_for(routes0, fks, kmax, qmax)
        res, stats = check_case(n, fks, routes)
        nontriv = any(f[0] != f[1] for f in fks)
        rec.case((n, fks), nontrivial=nontriv)
        rec.count("cases_" + name)
        rec.count("sqlite_executed", 1 if "q" in routes else 0)
        rec.count("checkfirst_prestates", sum(1 for _ in closed_subsets(n, fks)) if "k" in routes else 0)
        rec.count("sorted_tables_edges_left_open_by_doc", stats.get("weak_edges", 0))
        rec.outcome((stats.get("sorted"), stats.get("create"), tuple(stats.get("drop", ())), stats.get("sqlite")))
        if nontriv and len(fks) >= 3 and idx % 997 == 5:
            rec.sample(dict(n=n, fks=fmt_fks(fks), sorted_tables=stats.get("sorted"), drop=stats.get("drop", [None])[0]))
        for kind, detail in res:
            # the first few failing cases of each kind are minimised (different root causes can share a kind)
            if reported.get(kind, 0) >= 3 or len(rec.violations) >= 8:
                rec.count("violating_cases")
                continue
            reported[kind] = reported.get(kind, 0) + 1
            m, mf = minimise(n, fks, routes, kind)
            rec.violation(
                "%s: %d table(s) %s" % (kind, m, fmt_fks(mf)),
                "minimised from n=%d %s\n%s" % (n, fmt_fks(fks), detail),
                dict(n=m, fks=[list(f) for f in mf], routes=routes, kind=kind, found_in=dict(n=n, fks=[list(f) for f in fks])),
            )


def replay(case):
    if case.get("layer") == "hist":
        res, _ = check_hist_case(case["n"], [tuple(f) for f in case["fks"]], case["hist"], case["routes"], fresh=True)
        fks = [tuple(f) for f in case["fks"]]
        return [("%s: %d table(s) %s | history: %s" % (k, case["n"], fmt_fks(fks), fmt_hist(case["hist"])), d) for k, d in res]
    res, _ = check_case(case["n"], [tuple(f) for f in case["fks"]], case["routes"], fresh=True)
    fks = sorted(tuple(f) for f in case["fks"])
    return [("%s: %d table(s) %s" % (k, case["n"], fmt_fks(fks)), d) for k, d in res]
