"""C21 generated and truncated names are bounded, deterministic and unique (engine I).

Part D -- constraint / index names in DDL.  Enumerated: every naming-convention
template of <=2 (quick) / <=3 (thorough) tokens out of ``table_name,
column_0_name, column_0N_name, column_0_N_name, column_0_label, column_0_key,
referred_table_name, constraint_name`` x constraint kind (ix uq ck fk pk) x
table / column / explicit-constraint name lengths {1, max-9, max-1, max, max+1,
3*max} x ``max_identifier_length`` in {10, 30, 63} on five dialect classes
(default, postgresql, mysql with its own index/constraint limits, oracle,
mssql), plus explicitly named constraints (plain str and ``conv()``) at every
length.  Oracle: the DDL string really emitted (CreateTable / CreateIndex /
AddConstraint) is tokenised by the reference lexer, the name that follows
``CONSTRAINT`` / ``INDEX`` is decoded and must be <= the dialect's limit for
that kind -- or the compile raises the documented ``IdentifierError`` (only
allowed for an explicit, non-convention name that is itself too long); a name
within the limit must come out unchanged; the same schema built a second time
and compiled again, and built in a child interpreter with a different
PYTHONHASHSEED, gives the identical DDL.

Part S -- labels and bind names inside one statement.  Enumerated: every
sequence of k = 2..4 (quick) / 2..5 (thorough) distinct column names out of a
universe built around the truncation boundary of ``label_length`` in {6, 10,
None->max_identifier_length 12} (short names, names of exactly the boundary
length, long names sharing the truncation prefix, names that *look like*
truncation results ``prefix_1``, names that look like anonymous labels
``anon_1`` / ``lower_1`` / ``param_1``) x statement shape (table-qualified
labels, anonymous function / operator labels, explicit long labels, two aliases
of one table, WHERE with one generated bind per column, explicit bindparam
names next to generated ones, IN / expanding binds, and ``explicit-generated-name``:
one explicit non-unique ``bindparam(<name>)`` at every position of the sequence, its
name drawn from the set of bind names the compiler itself generates for that very
statement -- read off a real compile under the label_length, so truncated forms
``prefix_N`` are included -- plus the untruncated ``<column>_1`` spellings, all other
columns compared through generated binds (``==`` or ``IN``): the explicit parameter is
visited before as well as after the generated one it coincides with; k = 2 quick /
2..3 thorough).  Oracle: the statement is
compiled and *executed on SQLite* over a table whose column i holds the
distinct constant 100+i: every selected element is fetched from the row by its
own column object and must give its own constant (two elements sharing a
result column cannot both), result keys are pairwise distinct, every bind
value reaches its own comparison (exactly the one matching row comes back),
``compiled.bind_names`` maps distinct bindparams to distinct names, generated
names are <= the limit, compiling a second time from fresh objects gives the
same string.

Finding on the unchanged tree (reported; two stable signatures ``ddl mysql:
explicit-name-over-{index,constraint}-limit-not-rejected``): an explicit plain-str
index / constraint name is validated against ``max_identifier_length`` only, so on
a dialect whose ``max_index_name_length`` / ``max_constraint_name_length`` is smaller
(MySQL: 64 vs 255) an over-long name is rendered unchanged instead of raising
IdentifierError (proposed_fixes/c21_explicit_name_checked_against_kind_limit.diff).
Second finding on the unchanged tree (signature ``stmt: expanded-in-name-equals-explicit-bind-name``):
the names ``<bind>_<n>`` into which an expanding IN bind is expanded at execution time
(SQLCompiler._process_parameters_for_postcompile / _literal_execute_expanding_parameter) are not
checked against the statement's other bind names: ``where(x == bindparam("y_1_1", 10)).where(y.in_([20, 99]))``
silently executes ``x = 20`` (proposed_fixes/c21_expanded_in_name_clash.diff).
Counted, not a violation: an anonymous / truncated label that happens to be spelled
like a column the user named (``lower(x) AS lowe_1`` next to a column ``lowe_1``):
retrieval by element still works (counter generated-label-equals-user-name).

Mutations caught (each in a private copy, VF_REPO=/tmp/wt-strings/<m>; all in sql/compiler.py):
  * _truncate_and_render_maxlen_name: ``len(name) > max_`` -> ``>=`` -> ``short-name-altered``
  * _truncate_and_render_maxlen_name: md5 suffix ``[-4:]`` -> ``[-8:]`` -> ``name-exceeds-limit``
  * _truncated_identifier: counter increment dropped -> ``two-elements-share-a-generated-label`` / shared bind names
  * _truncate_and_render_maxlen_name: md5 suffix replaced by ``hash(name)`` -> ``rendered names depend on PYTHONHASHSEED``
  * visit_bindparam: conflict guard ``(existing.unique or bindparam.unique)`` -> ``existing.unique`` (seeded C21-a: an explicit
    bindparam spelled like a generated name and visited first is silently merged with the generated one)
    -> ``explicit-generated-name:eq:0:b_1: columns ['a', 'b']: two-bindparams-share-a-name`` / ``bind-values-reach-wrong-comparison``
Equivalent (still bounded, correctly silent): prefix ``max_ - 8`` -> ``max_ - 7``.
"""
import hashlib
import itertools
import os
import subprocess
import sys
import warnings

import sqlalchemy as sa
from sqlalchemy import exc as sa_exc
from sqlalchemy.pool import StaticPool
from sqlalchemy.schema import AddConstraint
from sqlalchemy.schema import CreateIndex
from sqlalchemy.schema import CreateTable
from sqlalchemy.sql.elements import conv

from ..models import sqllex_ref as L

ID = "C21"
LEVEL = "exploration"
META = dict(
    engine="I",
    technique="exhaustive small-scope enumeration of naming conventions x name lengths x dialect limits (DDL names read back with a reference lexer) "
    "and of column-name sequences around the truncation boundary x statement shapes, executed on SQLite",
    design_ref="DESIGN.md §5 C21",
    level_text="Every convention template and name length within the bound is compiled to real DDL and the emitted constraint / index name is "
    "measured; every statement within the bound is compiled and executed and each selected element / bind value is traced to its own result "
    "column / comparison. Complete for the bound: any truncation, counter or uniqueness defect that needs <=3 tokens, these lengths, <=5 columns "
    "of this universe is found. Explicit bind names are drawn from the names the compiler generates for the same statement (truncated forms "
    "included) and placed at every position, so a clash between an explicit and a generated bind name is covered in both visiting orders: "
    "the statement is either refused (CompileError) or every value reaches its own comparison on SQLite.",
    level_note="Trusted: the DDL name extraction via vf.models.sqllex_ref and the 'column i holds constant 100+i' world. Hash-seed independence "
    "is checked by one child interpreter per dialect with PYTHONHASHSEED=4242 over the whole DDL family.",
    rule="case = (part, dialect, limit, convention / names) ; non-trivial = a name had to be truncated (DDL: rendered name differs from the "
    "untruncated convention output; statement: some label or bind name was shortened or de-duplicated)",
    assumptions=[
        "names consist of ASCII letters, digits and underscores (quoting is C06's subject)",
        "explicit (non-convention, non-conv) names longer than the limit are allowed to raise IdentifierError, as documented",
        "identifier limits are >= 8 characters (smallest real backend limit is 30; the truncation format needs 8)",
    ],
    bounds=dict(
        quick="templates <=2 tokens x 5 kinds x 6 lengths x (3 limits on default and mysql, limit 30 on postgresql / oracle / mssql); column sequences k<=3 (k<=4 for label_length=10) over a 12-name universe x 3 label_length x 8 shapes; explicit-generated-name: k=2 x every position x every generated / '<col>_1' name x {==, IN} x 3 label_length",
        thorough="templates <=3 tokens x 5 kinds x 6 lengths x 3 limits x 5 dialect classes; column sequences k<=5 over a 14-name universe x 3 label_length x 8 shapes; explicit-generated-name: k<=3 x every position x every generated / '<col>_1' name x {==, IN} x 3 label_length",
    ),
)

TOKENS = ["table_name", "column_0_name", "column_0N_name", "column_0_N_name", "column_0_label", "column_0_key", "referred_table_name", "constraint_name"]
KINDS = ["ix", "uq", "ck", "fk", "pk"]
LIMITS = [10, 30, 63]
DIALECTS = ["default", "postgresql", "mysql", "oracle", "mssql"]


def _dialect(name, limit):
    from sqlalchemy.dialects import mssql
    from sqlalchemy.dialects import mysql
    from sqlalchemy.dialects import oracle
    from sqlalchemy.dialects import postgresql
    from sqlalchemy.engine import default

    d = dict(default=default.DefaultDialect, postgresql=postgresql.dialect, mysql=mysql.dialect, oracle=oracle.dialect, mssql=mssql.dialect)[name]()
    d.max_identifier_length = limit
    if name == "mysql":
        # mysql has separate, smaller limits for index / constraint names: keep them distinct from the identifier limit
        # (never below 8: the documented truncation format "<prefix>_<4 hex>" needs 8 characters and no backend is smaller)
        d.max_index_name_length = max(limit - 1, 9)
        d.max_constraint_name_length = max(limit - 2, 8)
    return d


def limit_for(d, kind):
    if kind == "ix":
        return d.max_index_name_length or d.max_identifier_length
    return d.max_constraint_name_length or d.max_identifier_length


def lengths(limit):
    return sorted({1, max(limit - 9, 2), limit - 1, limit, limit + 1, 3 * limit})


def mkname(prefix, n):
    """deterministic identifier of exactly n characters"""
    s = (prefix + "abcdefghij" * (n // 10 + 2))[:n]
    return s


def templates(ntok):
    for k in range(1, ntok + 1):
        for toks in itertools.permutations(TOKENS, k):
            yield toks


def template_ok(kind, toks):
    if "referred_table_name" in toks and kind != "fk":
        return False
    if "constraint_name" in toks and kind == "pk":
        # a pk convention with %(constraint_name)s makes Table() itself raise InvalidRequestError (the implicit,
        # unnamed PrimaryKeyConstraint every Table starts with cannot be named): not a naming outcome, excluded
        return False
    return True


def build_schema(kind, toks, tlen, clen, xlen, explicit=None):
    """fresh MetaData with one constraint of `kind`; returns (metadata, table, constraint-or-index)
    explicit: None (convention names it), ("str", n) or ("conv", n): explicit name of n chars, no convention"""
    conv_str = kind + "_" + "_".join("%%(%s)s" % t for t in toks) if toks else None
    nc = {kind: conv_str} if conv_str and explicit is None else {}
    m = sa.MetaData(naming_convention=nc)
    other = sa.Table(mkname("r", max(tlen, 1)), m, sa.Column("id", sa.Integer, primary_key=True)) if kind == "fk" else None
    tname = mkname("t", tlen)
    c1, c2 = mkname("c", clen), mkname("d", clen)
    cname = None
    if explicit is not None:
        cname = mkname("x", explicit[1])
        if explicit[0] == "conv":
            cname = conv(cname)
    elif "constraint_name" in toks:
        cname = mkname("n", xlen)
    cols = [sa.Column(c1, sa.Integer, key="k_" + c1, nullable=False), sa.Column(c2, sa.Integer, key="k_" + c2, nullable=False)]
    if kind == "pk":
        obj = sa.PrimaryKeyConstraint(cols[0], cols[1], name=cname)
        t = sa.Table(tname, m, *cols, obj)
        return m, t, obj
    t = sa.Table(tname, m, *cols)
    if kind == "ix":
        obj = sa.Index(cname, t.c["k_" + c1], t.c["k_" + c2])
    elif kind == "uq":
        obj = sa.UniqueConstraint(t.c["k_" + c1], t.c["k_" + c2], name=cname)
        t.append_constraint(obj)
    elif kind == "ck":
        obj = sa.CheckConstraint(t.c["k_" + c1] > t.c["k_" + c2], name=cname)
        t.append_constraint(obj)
    elif kind == "fk":
        obj = sa.ForeignKeyConstraint([t.c["k_" + c1]], [other.c.id], name=cname)
        t.append_constraint(obj)
    return m, t, obj


def ddl_strings(kind, t, obj, d):
    """the DDL statements that carry the name; returns list of strings (raises what compile raises)"""
    out = []
    if kind == "ix":
        out.append(str(CreateIndex(obj).compile(dialect=d)))
    else:
        out.append(str(CreateTable(t).compile(dialect=d)))
        if kind != "pk":
            out.append(str(AddConstraint(obj).compile(dialect=d)))
    return out


_GRAMMAR = dict(default="postgresql", postgresql="postgresql", mysql="mysql", oracle="oracle", mssql="mssql")


def names_in_ddl(sql, kind, gname):
    """decoded identifiers that follow CONSTRAINT / INDEX in the DDL text"""
    toks = L.tokenize(sql, L.GRAMMARS[gname])
    out = []
    for i, tk in enumerate(toks[:-1]):
        if tk.kind == "word" and tk.text.upper() == ("INDEX" if kind == "ix" else "CONSTRAINT"):
            nx = toks[i + 1]
            if nx.kind in ("word", "qid"):
                out.append(nx.value)
    return out


def expected_untruncated(kind, toks, tlen, clen, xlen):
    """what the convention template yields before any truncation (harness-side string formatting of the documented tokens)"""
    tname = mkname("t", tlen)
    c1, c2 = mkname("c", clen), mkname("d", clen)
    ncols = 1 if kind == "fk" else 2
    colnames = [c1, c2][:ncols]
    vals = dict(
        table_name=tname,
        column_0_name=c1,
        column_0N_name="".join(colnames),
        column_0_N_name="_".join(colnames),
        column_0_label=tname + "_" + c1,
        column_0_key="k_" + c1,
        referred_table_name=mkname("r", max(tlen, 1)),
        constraint_name=mkname("n", xlen),
    )
    return kind + "_" + "_".join(vals[t] for t in toks)


def check_ddl(dname, limit, kind, toks, tlen, clen, xlen, explicit=None):
    """returns (list of (failure kind, detail), nontrivial, rendered names tuple)"""
    d = _dialect(dname, limit)
    lim = limit_for(d, kind)
    out = []
    rendered = []
    results = []
    for attempt in (0, 1):
        try:
            m, t, obj = build_schema(kind, toks, tlen, clen, xlen, explicit)
            ddls = ddl_strings(kind, t, obj, d)
            results.append(("ok", tuple(ddls)))
        except sa_exc.IdentifierError as e:
            results.append(("IdentifierError", str(e)[:80]))
        except Exception as e:
            results.append(("raises", "%s: %s" % (type(e).__name__, str(e)[:120])))
    if results[0] != results[1]:
        out.append(("not-deterministic", "first build %r, second build %r" % (results[0], results[1])))
    r = results[0]
    nontrivial = False
    if r[0] == "IdentifierError":
        # documented only for explicit plain-str names that are themselves over the limit
        over = (explicit is not None and explicit[0] == "str" and explicit[1] > lim) or (explicit is None and False)
        if not over:
            out.append(("identifier-error-on-generated-name", r[1]))
        nontrivial = True
    elif r[0] == "raises":
        out.append(("compile-raises", r[1]))
    else:
        for sql in r[1]:
            got = names_in_ddl(sql, kind, _GRAMMAR[dname])
            want_n = 1
            if len(got) < want_n:
                out.append(("name-not-found-in-ddl", sql[:200]))
                continue
            for nm in got:
                rendered.append(nm)
                if len(nm) > lim:
                    if explicit is not None and explicit[0] == "str" and len(nm) <= d.max_identifier_length and nm == mkname("x", explicit[1]):
                        # one root cause whatever the limit / kind / convention: the explicit name is only validated against
                        # max_identifier_length, not against the smaller per-kind limit
                        out.append(("explicit-name-over-%s-limit-not-rejected" % ("index" if kind == "ix" else "constraint"), "%r has %d characters, max_%s_name_length %d, max_identifier_length %d: rendered unchanged, no IdentifierError" % (nm, len(nm), "index" if kind == "ix" else "constraint", lim, d.max_identifier_length)))
                    else:
                        out.append(("name-exceeds-limit", "%r has %d characters, limit %d (%s)" % (nm, len(nm), lim, kind)))
        if explicit is None:
            full = expected_untruncated(kind, toks, tlen, clen, xlen)
        else:
            full = mkname("x", explicit[1])
        # only the named object itself is compared (CreateTable for fk also shows no other named constraints)
        mine = [nm for nm in rendered]
        if len(full) <= lim:
            if any(nm != full for nm in mine):
                out.append(("short-name-altered", "expected %r, rendered %r" % (full, mine)))
        else:
            nontrivial = True
            if any(nm == full for nm in mine) and not any(k.startswith("explicit-name-over-") for k, _ in out):
                out.append(("long-name-not-truncated", "%r" % (full,)))
            if len(set(mine)) > 1:
                out.append(("same-constraint-two-names", "%r" % (mine,)))
    return out, nontrivial, tuple(rendered), results[0]


# ------------------------------------------------------------------ DDL enumeration


def ddl_cases(tier, dname, limit):
    ntok = 2 if tier == "quick" else 3
    ls = lengths(limit)
    for kind in KINDS:
        for toks in templates(ntok):
            if not template_ok(kind, toks):
                continue
            # vary one length at a time around (limit-9) plus the all-long corner
            base = max(limit - 9, 2)
            combos = set()
            for x in ls:
                combos.add((x, 1, 1))
                combos.add((1, x, 1))
                combos.add((base, x, base))
                if "constraint_name" in toks:
                    combos.add((1, 1, x))
                    combos.add((base, 1, x))
            combos.add((ls[-1], ls[-1], ls[-1]))
            for tlen, clen, xlen in sorted(combos):
                yield (kind, toks, tlen, clen, xlen, None)
        for how in ("str", "conv"):
            for x in ls:
                yield (kind, (), 3, 3, 1, (how, x))
        # explicit name + convention that uses constraint_name is covered above; explicit name + convention without it:
        for x in ls:
            yield (kind, ("table_name",), 3, 3, 1, ("str", x))


def _limits_for(tier, dname):
    """quick: the full limit sweep on the default and the mysql (separate index/constraint limits) dialect, limit 30 on the others"""
    if tier == "quick" and dname not in ("default", "mysql"):
        return [30]
    return LIMITS


def _ddl_digest(tier, dname, part=None):
    h = hashlib.sha1()
    n = 0
    for limit in _limits_for(tier, dname):
        for case in ddl_cases(tier, dname, limit):
            n += 1
            if n % 7 != 3:
                continue
            _, _, rendered, res = check_ddl(dname, limit, *case)
            h.update(repr((limit, case, res)).encode())
    return h.hexdigest()


# ------------------------------------------------------------------ Part S


def universe(L_eff, tier):
    """column names around the truncation boundary; L_eff = effective label_length"""
    p = max(L_eff - 6, 0)  # truncation keeps p characters
    pre = ("a" * 40)[:p]
    names = [
        "a",
        "b",
        pre + "_1",
        pre + "_2",
        (pre + "x" * 40)[: p + 7] if True else "",
        (pre + "y" * 40)[: p + 7],
        (pre + "x" * 40)[: p + 6] + "z",
        ("a" * 60)[: L_eff + 1],
        "anon_1",
        "lower_1",
        "param_1",
        ("lower_1")[:p] + "_1",
    ]
    if tier != "quick":
        names += [("anon_1")[:p] + "_1", ("a" * 60)[: max(L_eff - 5, 1)]]
    seen = []
    for n in names:
        if n and n not in seen and n[0].isalpha():
            seen.append(n)
    return seen


SHAPES = ["tablename-labels", "anon-functions", "explicit-labels", "two-aliases", "where-binds", "explicit-bind-names", "in-expanding", "mixed", "explicit-generated-name"]
LABEL_LENGTHS = [6, 10, None]
MAX_IDENT_FOR_NONE = 12
_SWORLD = {}


def s_engine(label_length):
    if label_length not in _SWORLD:
        e = sa.create_engine("sqlite://", poolclass=StaticPool, label_length=label_length, max_identifier_length=MAX_IDENT_FOR_NONE if label_length is None else 9999)
        _SWORLD[label_length] = e
    return _SWORLD[label_length]


def s_limit(label_length):
    return MAX_IDENT_FOR_NONE if label_length is None else label_length


def build_stmt(shape, names, tname):
    """returns (statement, elements, expected values, bind specs) -- fresh objects every call.
    elements: list of (selected column expression, expected constant)"""
    m = sa.MetaData()
    t = sa.Table(tname, m, sa.Column("pk", sa.Integer, primary_key=True), *[sa.Column(n, sa.Integer) for n in names])
    exp = {n: 100 + i for i, n in enumerate(names)}
    binds = []
    if shape == "tablename-labels":
        elems = [(t.c[n], exp[n]) for n in names]
        st = sa.select(*[e for e, _ in elems]).set_label_style(sa.LABEL_STYLE_TABLENAME_PLUS_COL)
    elif shape == "anon-functions":
        elems = []
        for i, n in enumerate(names):
            if i % 3 == 0:
                elems.append((sa.func.lower(t.c[n]), exp[n]))
            elif i % 3 == 1:
                elems.append((t.c[n] + 0, exp[n]))
            else:
                elems.append((t.c[n], exp[n]))
        st = sa.select(*[e for e, _ in elems])
    elif shape == "explicit-labels":
        elems = []
        for i, n in enumerate(names):
            # user-chosen labels are distinct from each other and from every column name ("q" prefix);
            # only a *generated* name can collide with them
            elems.append((t.c[n].label("q" + n) if i % 2 == 0 else (sa.func.lower(t.c[n]) if i % 4 == 1 else t.c[n]), exp[n]))
        st = sa.select(*[e for e, _ in elems])
    elif shape == "two-aliases":
        a1, a2 = t.alias(names[0]), t.alias(names[-1] if names[-1] != names[0] else "zz")
        elems = [(a1.c[n], exp[n]) for n in names] + [(a2.c[n], exp[n]) for n in names]
        st = sa.select(*[e for e, _ in elems]).where(a1.c.pk == a2.c.pk).set_label_style(sa.LABEL_STYLE_TABLENAME_PLUS_COL)
    elif shape == "where-binds":
        elems = [(t.c.pk, 1)]
        st = sa.select(t.c.pk)
        for n in names:
            st = st.where(t.c[n] == exp[n])
            binds.append(exp[n])
    elif shape == "explicit-bind-names":
        elems = [(t.c.pk, 1)]
        st = sa.select(t.c.pk)
        for i, n in enumerate(names):
            if i % 2 == 0:
                st = st.where(t.c[n] == exp[n])
            else:
                st = st.where(t.c[n] == sa.bindparam(names[i - 1] + "_1", exp[n]))
            binds.append(exp[n])
    elif shape == "in-expanding":
        elems = [(t.c.pk, 1)]
        st = sa.select(t.c.pk)
        for n in names:
            st = st.where(t.c[n].in_([exp[n], 9999]))
            binds.append(exp[n])
    elif shape.startswith(GEN_SHAPE + ":"):
        # one explicit, non-unique bindparam() at position `pos`, spelled like a name the compiler itself generates for
        # this statement; every other column gets a generated (anonymous, unique) bind: `pos` runs over every position, so
        # the explicit parameter is visited before as well as after the generated one it coincides with
        _, op, pos, bname = shape.split(":")
        elems = [(t.c.pk, 1)]
        st = sa.select(t.c.pk)
        for i, n in enumerate(names):
            if i == int(pos):
                st = st.where(t.c[n] == sa.bindparam(bname, exp[n]))
            elif op == "in":
                st = st.where(t.c[n].in_([exp[n], 9999]))
            else:
                st = st.where(t.c[n] == exp[n])
            binds.append(exp[n])
    elif shape == "mixed":
        elems = [(t.c[n], exp[n]) for n in names] + [(sa.func.abs(t.c[n]), exp[n]) for n in names[:2]]
        st = sa.select(*[e for e, _ in elems]).set_label_style(sa.LABEL_STYLE_TABLENAME_PLUS_COL)
        for n in names:
            st = st.where(t.c[n] + 0 == exp[n])
            binds.append(exp[n])
    else:
        raise AssertionError(shape)
    return m, t, st, elems, exp, binds


GEN_SHAPE = "explicit-generated-name"
GEN_OPS = ["eq", "in"]


def generated_bind_names(label_length, names, op):
    """the bind names the compiler itself generates (and truncates under label_length) for the statement in which every
    column of `names` is compared through an anonymous bind; read off the real compile, in visiting order"""
    st = build_stmt("in-expanding" if op == "in" else "where-binds", names, "t")[2]
    return list(st.compile(s_engine(label_length)).bind_names.values())


def gen_variants(label_length, names):
    """concrete shapes '<GEN_SHAPE>:<op>:<pos>:<explicit name>': explicit names drawn from the generated names of this very
    statement (truncated forms included, since they are read off a compile under label_length) plus the untruncated
    '<column>_1' spellings, at every position"""
    for op in GEN_OPS:
        pool = []
        for nm in generated_bind_names(label_length, names, op) + [n + "_1" for n in names]:
            if nm not in pool:
                pool.append(nm)
        for pos in range(len(names)):
            for nm in pool:
                yield "%s:%s:%d:%s" % (GEN_SHAPE, op, pos, nm)


EXPANDED_CLASH = "expanded-in-name-equals-explicit-bind-name"


def _stmt_sig(ll, shape, names, fk):
    if fk == EXPANDED_CLASH:
        return "stmt: %s" % fk
    return "stmt label_length=%s %s: columns %r: %s" % (ll, shape, list(names), fk)


_BIND_REFUSALS = ("conflicts with unique bind parameter of the same name", "Can't reuse bound parameter name")


def check_stmt(label_length, shape, names, tname="t"):
    """returns (failures, nontrivial)"""
    e = s_engine(label_length)
    lim = s_limit(label_length)
    out = []
    nontrivial = False
    try:
        m, t, st, elems, exp, binds = build_stmt(shape, names, tname)
        c1 = st.compile(e)
        s1 = str(c1)
        _, _, st2, _, _, _ = build_stmt(shape, names, tname)
        s2 = str(st2.compile(e))
    except sa_exc.CompileError as ex:
        if shape == "explicit-bind-names" and _BIND_REFUSALS[0] in str(ex):
            # the compiler noticed that an explicit name equals a generated one and refused: nothing is shared
            return [], True
        if shape.startswith(GEN_SHAPE + ":") and any(x in str(ex) for x in _BIND_REFUSALS):
            # same: refused (either "conflicts with unique ..." or, next to an IN bind, "Can't reuse ... expanding")
            return [], True
        return [("compile-raises", "%s" % str(ex)[:150])], False
    if s1 != s2:
        out.append(("not-deterministic", "%r vs %r" % (s1[:200], s2[:200])))
    # bind names: distinct bindparam objects -> distinct names
    bn = list(c1.bind_names.values())
    if len(set(bn)) != len(bn):
        out.append(("two-bindparams-share-a-name", "%r" % sorted(bn)))
    for nm in bn:
        if len(nm) > lim and not any(nm == x + "_1" for x in names):
            out.append(("bind-name-exceeds-limit", "%r > %d" % (nm, lim)))
            break
        if len(nm) < max(len(x) for x in names):
            nontrivial = True
    # execute
    with e.connect() as conn:
        try:
            m.create_all(conn)
            conn.execute(t.insert(), [dict(pk=1, **exp), dict(pk=2, **{n: -v for n, v in exp.items()})])
            res = conn.execute(st)
            keys = list(res.keys())
            rows = res.all()
            user = set(names) | {"q" + x for x in names} | {"pk"}
            gen = [k for k in keys if k not in user]
            if len(set(gen)) != len(gen):
                out.append(("two-elements-share-a-generated-label", "%r" % (keys,)))
            elif len(set(keys)) != len(keys):
                # a generated label spelled like a column / label the user chose: retrieval by element (checked below)
                # still has to work; the string key is ambiguous.  Counted, not a violation of the statement.
                out.append(("~generated-label-equals-user-name", "%r" % (keys,)))
            for k in gen:
                if len(k) > lim:
                    out.append(("label-exceeds-limit", "%r > %d" % (k, lim)))
                    break
            if gen:
                nontrivial = True
            if binds and len(rows) != 1:
                out.append(("bind-values-reach-wrong-comparison", "expected exactly the row pk=1, got %r with params %r" % ([tuple(r) for r in rows], dict(c1.params))))
            row = [r for r in rows if not any(str(v).startswith("-") for v in r)]
            if len(row) != 1:
                if not binds:
                    out.append(("unexpected-rows", "%r" % ([tuple(r) for r in rows],)))
            else:
                for el, val in elems:
                    try:
                        got = row[0]._mapping[el]
                    except Exception as ex:
                        out.append(("element-not-addressable-in-row", "%s: %s" % (type(ex).__name__, str(ex)[:100])))
                        break
                    if str(got) != str(val):
                        out.append(("element-reads-other-column", "element %s gives %r, its column holds %r; keys %r" % (el, got, val, keys)))
                        break
        except (sa_exc.CompileError, sa_exc.StatementError, sa_exc.InvalidRequestError, sa_exc.ArgumentError) as ex:
            orig = getattr(ex, "orig", None) if isinstance(ex, sa_exc.StatementError) and not isinstance(ex, sa_exc.DBAPIError) else ex
            if shape.startswith(GEN_SHAPE + ":") and isinstance(orig, sa_exc.CompileError) and "conflicts with" in str(orig):
                # post-compile (expanding IN) stage refused the statement because of a bind name clash: nothing is shared
                nontrivial = True
                return [], True
            out.append(("execute-raises", "%s: %s" % (type(ex).__name__, str(ex).split("\n")[0][:150])))
        finally:
            conn.rollback()
            m.drop_all(conn)
            conn.commit()
    if shape.startswith(GEN_SHAPE + ":in:") and any(k == "bind-values-reach-wrong-comparison" for k, _ in out):
        # one root cause whatever the columns / label_length: the names "<bind>_<n>" that an expanding (IN) bind is expanded into
        # at execution time are not checked against the other bind names of the statement
        bname = shape.split(":")[3]
        expanded = {"%s_%d" % (g, i + 1) for b, g in c1.bind_names.items() if b.expanding for i in range(len(b.value))}
        if bname in expanded:
            out = [(EXPANDED_CLASH, "columns %r label_length=%s explicit bindparam(%r): %s" % (list(names), label_length, bname, d)) if k == "bind-values-reach-wrong-comparison" else (k, d) for k, d in out]
    return out, nontrivial


# ------------------------------------------------------------------ shards


def shards(tier, seed):
    out = []
    for dname in DIALECTS:
        for limit in _limits_for(tier, dname):
            out.append(("ddl", dname, limit))
        out.append(("hashseed", dname))
    for ll in LABEL_LENGTHS:
        for shape in SHAPES:
            out.append(("stmt", ll, shape))
    return out


def _case_json(case):
    kind, toks, tlen, clen, xlen, explicit = case
    return dict(kind=kind, toks=list(toks), tlen=tlen, clen=clen, xlen=xlen, explicit=list(explicit) if explicit else None)


def _minimise_ddl(dname, limit, case, fk):
    """shrink lengths / tokens while the same failure kind persists"""
    kind, toks, tlen, clen, xlen, explicit = case

    def fails(c):
        r, _, _, _ = check_ddl(dname, limit, *c)
        return any(k == fk for k, _ in r)

    cur = case
    improved = True
    while improved:
        improved = False
        kind, toks, tlen, clen, xlen, explicit = cur
        cands = []
        for i in range(len(toks)):
            if len(toks) > 1:
                cands.append((kind, toks[:i] + toks[i + 1 :], tlen, clen, xlen, explicit))
        ls = lengths(limit)
        for x in ls:
            if x < tlen:
                cands.append((kind, toks, x, clen, xlen, explicit))
            if x < clen:
                cands.append((kind, toks, tlen, x, xlen, explicit))
            if x < xlen:
                cands.append((kind, toks, tlen, clen, x, explicit))
            if explicit and x < explicit[1]:
                cands.append((kind, toks, tlen, clen, xlen, (explicit[0], x)))
        for c in cands:
            if (not c[1] and c[5] is None) or not template_ok(c[0], c[1]):
                continue
            if fails(c):
                cur = c
                improved = True
                break
    return cur


def _ddl_sig(dname, limit, mc, fk):
    if fk.startswith("explicit-name-over-"):
        return "ddl %s: %s" % (dname, fk)
    return "ddl %s max=%d: %s %s lengths(t=%d,c=%d,n=%d)%s: %s" % (dname, limit, mc[0], "+".join(mc[1]) or "-", mc[2], mc[3], mc[4], " explicit=%s:%d" % tuple(mc[5]) if mc[5] else "", fk)


def run_shard(shard, tier, rec):
    warnings.simplefilter("ignore")
    fam = shard[0]
    if fam == "ddl":
        _, dname, limit = shard
        n = 0
        for case in ddl_cases(tier, dname, limit):
            res, nt, rendered, _ = check_ddl(dname, limit, *case)
            n += 1
            rec.case(("ddl", dname, limit, case), nontrivial=nt)
            rec.outcome(("ddl", dname, limit, case[0], tuple(len(x) for x in rendered), tuple(k for k, _ in res)))
            if nt and n % 3001 == 17:
                rec.sample(dict(part="ddl", dialect=dname, limit=limit, case=_case_json(case), rendered=list(rendered)))
            for fk, detail in res:
                mc = _minimise_ddl(dname, limit, case, fk)
                r2 = [d for k, d in check_ddl(dname, limit, *mc)[0] if k == fk]
                sig = _ddl_sig(dname, limit, mc, fk)
                rec.violation(sig, (r2[0] if r2 else detail), dict(part="ddl", dialect=dname, limit=limit, case=_case_json(mc)))
        return
    if fam == "hashseed":
        _, dname = shard
        mine = _ddl_digest(tier, dname)
        env = dict(os.environ)
        env["PYTHONHASHSEED"] = "4242"
        code = "import sys; sys.path.insert(0, %r); from vf import purepy; purepy.install(); from vf.props import c21; print(c21._ddl_digest(%r, %r))" % (
            os.path.dirname(os.path.dirname(os.path.dirname(os.path.abspath(__file__)))),
            tier,
            dname,
        )
        p = subprocess.run([sys.executable, "-X", "frozen_modules=off", "-c", code], env=env, capture_output=True, text=True, timeout=900)
        if p.returncode != 0:
            raise AssertionError("child interpreter failed: %s" % p.stderr[-800:])
        theirs = p.stdout.strip().splitlines()[-1]
        rec.case(("hashseed", dname), nontrivial=True)
        rec.outcome(("hashseed", dname, mine == theirs))
        if mine != theirs:
            rec.violation("ddl %s: rendered names depend on PYTHONHASHSEED" % dname, "digest %s (seed 0) vs %s (seed 4242)" % (mine, theirs), dict(part="hashseed", dialect=dname, tier=tier))
        return
    if fam == "stmt":
        _, ll, shape = shard
        lim = s_limit(ll)
        uni = universe(lim, tier)
        kmax = (4 if ll == 10 else 3) if tier == "quick" else 5
        if shape == GEN_SHAPE:
            # every case carries (positions x explicit names x 2 operators) variants: one column less than the other shapes
            kmax = 2 if tier == "quick" else 3
        n = 0
        for k in range(2, kmax + 1):
            for names in itertools.permutations(uni, k):
                if k >= 4 and list(names[1:]) != sorted(names[1:], key=uni.index):
                    # for k>=4 only the first position is permuted (keeps the family ~10^4 per shape)
                    continue
                if len({x.lower() for x in names}) != len(names):
                    continue
                for cshape in gen_variants(ll, names) if shape == GEN_SHAPE else [shape]:
                    res, nt = check_stmt(ll, cshape, names)
                    for kk, _ in res:
                        if kk.startswith("~"):
                            rec.count(kk[1:])
                    res = [x for x in res if not x[0].startswith("~")]
                    n += 1
                    rec.case(("stmt", ll, cshape, names), nontrivial=nt)
                    rec.outcome(("stmt", ll, shape, tuple(kk for kk, _ in res), nt))
                    if nt and n % 997 == 5:
                        try:
                            sql = str(build_stmt(cshape, names, "t")[2].compile(s_engine(ll)))[:300]
                        except sa_exc.CompileError as ex:
                            sql = "CompileError: %s" % str(ex)[:120]
                        rec.sample(dict(part="stmt", label_length=ll, shape=cshape, columns=list(names), sql=sql))
                    for fk, detail in res:
                        if shape == GEN_SHAPE:
                            # enumerated simplest-first (k, then position, then name): the first failure per class is minimal
                            rec.violation(_stmt_sig(ll, cshape, names, fk), detail, dict(part="stmt", label_length=ll, shape=cshape, names=list(names)), kind="%s %s" % (cshape.split(":")[1], fk))
                            continue
                        mn = _minimise_names(ll, shape, names, fk)
                        r2 = [d for kk, d in check_stmt(ll, shape, mn)[0] if kk == fk]
                        rec.violation("stmt label_length=%s %s: columns %r: %s" % (ll, shape, list(mn), fk), (r2[0] if r2 else detail), dict(part="stmt", label_length=ll, shape=shape, names=list(mn)))
        return
    raise AssertionError(shard)


def _minimise_names(ll, shape, names, fk):
    cur = tuple(names)

    def fails(c):
        r, _ = check_stmt(ll, shape, c)
        return any(k == fk for k, _ in r)


    improved = True
    while improved:
        improved = False
        if len(cur) > 2:
            for i in range(len(cur)):
                c = cur[:i] + cur[i + 1 :]
                if fails(c):
                    cur = c
                    improved = True
                    break
    return cur


def replay(case):
    warnings.simplefilter("ignore")
    if case["part"] == "ddl":
        c = case["case"]
        cc = (c["kind"], tuple(c["toks"]), c["tlen"], c["clen"], c["xlen"], tuple(c["explicit"]) if c["explicit"] else None)
        res, _, _, _ = check_ddl(case["dialect"], case["limit"], *cc)
        return [(_ddl_sig(case["dialect"], case["limit"], cc, k), d) for k, d in res]
    if case["part"] == "stmt":
        res, _ = check_stmt(case["label_length"], case["shape"], tuple(case["names"]))
        res = [x for x in res if not x[0].startswith("~")]
        return [(_stmt_sig(case["label_length"], case["shape"], case["names"], k), d) for k, d in res]
    if case["part"] == "hashseed":
        rec = _MiniRec()
        run_shard(("hashseed", case["dialect"]), case.get("tier", "quick"), rec)
        return rec.out
    raise AssertionError(case)


class _MiniRec:
    def __init__(self):
        self.out = []

    def violation(self, sig, detail, case, kind=None):
        self.out.append((sig, detail))

    def case(self, *a, **k):
        pass

    def outcome(self, *a, **k):
        pass
