"""C25 pool never hands one connection to two holders / respects limits — engine T.

Mutations caught (see DESIGN.md): listed at the end of this docstring after the
self-test campaign.
"""
import itertools
import weakref

import sqlalchemy.pool.base as pbase
import sqlalchemy.pool.impl as pimpl
import sqlalchemy.util as sa_util
import sqlalchemy.util.compat as sa_compat
import sqlalchemy.util.queue as squeue
from sqlalchemy import exc
from sqlalchemy import pool

from ..engines import threads as T

ID = "C25"
LEVEL = "model_checking"
META = dict(
    engine="T",
    technique="stateless preemption-bounded thread-schedule exploration of the real pool code (sys.monitoring baton scheduler, cooperative locks/conditions, virtual clock), invariants at every scheduling point",
    design_ref="DESIGN.md §2.3, §5 C25",
    level_text="Every interleaving with <= k preemptions of 2 (thorough: also 3) real threads running checkout / check-in / invalidate / "
    "detach / weakref check-in / dispose bodies against the real QueuePool (FIFO+LIFO, sizes (1,0) (1,1) (2,0) (1,-1)), SingletonThreadPool, "
    "StaticPool and NullPool over a ledger of fake DBAPI connections is executed, from every pre-state with 0..capacity-1 connections "
    "already held; two preemption models (CPython-3.12 GIL switch points; free-threaded line granularity with util.mini_gil as a real "
    "cooperative RLock). Invariants I1-I5 of the statement are evaluated at every scheduling point / at quiescence.",
    level_note="Trusted: the cooperative Lock/RLock/Condition and virtual clock in vf/engines/threads.py (they replace threading/time as "
    "seen by pool/impl.py, pool/base.py, util/queue.py, event/attr.py). M-ft explores line-granular interleavings only (intra-line "
    "races are not explored: may miss, never invents). AsyncAdaptedQueuePool is covered by C29's task-level exploration, not here.",
    rule="state = distinct (harness, final ledger/outcome) class; transition = one complete schedule executed on the real pool; "
    "every schedule is a trace validated on the implementation",
    assumptions=["creator/close/rollback of the fake DBAPI never fail (faults are C26's subject)", "timers fire only when no thread is enabled"],
    bounds=dict(
        quick="2 threads; M-gil preemption bound 2, M-ft bound 1; all body pairs x pool configs x pre-held states",
        thorough="2 threads M-gil 3 / M-ft 2; 3 threads M-gil 2 / M-ft 1",
    ),
)
SHARD_TIMEOUT = dict(quick=600, thorough=3000)

FILES = {squeue.__file__, pimpl.__file__, pbase.__file__}


class Conn:
    def __init__(self, ledger):
        self.id = len(ledger) + 1
        self.open = True
        self.closes = 0
        self.rollbacks = 0
        self.detached = False  # detach() hands the connection to the caller: no longer the pool's
        ledger.append(self)

    def close(self):
        self.closes += 1
        self.open = False

    def rollback(self):
        self.rollbacks += 1

    def commit(self):
        pass

    def cursor(self):
        raise NotImplementedError

    def __repr__(self):
        return "c%d" % self.id


POOLS = {
    "Q10": dict(cls="queue", size=1, ov=0),
    "Q11": dict(cls="queue", size=1, ov=1),
    "Q20": dict(cls="queue", size=2, ov=0),
    "Q20L": dict(cls="queue", size=2, ov=0, lifo=True),
    "Q1U": dict(cls="queue", size=1, ov=-1),
    "STATIC": dict(cls="static"),
    "NULL": dict(cls="null"),
    "SINGLE": dict(cls="single"),
}
BODIES = ("coci", "coci2", "inval", "delfairy", "detach", "softinv", "dispose", "dropdetached", "isoclose")


class Harness:
    files = FILES

    def __init__(self, poolname, bodies, held, dispose=False):
        self.poolname = poolname
        self.cfg = POOLS[poolname]
        self.body_names = tuple(bodies)
        self.held = held
        self.bodies = [self._mk_body(b) for b in bodies]

    # -- engine hooks
    def patches(self, model):
        p = [
            (squeue, "threading", T.FakeThreading),
            (pimpl, "threading", T.FakeThreading),
            (squeue, "_time", T.FAKE_TIME.time),
            (pbase, "time", T.FAKE_TIME),
        ]
        if model == "ft":
            rl = T.CoopRLock()
            p += [(sa_util, "mini_gil", rl), (sa_compat, "mini_gil", rl)]
        return p

    def setup(self, ex):
        ledger = []
        cfg = self.cfg
        mk = lambda: Conn(ledger)  # noqa
        if cfg["cls"] == "queue":
            p = pool.QueuePool(mk, pool_size=cfg["size"], max_overflow=cfg["ov"], timeout=10, use_lifo=cfg.get("lifo", False))
        elif cfg["cls"] == "static":
            p = pool.StaticPool(mk)
        elif cfg["cls"] == "null":
            p = pool.NullPool(mk)
        elif cfg["cls"] == "single":
            p = pool.SingletonThreadPool(mk, pool_size=5)
        ctx = dict(p=p, ledger=ledger, holders={}, viol=[], timeouts=0, cfg=cfg, conn_threads={}, thread_conn={})
        ctx["mainheld"] = [p.connect() for _ in range(self.held)]
        # one detached-but-not-yet-dropped checkout per "dropdetached" body: its pool entry is back in
        # the pool and may be handed to someone else before the old proxy is garbage collected
        ctx["pending_detached"] = []
        for b in self.body_names:
            if b == "dropdetached":
                f = p.connect()
                f.dbapi_connection.detached = True
                f.dbapi_connection.dropped = True
                f.detach()
                ctx["pending_detached"].append(f)
                f = None
        ctx["cap"] = (cfg["size"] + cfg["ov"]) if cfg["cls"] == "queue" and cfg["ov"] >= 0 else None
        return ctx

    def on_point(self, ex, ctx):
        # I2 (and StaticPool's single connection) at *every* scheduling point
        openc = 0
        for c in ctx["ledger"]:
            if c.open and not c.detached:
                openc += 1
        cap = ctx["cap"]
        if cap is not None and openc > cap:
            ctx["viol"].append("I2: %d connections open, pool_size+max_overflow=%d" % (openc, cap))
        if ctx["cfg"]["cls"] == "queue":
            p = ctx["p"]
            if p._pool.qsize() > ctx["cfg"]["size"]:
                ctx["viol"].append("I3: %d idle > pool_size" % p._pool.qsize())

    def on_timer(self, ex, ctx, waiter):
        # a waiter's timeout fires only when no thread can run: if an idle connection sits in the
        # queue at that moment the waiter was not woken by the check-in (lost wake-up) -> it is
        # "served" only by its own timeout, not by the returned connection
        if ctx["cfg"]["cls"] == "queue" and ctx["p"]._pool._qsize() > 0:
            ctx["viol"].append("I5: waiter's timer fired although %d idle connection(s) were available (lost wake-up)" % ctx["p"]._pool._qsize())

    def _hold(self, ctx, tid, fairy):
        c = fairy.dbapi_connection
        cls = ctx["cfg"]["cls"]
        if not c.open:
            ctx["viol"].append("checkout returned closed connection %r" % c)
        if getattr(c, "dirty_iso", False):
            # C24 under schedules: per-checkout connection characteristics (isolation level ...) are
            # reset by the record's finalizers at check-in, which must happen before anyone else can get it
            ctx["viol"].append("carry-over: connection %r handed out before the previous holder's characteristics were reset" % c)
        if cls not in ("static",):
            for other, oc in ctx["holders"].items():
                if oc is c and other != tid:
                    ctx["viol"].append("I1: connection %r held by threads %r and %r at once" % (c, other, tid))
            for f in ctx["mainheld"]:
                if f.dbapi_connection is c:
                    ctx["viol"].append("I1: connection %r handed out while held by the set-up" % c)
        if cls == "single":
            prev = ctx["conn_threads"].setdefault(c.id, tid)
            if prev != tid:
                ctx["viol"].append("SingletonThreadPool: connection %r used by threads %r and %r" % (c, prev, tid))
            prevc = ctx["thread_conn"].setdefault(tid, c.id)
            if prevc != c.id:
                ctx["viol"].append("SingletonThreadPool: thread %r got connections c%d and %r" % (tid, prevc, c))
        ctx["holders"][tid] = c

    def _unhold(self, ctx, tid):
        ctx["holders"].pop(tid, None)

    def _connect(self, ctx, tid):
        p = ctx["p"]
        try:
            f = p.connect()
        except exc.TimeoutError:
            ctx["timeouts"] += 1
            # I5: only legitimate if nothing idle and no spare capacity now
            openc = sum(1 for c in ctx["ledger"] if c.open and not c.detached)
            if p._pool.qsize() > 0 or (ctx["cap"] is not None and openc < ctx["cap"]):
                ctx["viol"].append(
                    "I5: TimeoutError although idle=%d open=%d capacity=%s (lost wake-up / waiter not served)" % (p._pool.qsize(), openc, ctx["cap"])
                )
            return None
        self._hold(ctx, tid, f)
        return f

    def _mk_body(self, name):
        def body(ctx, tid):
            reps = 2 if name == "coci2" else 1
            if name == "dropdetached":
                # the last reference to a detached proxy goes away without close(): its (stale) weakref
                # callback must not touch the pool entry, which may belong to a new checkout by now
                ctx["pending_detached"].pop()
                return
            if name == "dispose":
                # Pool.dispose() closes idle connections only; the pool stays usable
                ctx["p"].dispose()
            for _ in range(reps):
                f = self._connect(ctx, tid)
                if f is None:
                    return
                if name == "inval":
                    self._unhold(ctx, tid)
                    f.invalidate()
                    f.close()
                elif name == "softinv":
                    f.invalidate(soft=True)
                    self._unhold(ctx, tid)
                    f.close()
                elif name == "detach":
                    self._unhold(ctx, tid)
                    f.dbapi_connection.detached = True
                    f.detach()
                    f.close()
                elif name == "isoclose":
                    # what DefaultDialect._set_connection_characteristics does for isolation_level=...:
                    # change the connection and register the reset as a check-in finalizer
                    c = f.dbapi_connection
                    c.dirty_iso = True
                    f._connection_record.finalize_callback.append(lambda dbapi: setattr(dbapi, "dirty_iso", False))
                    self._unhold(ctx, tid)
                    f.close()
                elif name == "delfairy":
                    self._unhold(ctx, tid)
                    del f  # weakref callback -> _finalize_fairy in this thread (gc disabled: deterministic)
                else:
                    self._unhold(ctx, tid)
                    f.close()
                f = None

        body.__name__ = name
        return body

    def check(self, ex, ctx):
        p = ctx["p"]
        v = list(dict.fromkeys(ctx["viol"]))
        for vt in ex.vts.values():
            if vt.exc is not None:
                v.append("thread %d raised %r" % (vt.tid, vt.exc))
        cls = ctx["cfg"]["cls"]
        live = len(ctx["mainheld"])
        openc = sum(1 for c in ctx["ledger"] if c.open and not c.detached)
        if not ex.aborted:
            for c in ctx["ledger"]:
                if c.detached and c.open and not getattr(c, "dropped", False):
                    v.append("detach: detached connection %r not closed by its owner's close()" % c)
            if cls == "queue":
                if p.checkedout() != live:
                    v.append("I4: checkedout()=%d but %d live checkouts" % (p.checkedout(), live))
                idle_open = sum(1 for r in p._pool.queue if r.dbapi_connection is not None and r.dbapi_connection.open)
                held_open = sum(1 for f in ctx["mainheld"] if f.dbapi_connection.open)
                if openc != idle_open + held_open:
                    v.append("I4: %d open connections but only %d idle + %d held (leaked connection)" % (openc, idle_open, held_open))
                if p.checkedin() > ctx["cfg"]["size"]:
                    v.append("I3: %d idle > pool_size" % p.checkedin())
                if ctx["timeouts"] and self.held == 0:
                    v.append("I5: TimeoutError although every holder returns its connection")
            elif cls == "null":
                if openc != live:
                    v.append("NullPool: %d connections left open with %d live checkouts" % (openc, live))
            elif cls == "static":
                # StaticPool shares its connection between checkouts by design; the statement makes no
                # single-connection claim (two threads racing on first use may each open one: noted, not judged)
                pass
        outcome = (len(ctx["ledger"]), openc, ctx["timeouts"], ex.timers_fired, tuple(sorted((c.id, c.open, c.closes > 1) for c in ctx["ledger"])), tuple(v))
        return outcome, v


def configs(tier):
    out = []
    pairs = list(itertools.combinations_with_replacement(BODIES, 2))
    if tier == "quick":
        # quick: every body against the plain checkout body, and against itself
        pairs = [bp for bp in pairs if bp[0] == bp[1] or "coci" in bp]
    for pn, cfg in POOLS.items():
        if cfg["cls"] == "queue":
            cap = cfg["size"] + cfg["ov"] if cfg["ov"] >= 0 else 2
            helds = range(0, cap + 1) if tier == "thorough" else range(0, cap)
            # held == cap (thorough): every thread must time out legitimately
            for held in helds:
                for bp in pairs:
                    out.append((pn, bp, held))
        else:
            for bp in pairs:
                if cfg["cls"] in ("static", "single") and "dispose" in bp:
                    # their dispose() closes connections that other threads are using, as documented
                    continue
                if cfg["cls"] == "static" and "isoclose" in bp:
                    # StaticPool shares its one connection between concurrent checkouts by design
                    continue
                if cfg["cls"] == "static" and ("inval" in bp or "detach" in bp):
                    # invalidating / detaching the single shared StaticPool connection while another
                    # thread uses it is documented single-connection behaviour, not a pool defect
                    continue
                out.append((pn, bp, 0))
    if tier == "thorough":
        for pn in ("Q11", "Q20", "Q10"):
            for bp in (("coci", "coci", "coci"), ("coci", "delfairy", "inval"), ("coci2", "coci", "detach")):
                out.append((pn, bp, 0))
    return out


def shards(tier, seed):
    out = []
    for cfg in configs(tier):
        for model in ("gil", "ft"):
            out.append([cfg[0], list(cfg[1]), cfg[2], model])
    return out


def bound_for(tier, model, nthreads):
    if tier == "quick":
        return 2 if model == "gil" else 1
    if nthreads >= 3:
        return 2 if model == "gil" else 1
    return 3 if model == "gil" else 2


def run_shard(shard, tier, rec):
    pn, bodies, held, model = shard
    h = Harness(pn, bodies, held)
    bound = bound_for(tier, model, len(bodies))
    label = "%s/%s/held%d/%s" % (pn, "+".join(bodies), held, model)
    st = T.explore(h, model, bound, rec, label, max_execs=60000 if tier == "quick" else 400000)
    rec.case((label, bound), nontrivial=True, n=st["execs"])
    rec.count("schedules_%s" % model, st["execs"])
    rec.count("max_points_%s" % model, 0)
    rec.counters["max_points_%s" % model] = max(rec.counters.get("max_points_%s" % model, 0), st["max_points"])
    if st["execs"] > 1:
        rec.sample(dict(harness=label, preemption_bound=bound, schedules=st["execs"], choice_points=[st["min_points"], st["max_points"]]))
    for choices, outcome, problems in st["violations"]:
        kind = problems[0].split(":")[0]
        rec.violation(
            "%s pool=%s bodies=%s held=%d model=%s: %s" % (kind, pn, "+".join(bodies), held, model, problems[0]),
            "schedule %r\nproblems: %s" % (choices, "; ".join(problems)),
            dict(pool=pn, bodies=list(bodies), held=held, model=model, schedule=choices),
            kind=(kind, pn, model),
        )


def finish(tier, total):
    return dict(
        schedules_total=total.counters.get("schedules_gil", 0) + total.counters.get("schedules_ft", 0),
        preemption_bounds=dict(quick=dict(gil=2, ft=1), thorough=dict(gil=3, ft=2, three_threads=dict(gil=2, ft=1)))[tier],
    )


def replay(case):
    h = Harness(case["pool"], case["bodies"], case["held"])
    outcome, problems = T.replay_schedule(h, case["model"], case["schedule"])
    return [("%s pool=%s bodies=%s held=%d model=%s: %s" % (p.split(":")[0], case["pool"], "+".join(case["bodies"]), case["held"], case["model"], p), p) for p in problems[:1]]
