"""C20 database URLs round-trip through their string form (engine I).

Every URL whose username / password / database / query keys / query values are
arbitrary strings (all strings up to a length over an alphabet of URL-special
characters, unicode and a non-BMP character) and whose host / port are
syntactically valid is

  R1  rendered by the implementation and parsed by the implementation:
      ``make_url(u.render_as_string(hide_password=False)) == u`` and every
      component is equal one by one (nothing moved between components);
  R2  rendered by the implementation and parsed by an independent reference
      splitter of the generic ``scheme://user:pw@host:port/db?k=v&..`` grammar
      (decides the renderer alone: the text it emits is unambiguous);
  R3  rendered by an independent strict percent-encoder (every byte outside
      ``A-Za-z0-9`` escaped; second variant lower-case hex and ``+`` for a space
      in the query) and parsed by the implementation (decides the parser alone:
      ``make_url`` never moves text between components).

Failing cases are reduced by the driver itself to the minimal failing
sub-case (components reset towards the empty URL, strings shortened, tuples
reduced to their elements); the signature is that minimal case plus the set of
failing routes and the observed parse, so one root cause gives one signature
in every shard.  All root causes of a case are reported (the minimal one is
repaired and the rest is re-examined), so a known finding cannot hide a new one.

Not representable by the URL grammar itself, therefore outside the property
and excluded from the enumeration (counted in the evidence as `excluded_*`):
password without username, host ``""``, 1-tuples and empty tuples as query
values (identical string form to the bare string / to nothing), non-string
password objects.

Known finding on the unchanged tree (reported, signature below): a blank query
value is dropped by ``make_url`` (``parse_qsl`` without ``keep_blank_values``):
``R1-roundtrip,R3-parse-moves-text: URL.create('d', query={'k': ''}) -> query={} (expected {'k': ''})``.
With proposed_fixes/c20_url_keep_blank_query_values.diff applied the check is silent.

Mutations caught (each in a private copy, `VF_REPO=/tmp/wt-strings/<m>`; all in engine/url.py):
  * _parse_url: ``unquote`` -> ``unquote_plus`` for username/password/database
    -> ``URL.create('d', username='+') -> username=' '``
  * render_as_string: IPv6 brackets only when a port is present
    -> R1-parse-raises / R2-render-ambiguous on host ``::1``
  * render_as_string: database ``quote(.., safe=" +/?")`` -> ``database='?'`` parsed as query
  * render_as_string: ``if self.port is not None`` -> ``if self.port`` -> ``port=0`` lost
  * _parse_url: repeated query key ``append(value)`` -> ``insert(0, value)`` -> tuple order reversed
  * render_as_string: password ``quote(.., safe=" +@")`` -> ``password='@'`` moves into host
Equivalent (not property-breaking, correctly silent): username ``safe=" +@"`` (the
parser takes the last ``@``), query key ``quote`` instead of ``quote_plus``.
"""
import functools
import itertools
import re

from sqlalchemy.engine import make_url
from sqlalchemy.engine import URL

ID = "C20"
LEVEL = "exploration"
META = dict(
    engine="I",
    technique="exhaustive small-scope enumeration of URL components (deviation-bounded product), three-route differential "
    "against an independent URL splitter and an independent strict encoder",
    design_ref="DESIGN.md §5 C20",
    level_text="Every URL within the bound is rendered and re-parsed on the real URL/make_url code and compared component "
    "by component, and additionally against a 40-line reference splitter/encoder of the generic URL grammar, so renderer "
    "and parser are each decided alone as well as together. Complete for the bound: any defect that needs <=2 components "
    "with <=2 (quick) / 3 x <=1 (thorough) characters of the alphabet, or all five components with <=1 character, is found.",
    level_note="Trusted: the reference splitter/encoder in this file (generic RFC-1738 shape; percent-decoding by bytes.fromhex + utf-8). "
    "Alphabet of 16 characters; longer strings and other characters are not claimed.",
    rule="case = (base URL, component values); families: single/pair deviations from an empty and a full base URL x hosts x ports, "
    "full product of all five string components over short strings, multi-valued and two-key queries. non-trivial = some component "
    "contains a character that is special in the URL grammar (so escaping / bracket logic is exercised); distinct_nontrivial counts "
    "distinct (family, deviated components, set of special characters) classes, counters.nontrivial_cases counts the cases",
    assumptions=[
        "host is None or a syntactically valid host name / IPv4 / IPv6 literal; port is None or an int",
        "username/password/database/query keys and values are str without lone surrogates; password requires username",
        "query values are str or tuples of >=2 str (a 1-tuple renders exactly like the bare string)",
    ],
    bounds=dict(
        quick="strings <=2 chars over 16 chars (+12 idioms): singles x 2 bases (x hosts x ports x drivers for <=1 char); all pairs of the 5 components "
        "(<=2 x <=2 chars around the full base, <=2 x <=1 around the empty base); full 5-component product over 8 short values x 3 hosts x 2 ports; "
        "tuples <=3 / two-key queries over <=1-char strings",
        thorough="singles <=3 chars; pairs (<=2 x <=2 chars full base, <=2 x <=1 empty base, and every 3-char string x <=1 char both orders, both bases); full 5-component product over 12 short values "
        "x 4 hosts x 2 ports; 2-tuples over <=2-char strings, 3-tuples and two-key queries over <=1-char strings",
    ),
)

ALPHA = ["@", ":", "/", "?", "%", "+", "&", "=", "#", "[", "]", " ", "a", "é", "\U00010400", ";"]
SPECIAL = set(ALPHA) - {"a"}
IDIOMS = ["%41", "%2f", "%aa", "%%", "a@b:c/d?e", "p@ss:w/rd", "x=1&y=2", "a+b c", "é%é", "[::1]", "//", "a#b"]
HOSTS = [None, "h", "h.example", "127.0.0.1", "::1", "fe80::1", "é.example", "H-1.ex"]
PORTS = [None, 0, 5432]
DRIVERS = ["d", "postgresql+psycopg2", "my_sql"]
COMPS = ("username", "password", "database", "qkey", "qval")

# base URLs as dicts: drivername, username, password, host, port, database, query (list of (k, v))
B_EMPTY = dict(drivername="d", username=None, password=None, host=None, port=None, database=None, query=())
B_FULL = dict(drivername="d", username="u", password="p", host="h", port=5432, database="db", query=(("k", "v"),))
BASES = dict(empty=B_EMPTY, full=B_FULL)


def strings(maxlen):
    out = [""]
    for n in range(1, maxlen + 1):
        out.extend("".join(t) for t in itertools.product(ALPHA, repeat=n))
    return out


# ------------------------------------------------------------------ reference grammar


@functools.lru_cache(maxsize=None)
def _pct_decode(s, plus=False):
    if plus:
        s = s.replace("+", " ")
    out = bytearray()
    i = 0
    bs = s.encode("utf-8")
    while i < len(bs):
        c = bs[i]
        if c == 0x25 and i + 2 < len(bs) and re.fullmatch(rb"[0-9A-Fa-f]{2}", bs[i + 1 : i + 3] or b""):
            out.append(int(bs[i + 1 : i + 3], 16))
            i += 3
        else:
            out.append(c)
            i += 1
    return out.decode("utf-8", "replace")


def ref_parse(s):
    """generic splitter: scheme://[user[:pw]@][host|[v6]][:port][/db][?k=v&k=v]"""
    scheme, rest = s.split("://", 1)
    q = None
    if "?" in rest:
        rest, q = rest.split("?", 1)
    db = None
    if "/" in rest:
        rest, db = rest.split("/", 1)
    user = pw = None
    if "@" in rest:
        ui, rest = rest.rsplit("@", 1)
        if ":" in ui:
            user, pw = ui.split(":", 1)
        else:
            user = ui
    if rest.startswith("["):
        host, _, tail = rest[1:].partition("]")
        port = tail[1:] if tail.startswith(":") else None
        if tail and not tail.startswith(":"):
            raise ValueError("junk after ]")
    else:
        host, sep, port = rest.partition(":")
        if not sep:
            port = None
    query = []
    if q is not None and q != "":
        for part in q.split("&"):
            k, _, v = part.partition("=")
            query.append((_pct_decode(k, True), _pct_decode(v, True)))
    return dict(
        drivername=scheme,
        username=None if user is None else _pct_decode(user),
        password=None if pw is None else _pct_decode(pw),
        host=host or None,
        port=int(port) if port else None,
        database=None if db is None else _pct_decode(db),
        query=_group(query),
    )


def _group(pairs):
    d = {}
    for k, v in pairs:
        if k in d:
            d[k] = d[k] + (v,) if isinstance(d[k], tuple) else (d[k], v)
        else:
            d[k] = v
    return d


@functools.lru_cache(maxsize=None)
def _enc(s, lower=False, plus=False):
    out = []
    for ch in s:
        if ch.isascii() and ch.isalnum():
            out.append(ch)
        elif plus and ch == " ":
            out.append("+")
        else:
            for b in ch.encode("utf-8"):
                out.append(("%%%02x" if lower else "%%%02X") % b)
    return "".join(out)


def ref_render(c, variant):
    lower = plus = variant == 1
    s = c["drivername"] + "://"
    if c["username"] is not None:
        s += _enc(c["username"], lower)
        if c["password"] is not None:
            s += ":" + _enc(c["password"], lower)
        s += "@"
    if c["host"] is not None:
        s += "[%s]" % c["host"] if ":" in c["host"] else c["host"]
    if c["port"] is not None:
        s += ":%d" % c["port"]
    if c["database"] is not None:
        s += "/" + _enc(c["database"], lower)
    pairs = []
    for k, v in c["query"]:
        for e in v if isinstance(v, tuple) else (v,):
            pairs.append(_enc(k, lower, plus) + "=" + _enc(e, lower, plus))
    if pairs:
        s += "?" + "&".join(pairs)
    return s


# ------------------------------------------------------------------ the oracle on one case


def comps_of(u):
    return dict(
        drivername=u.drivername,
        username=u.username,
        password=u.password,
        host=u.host,
        port=u.port,
        database=u.database,
        query={k: (tuple(v) if not isinstance(v, str) else v) for k, v in u.query.items()},
    )


def want_of(c):
    w = dict(c)
    w["query"] = dict(c["query"])
    return w


def _diff(want, got):
    return ", ".join("%s=%r (expected %r)" % (k, got.get(k), want[k]) for k in want if got.get(k) != want[k] or type(got.get(k)) is not type(want[k]))


def representable(c):
    if c["password"] is not None and c["username"] is None:
        return False
    if c["host"] == "":
        return False
    keys = [k for k, _ in c["query"]]
    if len(set(keys)) != len(keys):
        return False
    for _, v in c["query"]:
        if isinstance(v, tuple) and len(v) < 2:
            return False
    return True


def check(c):
    """returns list of (route, observed) for the failing routes of one URL description"""
    want = want_of(c)
    out = []
    try:
        u = URL.create(c["drivername"], c["username"], c["password"], c["host"], c["port"], c["database"], dict(c["query"]))
    except Exception as e:
        return [("create-raises", "%s" % type(e).__name__)], None
    if comps_of(u) != want:
        return [("create-changes", _diff(want, comps_of(u)))], None
    try:
        s = u.render_as_string(hide_password=False)
    except Exception as e:
        return [("render-raises", type(e).__name__)], None
    # R1
    try:
        u2 = make_url(s)
    except Exception as e:
        out.append(("R1-parse-raises", type(e).__name__))
    else:
        g = comps_of(u2)
        if g != want or any(type(g[k]) is not type(want[k]) for k in want):
            out.append(("R1-roundtrip", _diff(want, g)))
        elif not (u2 == u) or (u2 != u):
            out.append(("R1-eq", "components equal but URL.__eq__/__ne__ disagree"))
    # R2
    try:
        g = ref_parse(s)
    except Exception as e:
        out.append(("R2-render-unparseable", type(e).__name__))
    else:
        if g != want:
            out.append(("R2-render-ambiguous", _diff(want, g)))
    # R3
    rs0 = None
    for variant in (0, 1):
        rs = ref_render(c, variant)
        if rs == rs0:
            continue
        rs0 = rs
        try:
            u3 = make_url(rs)
        except Exception as e:
            out.append(("R3-parse-raises", type(e).__name__))
            break
        g = comps_of(u3)
        if g != want:
            out.append(("R3-parse-moves-text", _diff(want, g)))
            break
    return out, s


# ------------------------------------------------------------------ minimisation / signature


def _smaller_values(v):
    """candidate simplifications of one component value, simplest first"""
    if isinstance(v, tuple):
        for e in v:
            yield e
        if len(v) > 2:
            for i in range(len(v)):
                yield v[:i] + v[i + 1 :]
        return
    if isinstance(v, str):
        for i in range(len(v)):
            yield v[:i] + v[i + 1 :]
        for i in range(len(v)):
            if v[i] != "a":
                yield v[:i] + "a" + v[i + 1 :]


def _variants(c):
    """simpler descriptions of c (towards the empty URL)"""
    for k in ("username", "password", "host", "port", "database"):
        if c[k] is not None:
            d = dict(c)
            d[k] = None
            yield d
        if isinstance(c[k], str) and k != "host":  # a host is only ever replaced by None: it must stay syntactically valid
            for sv in _smaller_values(c[k]):
                d = dict(c)
                d[k] = sv
                yield d
    if c["port"] not in (None, 0):
        d = dict(c)
        d["port"] = 0
        yield d
    if c["drivername"] != "d":
        d = dict(c)
        d["drivername"] = "d"
        yield d
    q = c["query"]
    for i in range(len(q)):
        d = dict(c)
        d["query"] = q[:i] + q[i + 1 :]
        yield d
    for i, (k, v) in enumerate(q):
        for sk in _smaller_values(k):
            d = dict(c)
            d["query"] = q[:i] + ((sk, v),) + q[i + 1 :]
            yield d
        if k != "k":
            d = dict(c)
            d["query"] = q[:i] + (("k", v),) + q[i + 1 :]
            yield d
        if v != "v":
            d = dict(c)
            d["query"] = q[:i] + ((k, "v"),) + q[i + 1 :]
            yield d
        for sv in _smaller_values(v):
            d = dict(c)
            d["query"] = q[:i] + ((k, sv),) + q[i + 1 :]
            yield d


def _ssize(s, placeholder=None):
    # the placeholder ("k" / "v") is the simplest query key / value, then "", then strings of 'a', then the rest
    return 0 if s == placeholder else 1 + len(s) * 3 - s.count("a")


def _size(c):
    n = 0
    for k in ("username", "password", "host", "database"):
        if c[k] is not None:
            n += 10 + _ssize(c[k])
    n += 0 if c["port"] is None else (10 if c["port"] == 0 else 11)
    n += len(c["drivername"])
    for k, v in c["query"]:
        n += 10 + _ssize(k, "k")
        for e in v if isinstance(v, tuple) else (v,):
            n += 5 + _ssize(e, "v")
    return n


def minimise(c):
    """greedy descent to a locally minimal failing, representable description"""
    fails, _ = check(c)
    assert fails
    improved = True
    while improved:
        improved = False
        for d in sorted((d for d in _variants(c) if representable(d)), key=_size):
            if _size(d) >= _size(c):
                continue
            f, _ = check(d)
            if f:
                c, fails, improved = d, f, True
                break
    return c, fails


def describe(c):
    args = [repr(c["drivername"])]
    for k in ("username", "password", "host", "port", "database"):
        if c[k] is not None:
            args.append("%s=%r" % (k, c[k]))
    if c["query"]:
        args.append("query=%r" % (dict(c["query"]),))
    return "URL.create(%s)" % ", ".join(args)


def signature(c, fails):
    routes = ",".join(r for r, _ in fails)
    return "%s: %s -> %s" % (routes, describe(c), fails[0][1])


def _repair(c, m):
    """reset in c everything that the minimal failing case m needed"""
    d = dict(c)
    for k in ("username", "password", "host", "port", "database"):
        if m[k] is not None:
            d[k] = "u" if k == "username" and c["password"] is not None else None
    mk = {k for k, _ in m["query"]}
    mv = {e for _, v in m["query"] for e in (v if isinstance(v, tuple) else (v,))}
    nq = []
    for k, v in c["query"]:
        if isinstance(v, tuple):
            v2 = tuple("v" if e in mv else e for e in v)
        else:
            v2 = "v" if v in mv else v
        k2 = k
        if k in mk and not any(e in mv for e in (v if isinstance(v, tuple) else (v,))):
            k2 = "k%d" % len(nq)
        nq.append((k2, v2))
    d["query"] = tuple(nq)
    return d


_KNOWN_MINIMA = []  # per process: (sig, detail, minimal case) already established by minimise(); only a shortcut


def _contains(c, m):
    """does c contain everything the minimal failing case m consists of?"""
    for k in ("username", "password", "host", "port", "database"):
        if m[k] is not None and c[k] != m[k]:
            return False
    cvals = {e for _, v in c["query"] for e in (v if isinstance(v, tuple) else (v,))}
    ckeys = {k for k, _ in c["query"]}
    for k, v in m["query"]:
        if k != "k" and k not in ckeys:
            return False
        for e in v if isinstance(v, tuple) else (v,):
            if e != "v" and e not in cvals:
                return False
    return True


def explain(c):
    """all root causes of a failing case: list of (sig, detail, minimal case).

    Loop: find one minimal failing sub-case m of c, report it, repair c (reset
    what m consists of) and look again, so every independent root cause of c
    is reported.  Shortcut (pure optimisation): a minimal case already
    established in this process that is contained in c is reported without
    re-running the descent; the repaired rest is still examined in full."""
    out = []
    seen = set()
    for _ in range(8):
        if not representable(c):
            break
        fails, s = check(c)
        if not fails:
            break
        hit = None
        for known in _KNOWN_MINIMA:
            if known[0] not in seen and _contains(c, known[2]) and _repair(c, known[2]) != c:
                hit = known
                break
        if hit is None:
            m, mf = minimise(c)
            sig = signature(m, mf)
            _, ms = check(m)
            hit = (sig, "rendered %r; failing routes: %s" % (ms, "; ".join("%s: %s" % f for f in mf)), m)
            if sig not in [k[0] for k in _KNOWN_MINIMA]:
                _KNOWN_MINIMA.append(hit)
        if hit[0] in seen:
            break
        seen.add(hit[0])
        out.append(hit)
        c2 = _repair(c, hit[2])
        if c2 == c:
            break
        c = c2
    return out


# ------------------------------------------------------------------ enumeration


def with_comp(base, comp, val):
    c = dict(base)
    if comp in ("username", "password", "database"):
        c[comp] = val
    elif comp == "qkey":
        q = c["query"]
        if val is None:
            c["query"] = q[1:]
        else:
            c["query"] = ((val, q[0][1] if q else "v"),) + q[1:]
    elif comp == "qval":
        q = c["query"]
        if val is None:
            c["query"] = q[1:]
        else:
            c["query"] = ((q[0][0] if q else "k", val),) + q[1:]
    return c


def _tier_strings(tier):
    s2 = strings(2) + IDIOMS
    if tier == "quick":
        return s2, s2
    return strings(3) + IDIOMS, s2


SHORT8 = [None, "", "a", "@", ":", "/", "%", "+"]
SHORT12 = SHORT8 + ["?", "&", "=", "é"]


def shards(tier, seed):
    out = []
    big, small = _tier_strings(tier)
    nchunk = 4 if tier == "quick" else 24
    for bname in BASES:
        out.append(("single", bname))
        for i, j in itertools.combinations(range(len(COMPS)), 2):
            for ch in range(nchunk):
                out.append(("pair", bname, i, j, ch, nchunk))
    nprod = 8 if tier == "quick" else 48
    for ch in range(nprod):
        out.append(("product", ch, nprod))
    for ch in range(4 if tier == "quick" else 16):
        out.append(("multi", ch, 4 if tier == "quick" else 16))
    return out


def _cases(shard, tier):
    """yields (family, deviated-components, description)"""
    big, small = _tier_strings(tier)
    fam = shard[0]
    if fam == "single":
        base = BASES[shard[1]]
        for comp in COMPS:
            for v in [None] + big:
                c = with_comp(base, comp, v)
                yield fam, (comp,), c
                if v is None or len(v) <= 1 or v in IDIOMS:
                    for h in HOSTS:
                        for p in PORTS:
                            for dn in DRIVERS if (h in (None, "::1") and p != 0) else DRIVERS[:1]:
                                d = dict(c)
                                d["host"], d["port"], d["drivername"] = h, p, dn
                                yield "single-hostport", (comp, "host", "port"), d
    elif fam == "pair":
        _, bname, i, j, ch, nchunk = shard
        base = BASES[bname]
        ci, cj = COMPS[i], COMPS[j]
        s2 = strings(2) + IDIOMS
        s1 = strings(1)
        small = s1 if bname == "empty" else s2
        n = 0
        for vi in [None] + s2:
            n += 1
            if n % nchunk != ch:
                continue
            c1 = with_comp(base, ci, vi)
            for vj in [None] + small:
                yield fam, (ci, cj), with_comp(c1, cj, vj)
        if tier != "quick":
            # every 3-character string in one component x every <=1-character string in the other, both ways
            n = 0
            for v3 in big:
                if len(v3) != 3 or v3 in IDIOMS:
                    continue
                n += 1
                if n % nchunk != ch:
                    continue
                c1 = with_comp(base, ci, v3)
                c2 = with_comp(base, cj, v3)
                for v in [None] + s1:
                    yield fam, (ci, cj), with_comp(c1, cj, v)
                    yield fam, (ci, cj), with_comp(c2, ci, v)
    elif fam == "product":
        _, ch, nchunk = shard
        dom = SHORT8 if tier == "quick" else SHORT12
        hosts = [None, "h", "::1"] if tier == "quick" else [None, "h", "::1", "127.0.0.1"]
        ports = [None, 5432]
        n = 0
        for un in dom:
            for pw in dom:
                n += 1
                if n % nchunk != ch:
                    continue
                for db in dom:
                    for qk in dom:
                        for qv in dom if qk is not None else [None]:
                            if qv is None and qk is not None:
                                continue
                            q = () if qk is None else ((qk, qv),)
                            for h in hosts:
                                for p in ports:
                                    yield fam, COMPS, dict(drivername="d", username=un, password=pw, host=h, port=p, database=db, query=q)
    elif fam == "multi":
        _, ch, nchunk = shard
        s1 = strings(1)
        s2 = strings(1) if tier == "quick" else small
        n = 0
        for base in (B_EMPTY, B_FULL):
            for k in s1:
                n += 1
                if n % nchunk != ch:
                    continue
                for a in s2:
                    for b in s2:
                        c = dict(base)
                        c["query"] = ((k, (a, b)),)
                        yield "multi2", ("qkey", "qval"), c
                for a in s1:
                    for b in s1:
                        for d in s1:
                            c = dict(base)
                            c["query"] = ((k, (a, b, d)),)
                            yield "multi3", ("qkey", "qval"), c
                for k2 in s1:
                    if k2 == k:
                        continue
                    for a in s1:
                        for b in s1:
                            c = dict(base)
                            c["query"] = ((k, a), (k2, b))
                            yield "twokeys", ("qkey", "qval"), c
                            c = dict(base)
                            c["query"] = ((k, (a, b)), (k2, b))
                            yield "twokeys-multi", ("qkey", "qval"), c


def _specials(c):
    s = set()
    for k in ("username", "password", "database"):
        if c[k]:
            s.update(ch for ch in c[k] if ch in SPECIAL)
    for k, v in c["query"]:
        s.update(ch for ch in k if ch in SPECIAL)
        for e in v if isinstance(v, tuple) else (v,):
            s.update(ch for ch in e if ch in SPECIAL)
    if c["host"] and ":" in c["host"]:
        s.add("v6")
    return s


_shape_re = re.compile(r"%[0-9A-Fa-f]{2}")
_SPECIALS_STR = set("@:/?%+&=#[] ;")


def run_shard(shard, tier, rec):
    nsample = 0
    for fam, devs, c in _cases(shard, tier):
        if not representable(c):
            rec.count("excluded_not_representable")
            continue
        fails, s = check(c)
        sp = _specials(c)
        rec.case((fam, devs, tuple(sorted(sp))), nontrivial=bool(sp))
        if sp:
            rec.count("nontrivial_cases")
        if s is not None:
            raw = _shape_re.sub("", s.split("://", 1)[1])
            rec.outcome((c["username"] is None, c["password"] is None, c["host"] is None, c["port"] is None, c["database"] is None, len(c["query"]), "".join(sorted(set(raw) & _SPECIALS_STR))))
        if sp and len(sp) >= 3 and nsample < 3:
            nsample += 1
            rec.sample(dict(family=fam, url=describe(c), rendered=s))
        if fails:
            for sig, detail, m in explain(c):
                rec.violation(sig, detail + "; first seen in %s" % describe(c), _jsonable(m))


def _jsonable(c):
    d = dict(c)
    d["query"] = [[k, list(v) if isinstance(v, tuple) else v] for k, v in c["query"]]
    return d


def replay(case):
    c = dict(case)
    c["query"] = tuple((k, tuple(v) if isinstance(v, list) else v) for k, v in case["query"])
    fails, s = check(c)
    if not fails:
        return []
    return [(signature(c, fails), "rendered %r; failing routes: %s" % (s, "; ".join("%s: %s" % f for f in fails)))]
