"""C01 rendered SQL preserves the meaning of the expression tree (engine I).

Every well-typed expression tree with exactly n operator nodes (every shape; 46 typed operator signatures:
+ - * / // % unary-, ||, = != < <= > >=, IS [NOT] NULL, IS [NOT] DISTINCT FROM, [NOT] BETWEEN, [NOT] LIKE, ILIKE,
[NOT] IN (expressions / expanding bind), AND OR NOT, CASE, CAST, correlated scalar subquery; operands numeric,
text, boolean) is built twice on the real expression language -- naturally, and with every operand of every node
wrapped in an explicit parenthesis (negation as plain ``NOT (x)``) -- and

  (1) both are selected side by side on SQLite (real execution path, raw DBAPI values) and compared on every row of
      ``sqlworld`` -- the property exactly as stated;
  (2) the independent 3VL evaluator (``vf.models.sql3vl``) applied to the tree must give the value SQLite returns
      for the fully parenthesised rendering on every row (the tree means what its unambiguous rendering computes;
      binds the model used in (3) to a real backend);
  (3) for postgresql, mysql, mssql, oracle the emitted and the fully grouped strings are parsed by the
      precedence-climbing reference parser (``vf.models.sqlparse_ref``) loaded with that backend's precedence /
      associativity table; the emitted string must parse, and the two parse trees must evaluate equal under every
      valuation of their leaves.  Conformance of parser + table: the sqlite-dialect string parsed with the SQLite
      table and evaluated must reproduce what SQLite itself returned, row by row (a mismatch is a harness error).
  (4) literal mode: trees containing literals are also compiled with ``literal_binds`` and the text executed; it
      must return what the bound execution returned (negative numbers, NULL, empty strings rendered in line).

Leaves: canonically distinct columns, plus one pass per leaf replaced by each literal (NULL, -2, 0, 1, 3, '', 'a',
true, false).

Mutations caught: (each on a private copy of lib/, ``VF_REPO=/tmp/wt-sqlsem ./check C01``) changed _PRECEDENCE entry;
is_precedent <=/< swap; wrong negate pairing; dropped self_group in UnaryExpression; non-associative - flattened; sqlite
truediv override losing its parenthesis; wrong operator string -- details in MUTATIONS below.
"""
from __future__ import annotations

import re
import sqlite3
import warnings

import sqlalchemy as sa
from sqlalchemy import exc as sa_exc

from ..models import sql3vl
from ..models import sqlparse_ref
from ..worlds import sqlworld as W

ID = "C01"
LEVEL = "exploration"
MUTATIONS = """
Mutations caught (each alone, on a private copy of lib/; every one produced new VIOLATION signatures on top of the
genuine findings of the unchanged tree):
 * operators.py _PRECEDENCE: mul 8 -> 6                      (a + b) * c rendered a + b * c
 * operators.py is_precedent: <= -> <                         a - (b - c) rendered a - b - c, (a = b) = c ...
 * default_comparator.py: lt's negate_op ge -> gt             NOT (a < b) rewritten to a > b
 * elements.py UnaryExpression.__init__: self_group dropped   -(a + b) rendered -a + b
 * operators.py _associative: + sub                           a - (b - c) flattened to a - b - c
 * sqlite/base.py visit_truediv_binary: "(%s + 0.0)" -> "%s + 0.0"   caught by the 3VL meaning oracle (both renderings wrong alike)
 * compiler.py OPERATORS[le] " <= " -> " < "                  caught via NOT (a > b) -> a <= b and by the meaning oracle
"""
META = dict(
    engine="I",
    technique="exhaustive small-scope enumeration of typed expression trees on the real expression language; differential "
    "emitted-vs-fully-parenthesised SQL executed on SQLite per row; 3VL reference evaluator in lock-step; reference-grammar "
    "parse (per-backend precedence tables) for the non-executable dialects",
    design_ref="DESIGN.md §5 C01",
    level_text="All well-typed trees with <=2 (quick) / <=3 (thorough; 4 with column leaves only) operator nodes over 46 typed operator signatures, "
    "every shape, canonical distinct column leaves plus every single-leaf literal replacement, are compiled by the real "
    "compiler and *executed* on SQLite next to their fully parenthesised rendering on every row of a cross-product "
    "table; grouping, precedence, associative flattening and negation rewriting are decisions about parent/child/"
    "grandchild operator combinations, so 3 nodes cover every triple. Exhaustive for the bound.",
    level_note="Trusted: the 3VL evaluator and the reference parser + precedence tables (both validated against SQLite on "
    "every enumerated tree and row); PostgreSQL/MySQL/MSSQL/Oracle renderings are judged against the reference grammar, "
    "not executed (no servers in the sandbox). Float results compared with 1e-9 relative tolerance (flattening float "
    "addition is intended).",
    rule="case = one tree (shape x operators x leaf assignment); evaluated on every row of its world (125 numeric / 108 "
    "string / 900 mixed rows; quick: 225 mixed) in bound mode, plus literal mode and 5 dialect grammars where applicable; "
    "non-trivial = the tree has >=2 operator nodes or a negation, i.e. the compiler had to take a grouping / "
    "rewriting decision",
    assumptions=[
        "SQLite 3.40 with PRAGMA case_sensitive_like=ON stands for 'a backend'",
        "other dialects: documented precedence tables are the backend's grammar",
    ],
    bounds=dict(
        quick="all typed trees with <=2 operator nodes x (column leaves + every single literal replacement); every row; 5 grammars",
        thorough="all typed trees with <=3 operator nodes x (column leaves + every single literal replacement), every row, 5 grammars on column-leaf and boolean-literal trees; plus all typed trees with exactly 4 operator nodes with column leaves (1 034 478 trees), SQLite-executed oracles only",
    ),
)
SHARD_TIMEOUT = dict(quick=300, thorough=1500)

BATCH = 40
# what a failing build / compile / execution of a well-formed tree may raise out of the implementation or the driver
_IMPL_ERRORS = (sa_exc.SQLAlchemyError, sqlite3.Error, NotImplementedError, TypeError, AttributeError, AssertionError)
TYPES = ("N", "S", "B")
PARSE_DIALECTS = ("postgresql", "mysql", "mssql", "oracle")

_state = {}
for _d in ("sqlite",) + PARSE_DIALECTS:
    __import__("sqlalchemy.dialects." + _d)


def _conn():
    if "conn" not in _state:
        _state["eng"] = W.make_engine()
        _state["conn"] = _state["eng"].connect().execution_options(compiled_cache=None)
    return _state["conn"]


def _dialect(name):
    d = _state.get(("d", name))
    if d is None:
        import importlib

        mod = importlib.import_module("sqlalchemy.dialects." + name)
        d = _state[("d", name)] = mod.dialect(paramstyle="named")
    return d


def bounds(tier):
    if tier == "quick":
        return dict(nmax=2, lit_n=2, litmode_n=2, parse_lit_n=2, parse_n=2, quick=True)
    return dict(nmax=4, lit_n=3, litmode_n=2, parse_lit_n=2, parse_n=3, quick=False)


def shards(tier, seed):
    b = bounds(tier)
    out = []
    for n in range(1, b["nmax"] + 1):
        for typ in TYPES:
            cnt = W.count_trees(n, typ)
            parts = max(1, min(256 if n >= 4 else 96 if n == 3 else 40, cnt // (30 if n >= 3 else 12)))
            for p in range(parts):
                out.append([n, typ, p, parts])
    return out


# ------------------------------------------------------------------ helpers

_proj_cache = {}


def _projection(world, cols):
    """distinct valuations of the used columns in a world + map row index -> valuation index"""
    key = (world, cols)
    r = _proj_cache.get(key)
    if r is None:
        seen = {}
        vals = []
        idx = []
        for row in W.model_rows(world):
            k = tuple(row[c] for c in cols)
            j = seen.get(k)
            if j is None:
                j = seen[k] = len(vals)
                vals.append({c: row[c] for c in cols})
            idx.append(j)
        r = _proj_cache[key] = (vals, idx)
    return r


_built = {}


def _build(ast, grouped):
    """memoised per batch (cleared by run_shard); expressions are immutable values and may be shared by statements"""
    k = (ast, grouped)
    e = _built.get(k)
    if e is None:
        with warnings.catch_warnings():
            warnings.simplefilter("ignore")
            e = _built[k] = W.build(ast, grouped=grouped)
        if len(_built) > 400:
            _built.clear()
            _built[k] = e
    return e


def _is_float(ast):
    k = ast[0]
    if k == "truediv":
        return True
    if k in ("add", "sub", "mul", "mod", "floordiv", "neg", "ssq"):
        return any(_is_float(c) for c in sql3vl.children(ast))
    if k == "case":
        return _is_float(ast[2]) or _is_float(ast[3])
    return False


def _uses_floor(ast):
    """floordiv with a non-integer operand renders FLOOR(); SQLite's floor() is the UDF math.floor installed by the
    pysqlite dialect, which raises on NULL -- such trees cannot be executed on rows with NULLs (both renderings fail
    alike; reported as a side finding, not a C01 violation)"""
    if ast[0] in ("col", "lit"):
        return False
    if ast[0] == "floordiv" and (_is_float(ast[1]) or _is_float(ast[2])):
        return True
    return any(_uses_floor(c) for c in sql3vl.children(ast))


def _has_literal(ast):
    if ast[0] == "lit":
        return True
    if ast[0] == "col":
        return False
    return any(_has_literal(c) for c in sql3vl.children(ast))


def _has_bool_literal_only(ast):
    """every literal of the tree is a boolean constant (or an IN literal list)"""
    if ast[0] == "lit":
        return ast[2] == "B" and ast[1] is not None
    if ast[0] == "col":
        return True
    if ast[0] in ("in", "not_in"):
        return _has_bool_literal_only(ast[1]) and all(c[0] == "lit" or _has_bool_literal_only(c) for c in ast[2:])
    return all(_has_bool_literal_only(c) for c in sql3vl.children(ast))


def _select(exprs, world):
    return sa.select(*[e.label(None) for e in exprs]).select_from(W.t).where(W.t.c.w == W.WORLDS[world]).order_by(W.t.c.id)


def _exec(conn, stmt):
    """real execution path (statement compilation, bind processing, post-compile expansion), raw DBAPI rows: the
    values compared are the backend's, not re-typed by result processors"""
    with warnings.catch_warnings():
        warnings.simplefilter("ignore")
        res = conn.execute(stmt)
        try:
            return res.cursor.fetchall()
        finally:
            res.close()


def _exec_literal(conn, stmt):
    with warnings.catch_warnings():
        warnings.simplefilter("ignore")
        sql = str(stmt.compile(dialect=conn.dialect, compile_kwargs=dict(literal_binds=True)))
    return conn.connection.driver_connection.execute(sql).fetchall(), sql


def _same(x, y):
    if x is y:
        return True
    if x is None or y is None:
        return False
    if isinstance(x, str) != isinstance(y, str):
        return False
    if x == y:
        return True
    return sql3vl.same_value(x, y)


def _errtext(ex):
    return "%s: %s" % (type(ex).__name__, str(ex).splitlines()[0][:200])


# ------------------------------------------------------------------ oracles (1) (2) (4) and sqlite conformance


def _check_one_sqlite(conn, ast, world, want_conf, want_lit, rec, meaning=True):
    """slow path: one tree at a time, each rendering in its own statement"""
    out = []
    vals = {}
    errs = {}
    for which in ("emitted", "grouped"):
        try:
            e = _build(ast, which == "grouped")
            vals[which] = [r[0] for r in _exec(conn, _select([e], world))]
        except _IMPL_ERRORS as ex:
            errs[which] = _errtext(ex)
    if len(errs) == 2:
        # neither rendering is executable on this backend: no value on either side, nothing to compare
        if rec is not None:
            rec.count("unexecutable_both_renderings")
            rec.note("trees whose emitted AND fully parenthesised SQL both fail on SQLite (FLOOR() of NULL raises in the pysqlite floor UDF): counted, not compared")
        return out
    if errs:
        (which, msg), = errs.items()
        out.append((ast, "error", "%s rendering fails (%s) while the other executes" % (which, msg)))
        return out
    _compare(ast, world, vals["emitted"], vals["grouped"], out, rec, meaning)
    if want_conf:
        _conformance(ast, world, vals["emitted"])
    if want_lit:
        try:
            rows, sql = _exec_literal(conn, _select([_build(ast, False)], world))
            lit = [r[0] for r in rows]
            _compare_lit(ast, world, vals["emitted"], lit, out)
        except Exception as ex:
            out.append((ast, "literal-error", "literal_binds rendering cannot be executed: %s" % _errtext(ex)))
    return out


def _compare(ast, world, ev, gv, out, rec, meaning=True):
    wrows = W.rows(world)
    for i in range(len(ev)):
        if not _same(ev[i], gv[i]):
            out.append((ast, "emitted-vs-grouped", "row %r: emitted SQL -> %r, fully parenthesised SQL -> %r" % (_rowdesc(wrows[i], ast), ev[i], gv[i])))
            break
    cols = sql3vl.columns_of(ast)
    vals, idx = _projection(world, cols)
    f = sql3vl.compile_ast(ast)
    exp = [sql3vl.to_backend(f(v)) for v in vals] if meaning else []
    for i in range(len(gv) if meaning else 0):
        if not _same(gv[i], exp[idx[i]]):
            out.append((ast, "meaning", "row %r: fully parenthesised SQL on SQLite -> %r, 3VL evaluation of the tree -> %r" % (_rowdesc(wrows[i], ast), gv[i], exp[idx[i]])))
            break
    if rec is not None:
        rec.count("rows_compared", len(ev))
        rec.count("evaluator_vs_sqlite_rows", len(gv) if meaning else 0)
        rec.outcome(tuple(gv))


def _compare_lit(ast, world, ev, lv, out):
    wrows = W.rows(world)
    for i in range(len(ev)):
        if not _same(ev[i], lv[i]):
            out.append((ast, "literal-vs-bound", "row %r: bound execution -> %r, literal_binds text -> %r" % (_rowdesc(wrows[i], ast), ev[i], lv[i])))
            break


class ConformanceError(Exception):
    """the reference parser / evaluator disagrees with SQLite on the very string SQLite executed: harness defect"""


_SPLIT = re.compile(r" AS zzlbl_\d+(?:, | \nFROM t$)")


def _compile_many(exprs, dialect):
    """the texts of column expressions as the dialect renders them inside SELECT e0 AS zzlbl_0, ... FROM t"""
    with warnings.catch_warnings():
        warnings.simplefilter("ignore")
        c = sa.select(*[e.label("zzlbl_%d" % i) for i, e in enumerate(exprs)]).select_from(W.t).compile(
            dialect=_dialect(dialect), compile_kwargs=dict(render_postcompile=True)
        )
    text = str(c)
    if not text.startswith("SELECT "):
        raise RuntimeError("unexpected statement layout: %r" % text)
    parts = _SPLIT.split(text[len("SELECT ") :])
    if len(parts) != len(exprs) + 1 or parts[-1] != "":
        raise RuntimeError("unexpected statement layout: %r" % text)
    return parts[:-1], c.params


def _compile(expr, dialect):
    texts, params = _compile_many([expr], dialect)
    return texts[0], params


def _conformance(ast, world, ev, sql=None, params=None):
    if sql is None:
        sql, params = _compile(_build(ast, False), "sqlite")
    tree = sqlparse_ref.parse(sql, "sqlite", params)
    cols = sql3vl.columns_of(ast)
    vals, idx = _projection(world, cols)
    f = sql3vl.compile_ast(tree, sql3vl.SQLITE_LAX)
    exp = []
    for v in vals:
        try:
            exp.append(sql3vl.to_backend(f(v)))
        except sql3vl.SqlError:
            exp.append(ConformanceError)  # comparison of text with number etc.: outside the model
    for i in range(len(ev)):
        y = exp[idx[i]]
        if y is ConformanceError:
            continue
        if not _same(ev[i], y):
            raise ConformanceError(
                "parser/evaluator model disagrees with SQLite on %r (tree %s, parsed %s) row %r: SQLite %r, model %r"
                % (sql, sql3vl.fmt(ast), sql3vl.fmt(tree), vals[idx[i]], ev[i], y)
            )


def check_sqlite(conn, asts, quick, rec=None, conf=(), lit=()):
    """oracles (1) (2) (4) + parser conformance for a list of ASTs. returns list of (ast, kind, detail).
    conf / lit: sets of ASTs for which conformance / literal mode apply."""
    out = []
    by_world = {}
    for ast in asts:
        world = W.world_for(sql3vl.columns_of(ast), quick)
        if _uses_floor(ast):
            out.extend(_check_one_sqlite(conn, ast, world, False, False, rec, meaning=False))
            continue
        by_world.setdefault(world, []).append(ast)
    for world, group in by_world.items():
        _check_group(conn, world, group, quick, rec, conf, lit, out)
    return out


def _check_group(conn, world, group, quick, rec, conf, lit, out):
    try:
        exprs = []
        for ast in group:
            exprs.append(_build(ast, False))
            exprs.append(_build(ast, True))
        rows = _exec(conn, _select(exprs, world))
    except _IMPL_ERRORS:
        if len(group) == 1:
            out.extend(_check_one_sqlite(conn, group[0], world, group[0] in conf, group[0] in lit, rec))
        else:
            h = len(group) // 2
            _check_group(conn, world, group[:h], quick, rec, conf, lit, out)
            _check_group(conn, world, group[h:], quick, rec, conf, lit, out)
        return
    colvals = list(zip(*rows)) if rows else [()] * (2 * len(group))
    cgroup = [a for a in group if a in conf]
    ctexts, cparams = _compile_many([_build(a, False) for a in cgroup], "sqlite") if cgroup else ([], {})
    ctexts = dict(zip(cgroup, ctexts))
    for j, ast in enumerate(group):
        _compare(ast, world, colvals[2 * j], colvals[2 * j + 1], out, rec)
        if ast in ctexts:
            _conformance(ast, world, colvals[2 * j], ctexts[ast], cparams)
            if rec is not None:
                rec.count("parser_conformance_rows", len(rows))
    lits = [(j, a) for j, a in enumerate(group) if a in lit]
    if lits:
        _lit_group(conn, world, lits, colvals, out, rec)


def _lit_group(conn, world, lits, colvals, out, rec):
    try:
        rows, sql = _exec_literal(conn, _select([_build(a, False) for _, a in lits], world))
    except Exception as ex:
        if len(lits) == 1:
            out.append((lits[0][1], "literal-error", "literal_binds rendering cannot be executed: %s" % _errtext(ex)))
        else:
            h = len(lits) // 2
            _lit_group(conn, world, lits[:h], colvals, out, rec)
            _lit_group(conn, world, lits[h:], colvals, out, rec)
        return
    lv = list(zip(*rows)) if rows else [()] * len(lits)
    for k, (j, ast) in enumerate(lits):
        _compare_lit(ast, world, colvals[2 * j], lv[k], out)
        if rec is not None:
            rec.count("literal_mode_rows", len(rows))


def _rowdesc(row, ast):
    return {c: row[c] for c in sql3vl.columns_of(ast)}


# ------------------------------------------------------------------ oracle (3): reference grammars


def check_parse(asts, dialects=PARSE_DIALECTS, rec=None):
    """oracle (3) for a list of ASTs; returns list of (ast, '<dialect> <kind>', detail)"""
    out = []
    if isinstance(asts, tuple):
        asts = [asts]
    for d in dialects:
        todo = [a for a in asts if not (d == "mssql" and (_mixed_concat(a) or _bool_as_value(a)))]
        # T-SQL has no implicit number->text conversion in '+' (string || number is not expressible) and no
        # boolean-valued expressions (a predicate cannot be an operand of = / IS NULL ...): skipped for mssql
        _parse_group(todo, d, rec, out)
    return out


def _parse_group(group, d, rec, out):
    if not group:
        return
    try:
        exprs = []
        for a in group:
            exprs.append(_build(a, False))
            exprs.append(_build(a, True))
        texts, params = _compile_many(exprs, d)
    except _IMPL_ERRORS as ex:
        if len(group) == 1:
            out.append((group[0], d + " compile-error", _errtext(ex)))
        else:
            h = len(group) // 2
            _parse_group(group[:h], d, rec, out)
            _parse_group(group[h:], d, rec, out)
        return
    for j, ast in enumerate(group):
        es, gs = texts[2 * j], texts[2 * j + 1]
        gt = sqlparse_ref.parse(gs, d, params)  # the fully parenthesised text must always parse: else harness error
        try:
            et = sqlparse_ref.parse(es, d, params)
        except sqlparse_ref.ParseError as ex:
            out.append((ast, d + " unparseable", "emitted %r is rejected by the %s grammar: %s (fully parenthesised: %r)" % (es, d, ex, gs)))
            continue
        if rec is not None:
            rec.count("grammar_parses", 2)
        if et == gt:
            continue
        cols = sql3vl.columns_of(ast)
        vals, _ = _projection(W.world_for(cols, True), cols)
        fe = sql3vl.compile_ast(et, sql3vl.SQLITE)
        fg = sql3vl.compile_ast(gt, sql3vl.SQLITE)
        for v in vals:
            x, y = _ev(fe, v), _ev(fg, v)
            if rec is not None:
                rec.count("grammar_valuations")
            if not (x == y == "SQL-ERROR" or (x != "SQL-ERROR" and y != "SQL-ERROR" and _same(sql3vl.to_backend(x), sql3vl.to_backend(y)))):
                out.append(
                    (ast, d + " emitted-vs-grouped", "%s grammar: emitted %r parses as %s, fully parenthesised %r parses as %s; at %r they evaluate to %r vs %r" % (d, es, sql3vl.fmt(et), gs, sql3vl.fmt(gt), v, x, y))
                )
                break


def _ev(f, v):
    try:
        return f(v)
    except sql3vl.SqlError:
        return "SQL-ERROR"


def _bool_as_value(ast, parent=None):
    """a boolean *operator* node used as an operand of something other than AND / OR / NOT / CASE-condition"""
    if ast[0] in ("col", "lit"):
        return False
    if parent is not None and sql3vl.type_of(ast, W.COLTYPES) == "B" and ast[0] not in ("ssq",):
        if parent[0] not in ("and", "or", "not") and not (parent[0] == "case" and parent[1] is ast):
            return True
    return any(_bool_as_value(c, ast) for c in sql3vl.children(ast))


def _mixed_concat(ast):
    if ast[0] in ("col", "lit"):
        return False
    if ast[0] == "concat" and any(sql3vl.type_of(c, W.COLTYPES) != "S" for c in ast[1:]):
        return True
    return any(_mixed_concat(c) for c in sql3vl.children(ast))


# ------------------------------------------------------------------ shrinking / signatures

ARITH = ("add", "sub", "mul", "truediv", "floordiv", "mod")


def _subtrees(ast, acc):
    if ast[0] in ("col", "lit"):
        return acc
    for c in sql3vl.children(ast):
        _subtrees(c, acc)
    acc.append(ast)
    return acc


def _shape(ast, generic=()):
    """canonical text of a failing tree: columns as their type, arithmetic operators as one class, literals whose
    value does not matter (listed in generic, by identity of position path) as lit:<type>"""

    def go(a, path):
        k = a[0]
        if k == "col":
            return W.COLTYPES[a[1]]
        if k == "lit":
            return "lit:" + a[2] if path in generic else sql3vl.fmt(a)
        ch = sql3vl.children(a)
        if k == "cast":
            return "cast(%s as %s)" % (go(ch[0], path + (0,)), a[2])
        name = "arith" if k in ARITH else k
        return "%s(%s)" % (name, ",".join(go(c, path + (i,)) for i, c in enumerate(ch)))

    return go(ast, ())


def _paths(ast, path=()):
    """(path, node) of every node, root first"""
    yield path, ast
    if ast[0] not in ("col", "lit"):
        for i, c in enumerate(sql3vl.children(ast)):
            yield from _paths(c, path + (i,))


def _replace(ast, path, new):
    if not path:
        return new
    ch = list(sql3vl.children(ast))
    ch[path[0]] = _replace(ch[path[0]], path[1:], new)
    return W._rebuild(ast, ch)


_CANON_COL = {"N": ("col", "a"), "S": ("col", "s"), "B": ("col", "p")}


def _in_literal_list(root, path):
    """path points into the fixed literal list of an expanding-IN node"""
    if not path:
        return False
    parent = root
    for i in path[:-1]:
        parent = sql3vl.children(parent)[i]
    return parent[0] in ("in", "not_in") and path[-1] >= 1 and all(c[0] == "lit" for c in parent[2:])


def minimise(ast, fails):
    """(minimal tree, generic literal paths).  To a fixpoint: literals replaced by columns where the failure does not
    need a literal; smallest failing sub-tree; a node replaced by one of its operands of the same type; an operator
    operand replaced by a column / literal leaf.  Remaining literals whose value is irrelevant are marked generic."""
    best = ast
    changed = True
    while changed:
        changed = False
        for path, node in list(_paths(best)):
            if node[0] == "lit" and path and not _in_literal_list(best, path):
                cand = _replace(best, path, _CANON_COL[node[2]])
                if fails(cand):
                    best, changed = cand, True
        for sub in sorted(_subtrees(best, []), key=sql3vl.size):
            if sub is best:
                break
            if fails(sub):
                best, changed = sub, True
                break
        if changed:
            continue
        for path, node in list(_paths(best)):
            if node[0] in ("col", "lit") or _in_literal_list(best, path):
                continue
            ty = sql3vl.type_of(node, W.COLTYPES)
            cands = [c for c in sql3vl.children(node) if c[0] != "lit" and sql3vl.type_of(c, W.COLTYPES) == ty]
            if path:
                cands += [_CANON_COL[ty]] + W.LITERALS[ty]
            for c in cands:
                cand = _replace(best, path, c)
                if cand != best and cand[0] not in ("col", "lit") and fails(cand):
                    best, changed = cand, True
                    break
            if changed:
                break
    generic = set()
    for path, node in list(_paths(best)):
        if node[0] != "lit" or not path or _in_literal_list(best, path):
            continue
        others = [l for l in W.LITERALS[node[2]] if l != node]
        if others and all(fails(_replace(best, path, o)) for o in others):
            generic.add(path)
    return best, generic


def _sql(ast, grouped=False, dialect="sqlite"):
    try:
        return _compile(_build(ast, grouped), dialect)[0]
    except Exception as ex:
        return "<%s>" % ex


def _split(kind):
    """'postgresql unparseable' -> ('postgresql', 'unparseable'); 'meaning' -> ('sqlite', 'meaning')"""
    if " " in kind:
        d, k = kind.split(" ", 1)
        return d, k
    return "sqlite", kind


def _report(rec, results, refail, mode, quick):
    for ast, kind, detail in results:
        # one root cause per tree: "meaning" is implied when emitted-vs-grouped already failed
        if kind == "meaning" and any(a is ast and k == "emitted-vs-grouped" for a, k, _ in results):
            continue
        cache = _state.setdefault("failcache", {})

        def fails(s, kind=kind):
            key = (mode, kind, s)
            r = cache.get(key)
            if r is None:
                r = cache[key] = any(k == kind for _, k, _ in refail(s))
            return r

        m, generic = minimise(ast, fails)
        d, k = _split(kind)
        sig = "%s %s: %s" % (d, k, _shape(m, generic))
        det = "%s\n tree: %s\n minimal failing sub-tree: %s\n emitted: %s\n fully parenthesised: %s" % (detail, sql3vl.fmt(ast), sql3vl.fmt(m), _sql(m, False, d), _sql(m, True, d))
        rec.violation(sig, det, dict(mode=mode, ast=m, quick=quick, kind=kind, generic=sorted(generic)))


def run_shard(shard, tier, rec):
    n, typ, p, parts = shard
    b = bounds(tier)
    quick = b["quick"]
    conn = _conn()
    base = W.trees(n, typ) if n <= 3 else W.iter_trees(n, typ)
    pending = []
    conf = set()
    lit = set()

    def flush():
        if pending:
            res = check_sqlite(conn, pending, quick, rec, conf, lit)
            _report(rec, res, lambda s: check_sqlite(conn, [s], quick, None, {s}, {s} if _has_literal(s) else ()), "sqlite", quick)
            res = check_parse([a for a in pending if a in conf], PARSE_DIALECTS, rec)
            _report(rec, res, lambda s: check_parse([s]), "parse", quick)
            del pending[:]
            conf.clear()
            lit.clear()
            _built.clear()

    for i, tr in enumerate(base):
        if i % parts != p:
            continue
        ast, _ = W.assign_columns(tr)
        variants = [ast]
        if n <= b["lit_n"]:
            variants.extend(W.literal_variants(tr))
        for v in variants:
            nontrivial = n >= 2 or v[0] in ("not", "ne", "not_like", "not_between", "not_in", "is_not_null", "indf")
            rec.case(v, nontrivial=nontrivial)
            pending.append(v)
            is_base = v is ast
            if n <= b["parse_n"] and (is_base or n <= b["parse_lit_n"] or _has_bool_literal_only(v)):
                conf.add(v)
            if _has_literal(v) and n <= b["litmode_n"]:
                lit.add(v)
            if is_base and n >= 2 and (i // parts) % 97 == 3:
                rec.sample(dict(tree=sql3vl.fmt(v), emitted_sqlite=_sql(v), grouped_sqlite=_sql(v, True), emitted_postgresql=_sql(v, False, "postgresql")))
            if len(pending) >= BATCH:
                flush()
    flush()


def _tuplify(x):
    if isinstance(x, list):
        return tuple(_tuplify(i) for i in x)
    return x


def replay(case):
    ast = _tuplify(case["ast"])
    out = []
    if case.get("mode") == "parse":
        res = check_parse([ast])
    else:
        res = check_sqlite(_conn(), [ast], case.get("quick", False), None, {ast}, {ast} if _has_literal(ast) else ())
    generic = {tuple(g) for g in case.get("generic", [])}
    for a, kind, detail in res:
        d, k = _split(kind)
        out.append(("%s %s: %s" % (d, k, _shape(a, generic)), "%s\n emitted: %s\n fully parenthesised: %s" % (detail, _sql(a, False, d), _sql(a, True, d))))
    return out
