"""C52 scoped_session gives each scope its own session — engine T.

Two/three real threads call the registry, proxy methods and remove() under
every schedule with a bounded number of preemptions inside
util/_collections.py (ScopedRegistry / ThreadLocalRegistry) and orm/scoping.py.
"""
import itertools

import sqlalchemy.orm.scoping as scoping
import sqlalchemy.util as sa_util
import sqlalchemy.util._collections as ucoll
import sqlalchemy.util.compat as sa_compat
from sqlalchemy import Column
from sqlalchemy import Integer
from sqlalchemy.orm import declarative_base
from sqlalchemy.orm import scoped_session
from sqlalchemy.orm import Session
from sqlalchemy.orm import sessionmaker

from ..engines import threads as T

ID = "C52"
LEVEL = "model_checking"
META = dict(
    engine="T",
    technique="stateless preemption-bounded thread-schedule exploration of the real scoped_session / ScopedRegistry code (sys.monitoring baton scheduler), scope invariants checked on every schedule",
    design_ref="DESIGN.md §5 C52",
    level_text="All schedules with <=2 (M-gil) / <=1 (M-ft) preemptions (thorough: 3 / 2, plus 3 threads) of threads running "
    "{S();S()}, {S();S.remove();S()}, {S.add(x);S.remove()}, {S(kw) / configure misuse} against a scoped_session with the default "
    "thread-local registry, a per-thread scopefunc and a scopefunc that maps all threads to ONE scope. Checked on every schedule: "
    "same Session for repeated calls within a scope, distinct Sessions across scopes, all threads of a shared scope end up with the "
    "same Session, remove() closes and discards only the caller's scope's Session (the other scope keeps its pending object).",
    level_note="Trusted: vf/engines/threads.py scheduler. Sessions are never bound to a database (no SQL is needed for the property). "
    "M-ft explores line-granular interleavings only.",
    rule="state = distinct outcome class per harness; transition = one complete schedule on the real registry",
    assumptions=["scopefunc is a pure function of the calling thread"],
    bounds=dict(quick="2 threads; gil 2 / ft 1", thorough="2 threads gil 3 / ft 2; 3 threads gil 2 / ft 1"),
)
SHARD_TIMEOUT = dict(quick=600, thorough=3000)

Base = declarative_base()


class Thing(Base):
    __tablename__ = "thing"
    id = Column(Integer, primary_key=True)


class LogSession(Session):
    closed_log = None

    def close(self):
        if LogSession.closed_log is not None:
            LogSession.closed_log.append(id(self))
        super().close()


FILES = {ucoll.__file__, scoping.__file__}
BODIES = ("call2", "call_remove_call", "add_remove", "call_kw", "has_call")
REGS = ("threadlocal", "scopefunc_thread", "scopefunc_shared")


class Harness:
    files = FILES

    def __init__(self, reg, bodies):
        self.reg = reg
        self.body_names = tuple(bodies)
        self.bodies = [self._mk(b) for b in bodies]

    def patches(self, model):
        p = []
        if model == "ft":
            rl = T.CoopRLock()
            p += [(sa_util, "mini_gil", rl), (sa_compat, "mini_gil", rl)]
        return p

    def setup(self, ex):
        closed = []
        LogSession.closed_log = closed
        factory = sessionmaker(class_=LogSession)
        if self.reg == "threadlocal":
            S = scoped_session(factory)
        elif self.reg == "scopefunc_thread":
            S = scoped_session(factory, scopefunc=lambda: T.cur_vt().tid if T.cur_vt() else "main")
        else:
            S = scoped_session(factory, scopefunc=lambda: 0)
        return dict(S=S, closed=closed, got={}, viol=[], objs={}, keep=[])

    def _mk(self, name):
        reg = self.reg

        def body(ctx, tid):
            S = ctx["S"]
            got = ctx["got"].setdefault(tid, [])
            if name == "call2":
                s1 = S()
                s2 = S()
                got += [s1, s2]
                if reg != "scopefunc_shared" or all(b in ("call2", "has_call") for b in self.body_names):
                    if s1 is not s2:
                        ctx["viol"].append("same-scope: two calls without remove() returned different Sessions in thread %d" % tid)
            elif name == "has_call":
                h = S.registry.has()
                s1 = S()
                got.append(s1)
                if not S.registry.has() and (reg != "scopefunc_shared" or all(b in ("call2", "has_call") for b in self.body_names)):
                    ctx["viol"].append("has(): False right after the scope's Session was created (thread %d)" % tid)
            elif name == "call_remove_call":
                s1 = S()
                S.remove()
                s2 = S()
                got += [s1, s2]
                ctx["keep"].append(s1)
                if reg != "scopefunc_shared":
                    if s1 is s2:
                        ctx["viol"].append("remove: same Session returned after remove() in thread %d" % tid)
                    if ctx["closed"].count(id(s1)) < 1:
                        ctx["viol"].append("remove: the scope's Session was not closed by remove() in thread %d" % tid)
            elif name == "add_remove":
                x = Thing()
                ctx["objs"][tid] = x
                S.add(x)  # proxy method -> current scope's session
                s = S()
                got.append(s)
                if reg != "scopefunc_shared" and x not in s.new:
                    ctx["viol"].append("proxy: S.add(x) did not reach the scope's own Session (thread %d)" % tid)
                ctx["mid_%d" % tid] = s
                S.remove()
            elif name == "call_kw":
                try:
                    s1 = S(autoflush=False)
                    got.append(s1)
                    if s1.autoflush is not False:
                        ctx["viol"].append("kw: Session created without the given arguments")
                except Exception as e:  # noqa
                    if reg != "scopefunc_shared":
                        ctx["viol"].append("kw: S(kw) raised %r although the scope had no Session" % (e,))
                s2 = S()
                got.append(s2)

        body.__name__ = name
        return body

    def check(self, ex, ctx):
        v = list(dict.fromkeys(ctx["viol"]))
        for vt in ex.vts.values():
            if vt.exc is not None:
                v.append("error: thread %d raised %r" % (vt.tid, vt.exc))
        got = ctx["got"]
        tids = sorted(got)
        if self.reg != "scopefunc_shared":
            for a, b in itertools.combinations(tids, 2):
                if {id(s) for s in got[a]} & {id(s) for s in got[b]}:
                    v.append("cross-scope: threads %d and %d received the same Session" % (a, b))
            # remove() in one scope must not close / empty the other scope's session:
            # a thread running call2/has_call never calls remove -> its session must not be closed
            for t, name in enumerate(self.body_names):
                if name in ("call2", "has_call", "call_kw"):
                    for s in got.get(t, []):
                        if id(s) in ctx["closed"]:
                            v.append("remove: thread %d's Session was closed by another scope's remove()" % t)
            for t, name in enumerate(self.body_names):
                if name == "add_remove":
                    s = ctx.get("mid_%d" % t)
                    if s is not None and ctx["closed"].count(id(s)) != 1:
                        v.append("remove: Session of thread %d closed %d times" % (t, ctx["closed"].count(id(s))))
        else:
            if all(b in ("call2", "has_call") for b in self.body_names):
                ids = {id(s) for t in tids for s in got[t]}
                if len(ids) != 1:
                    v.append("shared-scope: threads of one scope ended up with %d different Sessions" % len(ids))
        LogSession.closed_log = None
        outcome = (
            tuple(tuple(got[t].index(s) if s in got[t][: got[t].index(s) + 1] else -1 for s in got[t]) for t in tids),
            len({id(s) for t in tids for s in got[t]}),
            len(ctx["closed"]),
            tuple(v),
        )
        return outcome, v


def configs(tier):
    out = []
    pairs = list(itertools.combinations_with_replacement(BODIES, 2))
    for reg in REGS:
        for bp in pairs:
            out.append((reg, bp))
    if tier == "thorough":
        for reg in REGS:
            out.append((reg, ("call2", "call2", "call2")))
            out.append((reg, ("call2", "call_remove_call", "add_remove")))
    return out


def shards(tier, seed):
    return [["seq", reg] for reg in REGS[:2]] + [[reg, list(bp), model] for reg, bp in configs(tier) for model in ("gil", "ft")]


def run_sequential(reg, tier, rec):
    """scopes that END: N short-lived threads, one after another, each uses the registry and exits
    without remove().  A later thread is a different scope even if the OS recycles the thread
    identifier, so it must never be handed an earlier (dead) thread's Session."""
    import threading

    n = 40 if tier == "quick" else 200
    factory = sessionmaker(class_=LogSession)
    if reg == "threadlocal":
        S = scoped_session(factory)
    else:
        S = scoped_session(factory, scopefunc=lambda: id(threading.current_thread()))
    got, idents, keep = [], [], []
    for i in range(n):
        def body():
            s1 = S()
            x = Thing()
            S.add(x)
            got.append((s1, S() is s1, x in s1.new, len(s1.new)))
            idents.append(threading.get_ident())
        t = threading.Thread(target=body)
        keep.append(t)  # keep Thread objects alive: scopefunc id() values stay distinct
        t.start()
        t.join()
    rec.transition(n)
    rec.trace(n)
    rec.case(("seq", reg), nontrivial=len(set(idents)) < n, n=n)
    rec.count("recycled_thread_idents_%s" % reg, n - len(set(idents)))
    rec.state(("seq", reg, len({id(s) for s, *_ in got})))
    rec.sample(dict(harness="sequential short-lived threads", registry=reg, threads=n, recycled_thread_idents=n - len(set(idents))))
    problems = []
    if len({id(s) for s, *_ in got}) != n:
        problems.append("cross-scope: a later thread was handed the Session of an earlier, finished thread (%d distinct Sessions for %d threads)" % (len({id(s) for s, *_ in got}), n))
    if any(not same for _, same, _, _ in got):
        problems.append("same-scope: two calls within one thread returned different Sessions")
    if any(not has or cnt != 1 for _, _, has, cnt in got):
        problems.append("proxy: a thread's Session did not hold exactly its own pending object")
    for p in problems[:1]:
        rec.violation("%s registry=%s sequential-threads" % (p.split(":")[0], reg), p, dict(seq=True, reg=reg, tier=tier), kind=("seq", reg))


def run_shard(shard, tier, rec):
    if shard[0] == "seq":
        return run_sequential(shard[1], tier, rec)
    reg, bodies, model = shard
    h = Harness(reg, bodies)
    n = len(bodies)
    if tier == "quick":
        bound = 2 if model == "gil" else 1
    else:
        bound = (3 if model == "gil" else 2) if n == 2 else (2 if model == "gil" else 1)
    label = "%s/%s/%s" % (reg, "+".join(bodies), model)
    st = T.explore(h, model, bound, rec, label, max_execs=300000)
    rec.case((label, bound), nontrivial=True, n=st["execs"])
    rec.count("schedules_%s" % model, st["execs"])
    if st["execs"] > 1:
        rec.sample(dict(harness=label, preemption_bound=bound, schedules=st["execs"], choice_points=[st["min_points"], st["max_points"]]))
    for choices, outcome, problems in st["violations"][:1]:
        kind = problems[0].split(":")[0]
        rec.violation(
            "%s registry=%s bodies=%s model=%s: %s" % (kind, reg, "+".join(bodies), model, problems[0]),
            "schedule %r\nproblems: %s" % (choices, "; ".join(problems)),
            dict(reg=reg, bodies=list(bodies), model=model, schedule=choices), kind=(kind, reg, model),
        )


def replay(case):
    if case.get("seq"):
        from .. import core

        rec = core.Rec(ID)
        run_sequential(case["reg"], case.get("tier", "quick"), rec)
        return [(v["sig"], v["detail"]) for v in rec.violations]
    h = Harness(case["reg"], case["bodies"])
    outcome, problems = T.replay_schedule(h, case["model"], case["schedule"])
    return [("%s registry=%s bodies=%s model=%s: %s" % (p.split(":")[0], case["reg"], "+".join(case["bodies"]), case["model"], p), p) for p in problems[:1]]
