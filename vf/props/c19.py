"""C19 dependency sorting: exhaustive over all digraphs on <= n nodes."""
import itertools

from sqlalchemy.exc import CircularDependencyError
from sqlalchemy.util import topological

ID = "C19"
LEVEL = "exploration"
META = dict(
    engine="I",
    technique="exhaustive small-scope enumeration of all digraphs (explicit-state, reference SCC oracle)",
    design_ref="DESIGN.md §5 C19",
    level_text="Every directed graph (self-loops included) on <=3 (quick) / <=4 (thorough) nodes, with every "
    "ordering of every subset of the nodes as `allitems`, three orderings/duplications of `tuples` and two hash "
    "assignments of the node objects, is sorted by the real sort/sort_as_subsets/find_cycles and compared with a "
    "DFS/SCC reference. Complete for the bound, so any defect expressible on <=4 nodes is found.",
    level_note="Trusted: the 40-line reference (Tarjan-free reachability closure). Larger/random graphs are not "
    "claimed (sampling is outside the model-checking family).",
    rule="case = (edge set over n nodes, allitems permutation of a node subset); evaluated with 3 tuple orderings x "
    "2 hash assignments; non-trivial = graph has >=1 edge between two listed items (ordering or cycle constraint "
    "is exercised); distinct by (n, edges, allitems)",
    assumptions=["node objects are hashable with arbitrary (possibly colliding) hashes", "allitems has no duplicates"],
    bounds=dict(quick="all digraphs n<=3 x all item orderings of all subsets", thorough="all digraphs n<=4 x all item orderings of all subsets"),
)


class Node:
    __slots__ = ("name", "h")

    def __init__(self, name, h):
        self.name, self.h = name, h

    def __hash__(self):
        return self.h

    def __eq__(self, other):
        return self is other

    def __repr__(self):
        return "n%d" % self.name


def _reach(n, edges):
    adj = [[False] * n for _ in range(n)]
    for a, b in edges:
        adj[a][b] = True
    for k in range(n):
        for i in range(n):
            if adj[i][k]:
                for j in range(n):
                    if adj[k][j]:
                        adj[i][j] = True
    return adj  # adj[i][j]: path of length>=1 from i to j


def all_edge_sets(n):
    pairs = [(a, b) for a in range(n) for b in range(n)]
    # simplest first: by number of edges
    for k in range(len(pairs) + 1):
        for es in itertools.combinations(pairs, k):
            yield es


def item_orders(n):
    for k in range(n + 1):
        for sub in itertools.combinations(range(n), k):
            for perm in itertools.permutations(sub):
                yield perm


def shards(tier, seed):
    out = []
    nmax = 3 if tier == "quick" else 4
    for n in range(1, nmax + 1):
        total = 2 ** (n * n)
        parts = 1 if n < 3 else (8 if n == 3 else 64)
        for p in range(parts):
            out.append((n, p, parts))
    return out


def check_case(n, edges, items):
    """returns list of (kind, detail). edges: tuple of (a,b) ints; items: tuple of ints"""
    out = []
    itemset = set(items)
    sub = [(a, b) for a, b in edges if a in itemset and b in itemset]
    reach_sub = _reach(n, sub)
    cyclic = any(reach_sub[i][i] for i in items)
    reach_all = _reach(n, edges)
    expect_cycles = {i for i in range(n) if reach_all[i][i]}
    results = set()
    for hv in (0, 1):
        nodes = [Node(i, (i * 7919 + 13) if hv == 0 else (n - i) // 2) for i in range(n)]
        tl = [(nodes[a], nodes[b]) for a, b in edges]
        variants = [tl, list(reversed(tl)), tl + tl[:1]]
        if hv == 1:
            variants = [set(tl)]
        for tv in variants:
            its = [nodes[i] for i in items]
            try:
                res = [x.name for x in topological.sort(tv, its)]
                subsets = [[x.name for x in s] for s in topological.sort_as_subsets(tv, its)]
                err = None
            except CircularDependencyError as e:
                res = None
                err = e
            if cyclic:
                if err is None:
                    out.append(("no-error-on-cycle", "sort returned %r" % (res,)))
                else:
                    got = {x.name for x in err.cycles}
                    if got != expect_cycles:
                        out.append(("error-cycles", "CircularDependencyError.cycles=%r expected %r" % (sorted(got), sorted(expect_cycles))))
                continue
            if err is not None:
                out.append(("spurious-cycle-error", "raised %r on acyclic item graph" % (err,)))
                continue
            if sorted(res) != sorted(items):
                out.append(("not-a-permutation", "sort returned %r for items %r" % (res, items)))
                continue
            pos = {x: i for i, x in enumerate(res)}
            for a, b in sub:
                if pos[a] >= pos[b]:
                    out.append(("edge-order", "edge %r->%r but order %r" % (a, b, res)))
                    break
            flat = [x for s in subsets for x in s]
            if flat != res:
                out.append(("subsets-differ-from-sort", "%r vs %r" % (subsets, res)))
            lvl = {x: i for i, s in enumerate(subsets) for x in s}
            for a, b in sub:
                if lvl.get(a) == lvl.get(b):
                    out.append(("edge-inside-subset", "edge %r->%r inside one subset %r" % (a, b, subsets)))
                    break
            if any(not s for s in subsets):
                out.append(("empty-subset", repr(subsets)))
            results.add(tuple(res))
        fc = {x.name for x in topological.find_cycles(variants[0], [nodes[i] for i in items])}
        if fc != expect_cycles:
            out.append(("find-cycles", "find_cycles=%r expected %r" % (sorted(fc), sorted(expect_cycles))))
    if len(results) > 1:
        out.append(("order-depends-on-tuples-or-hash", "different orders for one (graph, allitems): %r" % (sorted(results),)))
    return out, bool(sub)


def run_shard(shard, tier, rec):
    n, p, parts = shard
    for idx, edges in enumerate(all_edge_sets(n)):
        if idx % parts != p:
            continue
        for items in item_orders(n):
            res, nontriv = check_case(n, edges, items)
            key = (n, edges, items)
            rec.case(key, nontrivial=nontriv)
            if nontriv and (idx * 7 + len(items)) % 53 == 5:
                rec.sample(dict(n=n, edges=list(edges), allitems=list(items)))
            for kind, detail in res:
                rec.violation(
                    "%s: n=%d edges=%s allitems=%s" % (kind, n, list(edges), list(items)),
                    detail,
                    dict(n=n, edges=[list(e) for e in edges], items=list(items)),
                    kind=kind,
                )


def replay(case):
    res, _ = check_case(case["n"], tuple(tuple(e) for e in case["edges"]), tuple(case["items"]))
    return [("%s: n=%d edges=%s allitems=%s" % (k, case["n"], case["edges"], case["items"]), d) for k, d in res]
