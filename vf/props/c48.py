"""C48 pending changes survive the application dropping its references (engine H, differential).

A history over set / collection append / collection remove / add / delete /
flush / commit / rollback / savepoints / expire_all, interleaved with
``dropref(x)`` (the harness deletes its only strong reference to x) and ``gc``
(``gc.collect()``; automatic collection is disabled, so collection points are
exactly the enumerated ones), is executed twice on fresh Sessions:

  route A  as enumerated,
  route B  the same history with every dropref / gc removed
           ("the model that ignores reference drops entirely").

After every operation:

 (1) must-keep (strict): the rows the session's transaction sees and the
     committed rows are identical in A and B, and so is the outcome class;
     every object that in B is pending, marked for deletion or carries
     unflushed changes is still alive in A with the same session membership;
 (2) may-release (after a ``gc``): an object that is persistent and unmodified
     in B, is not held by the harness in A and is not reachable from a held or
     session-retained object through loaded relationship attributes, is gone
     in A: its weak reference is dead and its identity has left
     ``Session.identity_map`` (doc/build/orm/session_state_management.rst
     "Session Referencing Behavior").

Mutations caught (private copy, `VF_REPO=/tmp/wt-orm1 ./check C48`):
 * state.py `_modified_event`: `_strong_obj` not set for collection changes
   (`if self.session_id and not collection`) -> "modified object with no
   application reference was not retained by the session"
 * state.py `_modified_event`: `_strong_obj` set only for pending objects ->
   same signature (scalar change lost after dropref)
 * session.py `_delete_impl`: `self._deleted[state] = True` instead of the
   object (no strong reference to an object marked for deletion) -> "outcome
   differs from the run that kept its references"
 * state.py `_commit_all_states`: `state._strong_obj = None` dropped (nothing
   is released after a flush) -> "unmodified persistent object without
   references was not released by gc"
 * state.py `_cleanup`: `instance_dict._fast_discard(self)` dropped (dead
   objects stay in the identity map) -> same signature
"""
from __future__ import annotations

import gc

from sqlalchemy import inspect
from sqlalchemy.orm import attributes as orm_attributes

from ..worlds import ormworld1 as W

ID = "C48"
LEVEL = "model_checking"
META = dict(
    engine="H",
    technique="explicit-state BFS over modification / reference-drop / gc histories by replay on the real Session; "
    "differential against the same history without the reference drops; canonical-state dedupe",
    design_ref="DESIGN.md §5 C48",
    level_text="All histories up to the stated depth over attribute set, collection append / remove, add, delete, flush, "
    "commit, rollback, begin_nested / savepoint release, expire_all, dropref(x) and gc.collect() on a loaded parent, a "
    "loaded child and a new child. Each history runs twice (with and without the reference drops); database rows, "
    "outcome and the session membership of every object the Session must retain are compared after every operation, "
    "and after each gc the objects that may be released are required to be gone.",
    level_note="Trusted: the two-route comparison and the reachability closure (~40 lines) that decides which unreferenced "
    "clean objects must disappear. GC is disabled between the enumerated gc ops, so weak-reference callbacks run only "
    "at refcount-zero of a dropref or inside an enumerated gc.",
    rule="state = deep canonical form of route A's Session + which names the harness holds; transition = one op applied to "
    "both routes; non-trivial = the history contains >= 1 dropref before the op and >= 1 object is pending / dirty / "
    "marked deleted in route B before or after the op",
    assumptions=["single Session, single thread, CPython reference counting, gc.disable() outside enumerated gc ops"],
    bounds=dict(quick="depth <= 5 beyond the two initial loads, expire_on_commit True", thorough="depth <= 6 with expire_on_commit True, depth <= 5 with expire_on_commit False"),
)

CFG = dict(
    universe=[("c2", "Child", {"id": 2, "name": "n"})],
    seed={"parent": [(1, "s")], "child": [(1, "c", 1)]},
    tables=("parent", "child"),
    record_events=True,  # only to give lazily loaded objects a name; born objects are not kept alive by the harness
    born_hold=False,
    prefix=(("get", "Parent", 1), ("get", "Child", 1)),
)
DEPTH = dict(quick=5, thorough=6)
EOCS = dict(quick=(True,), thorough=(True, False))
DROP_OPS = ("dropref", "gc")


def make_cfg(eoc):
    cfg = dict(CFG)
    cfg["eoc"] = eoc
    return cfg


class Light:
    __slots__ = ("held", "nsp", "drops", "keep")

    def __init__(self, held=("c2", "b1", "b2"), nsp=0, drops=0, keep=()):
        # keep: what the session had to retain before the next op (bookkeeping for the evidence only)
        self.held, self.nsp, self.drops, self.keep = tuple(held), nsp, drops, tuple(keep)

    def copy(self):
        return Light(self.held, self.nsp, self.drops, self.keep)

    def canon(self):
        return (self.held, self.nsp)


def enabled(ms):
    h = ms.held
    ops = []
    if "b1" in h:
        ops.append(("set", "b1", "name", "x"))
    if "b2" in h:
        ops.append(("set", "b2", "name", "y"))
    if "c2" in h:
        ops.append(("set", "c2", "name", "z"))
    if "b1" in h and "c2" in h:
        ops.append(("append", "b1", "children", "c2"))
    if "b1" in h and "b2" in h:
        ops.append(("remove", "b1", "children", "b2"))
    if "c2" in h:
        ops.append(("add", "c2", None))
    if "b2" in h:
        ops.append(("delete", "b2"))
    for n in h:
        ops.append(("dropref", n))
    ops += [("gc",), ("flush",), ("commit",), ("rollback",), ("expire_all",)]
    if ms.nsp < 1:
        ops.append(("begin_nested",))
    else:
        ops += [("sp_commit",), ("sp_rollback",)]
    return ops


def run_route(cfg, history, drops):
    """replay; returns the world (open) and the outcome of the last op"""
    w = W.World(cfg)
    out = None
    for op in tuple(cfg["prefix"]) + tuple(history):
        if not drops and op[0] in DROP_OPS:
            out = W.Outcome(True)
            continue
        out = w.apply(tuple(op))
    return w, out


def retained_flags(w, name):
    """(alive, contains, new, deleted, modified) without creating references that outlive the call"""
    r = w.weak.get(name)
    o = r() if r is not None else None
    if o is None:
        return (False, False, False, False, False)
    s = w.session
    st = inspect(o)
    return (True, o in s, o in s.new, o in s.deleted, bool(st.modified) and st.session is s)


def reachable(w, roots):
    """names reachable from roots through loaded relationship attributes and the
    pre-change copies kept in committed_state"""
    seen = set()
    todo = list(roots)
    while todo:
        n = todo.pop()
        if n in seen:
            continue
        seen.add(n)
        r = w.weak.get(n)
        o = r() if r is not None else None
        if o is None:
            continue
        st = orm_attributes.instance_state(o)
        vals = [o.__dict__.get(a) for a in W.RELATTRS[w.cls[n]]] + list(st.committed_state.values())
        if "_pending_mutations" in st.__dict__:
            for pm in st._pending_mutations.values():
                vals += [list(pm.added_items), list(pm.deleted_items)]
        for v in vals:
            items = v if isinstance(v, (list, tuple, set)) or hasattr(v, "_sa_adapter") else [v]
            try:
                it = list(items)
            except TypeError:
                it = []
            for x in it:
                nm = getattr(x, "__dict__", {}).get("_vf_name")
                if nm is not None:
                    todo.append(nm)
    return seen


def check_step(cfg, hist_, ms, op):
    problems = []
    info = {}
    full = tuple(hist_) + (op,)
    # ---- route B first (reference run), then route A; one World at a time per process
    wb, out_b = run_route(cfg, full, drops=False)
    try:
        rows_b = (dict(wb.session_rows()), dict(wb.committed_rows()))
        names = sorted(wb.weak)
        flags_b = {n: retained_flags(wb, n) for n in names}
        must_keep = [n for n in names if flags_b[n][0] and (flags_b[n][2] or flags_b[n][3] or (flags_b[n][1] and flags_b[n][4]))]
        held_after = [n for n in ms.held if not (op[0] == "dropref" and op[1] == n)]
        roots = set(held_after) | set(must_keep)
        reach = reachable(wb, roots)
        may_release = [n for n in names if n not in must_keep and flags_b[n][0] and flags_b[n][1] and not flags_b[n][4] and n not in reach]
        keys_b = {n: (lambda o: None if o is None or inspect(o).key is None else inspect(o).key)(wb.weak[n]()) for n in names}
        ok_b = out_b.ok
        excname_b = out_b.exc_name
        short_b = out_b.short()
        active_b = wb.session.is_active
    finally:
        wb.close()
    del wb
    wa, out_a = run_route(cfg, full, drops=True)
    try:
        info.update(route_b=short_b, route_a=out_a.short(), must_keep=must_keep, may_release=may_release, held=held_after)
        if out_a.ok != ok_b or out_a.exc_name != excname_b:
            problems.append(("%s: outcome differs from the run that kept its references" % op[0], "with drops: %s; without: %s" % (out_a.short(), short_b)))
        terminal = not wa.session.is_active or not active_b
        if not problems and not terminal:
            rows_a = (dict(wa.session_rows()), dict(wa.committed_rows()))
            info.update(rows_a=rows_a, rows_b=rows_b)
            if rows_a != rows_b:
                problems.append(
                    ("%s: database differs from the run that kept its references (a pending change was lost or invented)" % ("flush" if op[0] in ("flush", "commit", "begin_nested", "sp_commit") else op[0]),
                     "with drops: %r; without: %r" % (rows_a, rows_b))
                )
            for n in must_keep:
                fa = retained_flags(wa, n)
                if fa != flags_b[n]:
                    what = "pending" if flags_b[n][2] else ("marked for deletion" if flags_b[n][3] else "modified")
                    problems.append(
                        ("%s object with no application reference was not retained by the session" % what, "%s: (alive, in session, new, deleted, modified) with drops %r, without %r" % (n, fa, flags_b[n]))
                    )
                    break
            if op[0] == "gc":
                for n in may_release:
                    r = wa.weak.get(n)
                    alive = r is not None and r() is not None
                    in_map = keys_b[n] is not None and keys_b[n] in wa.session.identity_map._dict
                    if alive or in_map:
                        problems.append(("unmodified persistent object without references was not released by gc", "%s alive=%s identity still in map=%s" % (n, alive, in_map)))
                        break
                info["identity_map_len"] = len(wa.session.identity_map)
        canon = None
        if not problems and not terminal:
            canon = W.deep_canon(wa)
        m2 = ms.copy()
        m2.held = tuple(held_after)
        m2.nsp = len(wa.sps)
        m2.drops = ms.drops + (1 if op[0] == "dropref" else 0)
        m2.keep = tuple(must_keep)
        info["retained_before"] = list(ms.keep)
        nontrivial = ms.drops > 0 and bool(ms.keep or must_keep) and op[0] not in DROP_OPS
        released = [n for n in names if flags_b[n][0] and not (wa.weak.get(n) and wa.weak[n]() is not None)]
        info["released"] = released
        return problems, m2, canon, info, terminal, nontrivial
    finally:
        wa.close()


def make_step(cfg, rec):
    def step(hist_, ms, op):
        problems, m2, canon, info, terminal, nontrivial = check_step(cfg, hist_, ms, op)
        rec.case((cfg["eoc"], ms.canon(), hist_[-3:], op), nontrivial=nontrivial)
        rec.outcome((op[0], info.get("route_a", "").split(":")[0], tuple(info.get("released", ())), repr(info.get("rows_a"))))
        if problems:
            sig, detail = problems[0]
            case = dict(eoc=cfg["eoc"], history=[list(h) for h in hist_], op=list(op), held=list(ms.held))
            rec.violation("C48 " + sig, "%s\nhistory (after %s): %s\nop: %s\nobserved: %s" % (detail, list(cfg["prefix"]), case["history"], list(op), info), case)
            return None
        if terminal:
            rec.count("histories ending in a failed flush (not continued)")
            return None
        if info.get("released"):
            rec.count("steps after which >= 1 object had been released")
        if nontrivial and info.get("released") and op[0] in ("flush", "commit"):
            rec.sample(dict(eoc=cfg["eoc"], history=[list(h) for h in hist_], op=list(op), had_to_retain=info["retained_before"], released=info["released"], rows=repr(info.get("rows_a"))), limit=3)
        return m2, (cfg["eoc"], m2.canon(), canon)

    return step


def shards(tier, seed):
    return [None]


SHARD_TIMEOUT = dict(quick=4 * 3600, thorough=12 * 3600)  # watchdog only; the box may be heavily overloaded
WARM = [
    ("get", "Parent", 1), ("get", "Child", 1), ("set", "b1", "name", "w"), ("append", "b1", "children", "c2"), ("flush",),
    ("remove", "b1", "children", "b2"), ("begin_nested",), ("delete", "b2"), ("sp_commit",), ("expire_all",), ("commit",), ("rollback",),
]


def run_shard(shard, tier, rec):
    jobs = W.jobs_from_argv()
    gc.disable()
    try:
        for eoc in EOCS[tier]:
            cfg = make_cfg(eoc)
            ms0 = Light()
            depth = DEPTH[tier] - (0 if eoc else 1)
            d = W.explore_levels(
                rec, ID, [((), ms0, ("root", eoc))], enabled, lambda r, cfg=cfg: make_step(cfg, r), depth, jobs, warm=[(cfg, WARM)], ctx=dict(eoc=eoc)
            )
            rec.count("depth completed eoc=%s" % eoc, d)
    finally:
        W.cleanup()
        gc.enable()


def _tuplify(x):
    if isinstance(x, list):
        return tuple(_tuplify(i) for i in x)
    return x


def replay(case):
    if case.get("kind") == "hang":  # recorded by the per-step watchdog: re-run the step without a limit
        case = dict(case.get("ctx") or {}, history=case["history"], op=case["op"])
    gc.disable()
    try:
        cfg = make_cfg(case["eoc"])
        hist_ = tuple(_tuplify(h) for h in case["history"])
        problems, _, _, info, _, _ = check_step(cfg, hist_, Light(held=case.get("held", ("c2", "b1", "b2"))), _tuplify(case["op"]))
        return [("C48 " + s, "%s\nobserved: %s" % (d, info)) for s, d in problems[:1]]
    finally:
        W.cleanup()
        gc.enable()
